#!/bin/bash
# tools/import_round.sh <round> <id> [...]: confirm and import the changes a seeding sub-agent left under
# /tmp/seed<round>-<id>/out (one at a time: the confirmation worktree /tmp/confirm is shared), then remove
# that agent's scratch worktree and build output.
rnd="$1"; shift
for id in "$@"; do
  while pgrep -f "import_seeded.py" >/dev/null; do sleep 5; done
  python3 /verif/tools/import_seeded.py --round "$rnd" "$id"
  git -C /repo worktree remove --force "/tmp/seed$rnd-$id/repo" 2>/dev/null
  rm -rf "/tmp/seed$rnd-$id/target"
done
