#!/usr/bin/env python3
"""Run the checks against the seeded changes under /verif/seeded/<id>/patch.diff and record whether a
VIOLATION was raised.  Two modes:
  default        : apply each change to /repo itself, run the registered quick command, revert (the way the
                   checks are meant to be used; one change at a time).
  --jobs N       : N workers, each with its own scratch worktree of /repo under /tmp/seedrun/w<k>/repo and its own
                   build directory (./check honours VERIF_REPO / VERIF_BUILD); same binaries' source, same seeds.
                   Worktrees and build output are removed at the end.
Usage: tools/run_seeded.py [--tier quick|thorough] [--jobs N] [--also C01,C05|ALL] [--root /verif/benign] [--only <id>...]
(--root /verif/benign --also ALL: behaviour-preserving refactorings, every check must stay silent)
Merges into /verif/seeded/results.json and rewrites /verif/seeded/RESULTS.md. Never leaves /repo modified."""
import json, os, subprocess, sys, time, threading, queue, shutil

ROOT = "/verif/seeded"
tier = "quick"
only = []
also = []
jobs = 0
args = sys.argv[1:]
while args:
    a = args.pop(0)
    if a == "--tier": tier = args.pop(0)
    elif a == "--jobs": jobs = int(args.pop(0))
    elif a == "--only":
        only = args
        args = []
    elif a == "--also":
        also = args.pop(0).split(",")
        if also == ["ALL"]:
            also = [f"C{i:02d}" for i in range(1, 21)]
    elif a == "--root": ROOT = args.pop(0)

def sh(cmd, **kw):
    return subprocess.run(cmd, shell=True, capture_output=True, text=True, **kw)

names = [d for d in sorted(os.listdir(ROOT)) if os.path.isdir(os.path.join(ROOT, d)) and (not only or d in only)]
rows = []
lock = threading.Lock()

def run_one(d, repo, env):
    p = os.path.join(ROOT, d)
    meta = json.load(open(os.path.join(p, "meta.json")))
    props = meta.get("property", [])
    props = props if isinstance(props, list) else [props]
    r = sh(f"git -C {repo} apply --whitespace=nowarn {p}/patch.diff")
    if r.returncode != 0:
        return (d, props, "patch does not apply: " + r.stderr.strip()[:100], {})
    res = {}
    try:
        for c in props + [x for x in also if x not in props]:
            t0 = time.time()
            rr = sh(f"cd /verif && {env} ./check {c} {tier}")
            viol = [l for l in rr.stdout.splitlines() if l.startswith("VIOLATION")]
            what = [l.strip() for l in rr.stdout.splitlines() if l.strip().startswith("what:")]
            res[c] = (rr.returncode, len(viol), what[0][:160] if what else "", round(time.time() - t0, 1))
    finally:
        sh(f"git -C {repo} checkout -- . && git -C {repo} clean -fdq -- tests src")
    print(d, {k: v[:2] for k, v in res.items()}, "(neutralised by a fix: exit 0 expected)" if meta.get("neutralised_by_fix") else "", flush=True)
    summ = meta.get("summary", "")
    if meta.get("neutralised_by_fix"):
        summ = "[NEUTRALISED by fix " + meta["neutralised_by_fix"]["commit"] + ": no longer breaks the property, exit 0 expected] " + summ
    return (d, props, summ, res)

if jobs <= 0:
    assert sh("git -C /repo status --porcelain").stdout.strip() == "", "/repo has uncommitted changes"
    for d in names:
        rows.append(run_one(d, "/repo", "VERIF_EVIDENCE_DIR=/tmp/seeded-ev"))
    assert sh("git -C /repo status --porcelain").stdout.strip() == ""
else:
    q = queue.Queue()
    for d in names:
        q.put(d)
    def worker(k):
        base = f"/tmp/seedrun-{os.getpid()}/w{k}"
        os.makedirs(base, exist_ok=True)
        if not os.path.isdir(base + "/repo"):
            r = sh(f"git -C /repo worktree add --detach {base}/repo HEAD")
            assert r.returncode == 0, r.stderr
        else:
            sh(f"cd {base}/repo && git checkout -q --detach $(git -C /repo rev-parse HEAD) && git checkout -- . && git clean -fdq")
        if not os.path.isdir(base + "/build") and os.path.isdir(f"/verif/build/{'release' if tier == 'thorough' else 'quick'}"):
            os.makedirs(base + "/build")
            prof = 'release' if tier == 'thorough' else 'quick'
            sh(f"cp -a /verif/build/{prof} {base}/build/{prof}")   # warm start: third-party crates are reused
        env = f"VERIF_REPO={base}/repo VERIF_BUILD={base}/build VERIF_EVIDENCE_DIR={base}/ev VERIF_REPLAY_DIR={base}/replays"
        while True:
            try:
                d = q.get_nowait()
            except queue.Empty:
                break
            row = run_one(d, base + "/repo", env)
            with lock:
                rows.append(row)
        sh(f"git -C /repo worktree remove --force {base}/repo")
        shutil.rmtree(base, ignore_errors=True)
    ts = [threading.Thread(target=worker, args=(k,)) for k in range(jobs)]
    for t in ts: t.start()
    for t in ts: t.join()
    sh("git -C /repo worktree prune")
# merge with earlier rows (seeded/results.json holds one row per change; RESULTS.md is rendered from it)
store = os.path.join(ROOT, "results.json")
allrows = json.load(open(store)) if os.path.exists(store) else {}
for d, props, summ, res in rows:
    allrows[d] = {"props": props, "summary": summ, "results": res, "tier": tier}
allrows = {k: v for k, v in allrows.items() if os.path.isdir(os.path.join(ROOT, k))}
json.dump(allrows, open(store, "w"), indent=1, sort_keys=True)
with open(os.path.join(ROOT, "RESULTS.md"), "w") as f:
    if "benign" in ROOT:
        f.write("# Behaviour-preserving refactorings vs checks\n\nEvery check must exit 0 (no VIOLATION); exit 1 = false alarm; exit 2 = machinery failure.\n\n| change | - | summary | check results (exit, #violations, first message, s) |\n|---|---|---|---|\n")
    else:
        f.write("# Seeded changes vs checks\n\nexit 1 + VIOLATION = caught; exit 0 = missed; exit 2 = machinery failure. Tier quick unless noted.\n\n| seeded change | breaks | summary | check results (exit, #violations, first message, s) |\n|---|---|---|---|\n")
    def keyf(k):
        import re
        m = re.match(r"(.*?)-?[mb]?(\d+)$", k)
        return (m.group(1), int(m.group(2))) if m else (k, 0)
    for d in sorted(allrows, key=keyf):
        r = allrows[d]
        cell = "<br>".join(f"{c}: exit {v[0]}, {v[1]} viol. {v[2]} ({v[3]} s)" + ("" if r.get("tier", "quick") == "quick" else f" [{r['tier']}]") for c, v in r["results"].items())
        f.write(f"| {d} | {', '.join(r['props'])} | {r['summary'][:200].replace('|', '/')} | {cell} |\n")
print("wrote", os.path.join(ROOT, "RESULTS.md"), len(allrows), "rows")
