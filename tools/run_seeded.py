#!/usr/bin/env python3
"""Apply each seeded change under /verif/seeded/<id>/patch.diff to /repo, run the check of the
property it breaks (and optionally others), record whether a VIOLATION was raised, revert.
Usage: tools/run_seeded.py [--tier quick|thorough] [--only <id>...] [--also C01,C05]
Writes /verif/seeded/RESULTS.md. Never leaves /repo modified."""
import json, os, subprocess, sys, time

ROOT = "/verif/seeded"
tier = "quick"
only = []
also = []
args = sys.argv[1:]
while args:
    a = args.pop(0)
    if a == "--tier": tier = args.pop(0)
    elif a == "--only":
        only = args
        args = []
    elif a == "--also": also = args.pop(0).split(",")

def sh(cmd, **kw):
    return subprocess.run(cmd, shell=True, capture_output=True, text=True, **kw)

assert sh("git -C /repo status --porcelain").stdout.strip() == "", "/repo has uncommitted changes"
rows = []
for d in sorted(os.listdir(ROOT)):
    p = os.path.join(ROOT, d)
    if not os.path.isdir(p) or (only and d not in only):
        continue
    meta = json.load(open(os.path.join(p, "meta.json")))
    props = meta["property"] if isinstance(meta["property"], list) else [meta["property"]]
    r = sh(f"git -C /repo apply --whitespace=nowarn {p}/patch.diff")
    if r.returncode != 0:
        rows.append((d, props, "patch does not apply: " + r.stderr.strip()[:100], {}))
        continue
    res = {}
    try:
        for c in props + [x for x in also if x not in props]:
            t0 = time.time()
            rr = sh(f"cd /verif && VERIF_EVIDENCE_DIR=/tmp/seeded-ev ./check {c} {tier}")
            viol = [l for l in rr.stdout.splitlines() if l.startswith("VIOLATION")]
            what = [l.strip() for l in rr.stdout.splitlines() if l.strip().startswith("what:")]
            res[c] = (rr.returncode, len(viol), what[0][:160] if what else "", round(time.time() - t0, 1))
    finally:
        sh("git -C /repo checkout -- . && git -C /repo clean -fdq -- tests src")
    rows.append((d, props, meta.get("summary", ""), res))
    print(d, {k: v[:2] for k, v in res.items()}, flush=True)
assert sh("git -C /repo status --porcelain").stdout.strip() == ""
# merge with earlier rows (seeded/results.json holds one row per change; RESULTS.md is rendered from it)
store = os.path.join(ROOT, "results.json")
allrows = json.load(open(store)) if os.path.exists(store) else {}
for d, props, summ, res in rows:
    allrows[d] = {"props": props, "summary": summ, "results": res, "tier": tier}
allrows = {k: v for k, v in allrows.items() if os.path.isdir(os.path.join(ROOT, k))}
json.dump(allrows, open(store, "w"), indent=1, sort_keys=True)
with open(os.path.join(ROOT, "RESULTS.md"), "w") as f:
    f.write("# Seeded changes vs checks\n\nexit 1 + VIOLATION = caught; exit 0 = missed; exit 2 = machinery failure. Tier quick unless noted.\n\n| seeded change | breaks | summary | check results (exit, #violations, first message, s) |\n|---|---|---|---|\n")
    def keyf(k):
        a, b = k.split("-m")
        return (a, int(b))
    for d in sorted(allrows, key=keyf):
        r = allrows[d]
        cell = "<br>".join(f"{c}: exit {v[0]}, {v[1]} viol. {v[2]} ({v[3]} s)" + ("" if r.get("tier", "quick") == "quick" else f" [{r['tier']}]") for c, v in r["results"].items())
        f.write(f"| {d} | {', '.join(r['props'])} | {r['summary'][:200].replace('|', '/')} | {cell} |\n")
print("wrote", os.path.join(ROOT, "RESULTS.md"), len(allrows), "rows")
