#!/usr/bin/env python3
"""Mechanical mutation sweep: how many single-token changes of /repo that keep the pinned suite green do the
quick checks report?  Complements the hand-made seeded changes under /verif/seeded (those are "intelligent"
mutants; these are dumb, many, and unbiased).  Nothing here is used by a registered check.

  tools/mutation_sweep.py gen [--per-file N]      write /tmp/mut/mutants.jsonl
  tools/mutation_sweep.py test [--workers W]      pinned suite per mutant (scratch worktrees /tmp/mut/w<k>/repo)
  tools/mutation_sweep.py check [--workers W]     quick checks (mapped by file) for mutants the suite accepts
  tools/mutation_sweep.py report                  write /verif/seeded/SWEEP.md
  tools/mutation_sweep.py clean                   remove the scratch worktrees and /tmp/mut

Scratch state lives under /tmp/mut only.  /repo itself is never modified."""
import json, os, re, shutil, subprocess, sys, time, hashlib
from concurrent.futures import ThreadPoolExecutor

ROOT = "/tmp/mut"
REPO = "/repo"
FILES = {
    # file -> checks that exercise it (quick tier)
    "src/codec.rs": ["C07", "C08"],
    "src/field.rs": ["C09", "C11", "C07", "C13", "C05"],
    "src/field/field255.rs": ["C09", "C07"],
    "src/fp.rs": ["C09", "C10"],
    "src/fp/ops.rs": ["C09"],
    "src/ntt.rs": ["C10", "C05", "C19"],
    "src/polynomial.rs": ["C10", "C05", "C19"],
    "src/prng.rs": ["C11", "C01"],
    "src/vdaf/xof.rs": ["C11", "C01", "C03"],
    "src/flp.rs": ["C05", "C02", "C01", "C16"],
    "src/flp/gadgets.rs": ["C05", "C14", "C01", "C02"],
    "src/flp/types.rs": ["C05", "C01", "C02", "C16"],
    "src/flp/types/l1boundsum.rs": ["C05", "C01", "C02", "C16"],
    "src/flp/types/dp.rs": ["C15", "C16"],
    "src/dp.rs": ["C15", "C16"],
    "src/dp/distributions.rs": ["C15"],
    "src/dp/rand_bigint.rs": ["C15"],
    "src/idpf.rs": ["C06", "C03", "C04", "C07", "C08", "C16"],
    "src/vdaf.rs": ["C13", "C07", "C08", "C01", "C03"],
    "src/vdaf/prio3.rs": ["C01", "C02", "C07", "C08", "C16", "C17", "C18", "C14", "C13", "C20"],
    "src/vdaf/prio3/l1boundsum.rs": ["C01", "C16"],
    "src/vdaf/poplar1.rs": ["C03", "C04", "C07", "C08", "C16", "C17", "C18", "C20", "C13"],
    "src/vdaf/prio2.rs": ["C19", "C07", "C08", "C16", "C20"],
    "src/vdaf/prio2/client.rs": ["C19", "C16"],
    "src/vdaf/prio2/server.rs": ["C19", "C07", "C08"],
    "src/topology/ping_pong.rs": ["C12", "C07", "C08"],
}
OPS = [
    # (regex on a code fragment, replacement, name)
    (r" \+ 1\b", " + 2", "+1->+2"), (r" \+ 1\b", "", "drop+1"), (r" - 1\b", "", "drop-1"), (r" - 1\b", " - 2", "-1->-2"),
    (r" <= ", " < ", "<=-><"), (r" < ", " <= ", "<-><="), (r" >= ", " > ", ">=->>"), (r" > ", " >= ", ">->>="),
    (r" == ", " != ", "==->!="), (r" != ", " == ", "!=->=="), (r" && ", " || ", "&&->||"), (r" \|\| ", " && ", "||->&&"),
    (r" \+ ", " - ", "+->-"), (r" - ", " + ", "-->+"), (r" \* ", " + ", "*->+"), (r" \+= ", " -= ", "+=->-="), (r" -= ", " += ", "-=->+="),
    (r"\btrue\b", "false", "true->false"), (r"\bfalse\b", "true", "false->true"),
    (r"\b0\b", "1", "0->1"), (r"\b1\b", "0", "1->0"), (r"\b2\b", "3", "2->3"), (r"\b8\b", "7", "8->7"), (r"\b16\b", "15", "16->15"),
    (r" >> ", " << ", ">>-><<"), (r" << ", " >> ", "<<->>>"), (r" & ", " | ", "&->|"), (r" \| ", " & ", "|->&"),
    (r"\.checked_add\(", ".wrapping_add(", "checked_add->wrapping"), (r"\.checked_mul\(", ".wrapping_mul(", "checked_mul->wrapping"),
    (r"\.checked_sub\(", ".wrapping_sub(", "checked_sub->wrapping"),
    (r"\.div_ceil\(", ".div_euclid(", "div_ceil->div"), (r"\.min\(", ".max(", "min->max"), (r"\.max\(", ".min(", "max->min"),
    (r"\.skip\(1\)", "", "drop skip(1)"), (r"\.rev\(\)", "", "drop rev()"),
    (r"\bLeader\b", "Helper", "Leader->Helper"), (r"\bHelper\b", "Leader", "Helper->Leader"),
    (r"\?;", ".ok();", "?->ok()"),
]


def sh(cmd, cwd=None, timeout=3600, env=None):
    e = dict(os.environ)
    e.update({"CARGO_NET_OFFLINE": "true"})
    if env:
        e.update(env)
    try:
        return subprocess.run(cmd, shell=True, capture_output=True, text=True, cwd=cwd, timeout=timeout, env=e)
    except subprocess.TimeoutExpired as ex:
        class R:  # noqa
            returncode = 124
            stdout = (ex.stdout or b"").decode(errors="replace") if isinstance(ex.stdout, bytes) else (ex.stdout or "")
            stderr = "TIMEOUT"
        return R()


def code_region(lines):
    """Indices of lines that are library code: before the first `#[cfg(test)]` + `mod`, not comments,
    attributes, `use`, hooks."""
    out = []
    depth_hook = 0
    for i, l in enumerate(lines):
        s = l.strip()
        if s.startswith("#[cfg(test)]") and i + 1 < len(lines) and lines[i + 1].lstrip().startswith(("mod ", "pub mod ", "pub(crate) mod ")) and lines[i + 1].rstrip().endswith("{"):
            break
        if not s or s.startswith(("//", "#[", "#!", "use ", "pub use ", "extern ", "///", "//!")):
            continue
        if "verif" in s or "debug_assert" in s or "unreachable!" in s or "panic!(" in s:
            continue
        out.append(i)
    return out


def strip_strings_and_comments(l):
    """Return the part of the line that is code (cut at // and blank out string literals, same length)."""
    res, in_s, i = [], False, 0
    while i < len(l):
        c = l[i]
        if not in_s and l.startswith("//", i):
            res.append(" " * (len(l) - i))
            break
        if c == '"' and (i == 0 or l[i - 1] != "\\"):
            in_s = not in_s
            res.append(" ")
        else:
            res.append(" " if in_s else c)
        i += 1
    return "".join(res)


def gen(per_file):
    os.makedirs(ROOT, exist_ok=True)
    allm = []
    for f in FILES:
        lines = open(os.path.join(REPO, f)).read().split("\n")
        cands = []
        for i in code_region(lines):
            code = strip_strings_and_comments(lines[i])
            for rx, rep, name in OPS:
                for m in re.finditer(rx, code):
                    new = lines[i][: m.start()] + rep + lines[i][m.end():]
                    if new != lines[i]:
                        cands.append({"file": f, "line": i + 1, "col": m.start(), "op": name, "old": lines[i], "new": new})
        # deterministic spread: order by a hash of (line, op), take the first per_file, at most 2 per line
        cands.sort(key=lambda c: hashlib.sha1(f"{c['file']}:{c['line']}:{c['col']}:{c['op']}".encode()).hexdigest())
        per_line, take = {}, []
        quota = max(8, per_file * len(lines) // 1200)
        for c in cands:
            if per_line.get(c["line"], 0) >= 1:
                continue
            per_line[c["line"]] = per_line.get(c["line"], 0) + 1
            take.append(c)
            if len(take) >= quota:
                break
        print(f"{f}: {len(cands)} candidates, {len(take)} taken")
        allm += take
    for k, m in enumerate(allm):
        m["id"] = f"M{k:04d}"
    with open(f"{ROOT}/mutants.jsonl", "w") as fh:
        for m in allm:
            fh.write(json.dumps(m) + "\n")
    print("total", len(allm))


def load(name):
    p = f"{ROOT}/{name}"
    return [json.loads(l) for l in open(p)] if os.path.exists(p) else []


def apply(m, wt):
    p = os.path.join(wt, m["file"])
    lines = open(p).read().split("\n")
    assert lines[m["line"] - 1] == m["old"], (m["id"], "source drifted")
    lines[m["line"] - 1] = m["new"]
    open(p, "w").write("\n".join(lines))


def worker_tree(k):
    wt = f"{ROOT}/w{k}/repo"
    if not os.path.isdir(wt):
        os.makedirs(f"{ROOT}/w{k}", exist_ok=True)
        r = sh(f"git -C {REPO} worktree add --detach {wt} HEAD")
        assert r.returncode == 0, r.stderr
    sh("git checkout -- . && git clean -fdq", cwd=wt)
    return wt


def phase_test(workers):
    muts = load("mutants.jsonl")
    done = {r["id"] for r in load("test_results.jsonl")}
    todo = [m for m in muts if m["id"] not in done]
    out = open(f"{ROOT}/test_results.jsonl", "a")
    import queue, threading
    q = queue.Queue()
    for m in todo:
        q.put(m)
    lock = threading.Lock()

    def run(k):
        wt = worker_tree(k)
        env = {"CARGO_TARGET_DIR": f"{ROOT}/w{k}/target"}
        while True:
            try:
                m = q.get_nowait()
            except queue.Empty:
                return
            t0 = time.time()
            sh("git checkout -- .", cwd=wt)
            apply(m, wt)
            r = sh("cargo nextest run --workspace --no-fail-fast --offline --test-threads 4 2>&1 | tail -400", cwd=wt, env=env, timeout=1500)
            txt = r.stdout
            if "error: could not compile" in txt or "error[E" in txt:
                res = "nocompile"
            elif re.search(r"\b181 passed", txt) and not re.search(r"\b[1-9]\d* failed", txt):
                res = "suite-pass"
            elif "TIMEOUT" in getattr(r, "stderr", "") or r.returncode == 124:
                res = "suite-timeout"
            elif re.search(r"\bfailed\b|FAIL", txt):
                res = "suite-fail"
            else:
                res = "unknown"
            sh("git checkout -- .", cwd=wt)
            with lock:
                out.write(json.dumps({"id": m["id"], "result": res, "s": round(time.time() - t0, 1), "tail": txt[-300:] if res == "unknown" else ""}) + "\n")
                out.flush()
                print(m["id"], m["file"], m["line"], m["op"], res, round(time.time() - t0), flush=True)

    ts = [threading.Thread(target=run, args=(k,)) for k in range(workers)]
    [t.start() for t in ts]
    [t.join() for t in ts]


def harness_copy(k):
    """A private copy of the harness whose prio dependency points at worker k's tree."""
    hd = f"{ROOT}/w{k}/harness"
    if os.path.isdir(hd):
        shutil.rmtree(hd)
    shutil.copytree("/verif/harness", hd, ignore=shutil.ignore_patterns("target"))
    ct = open(f"{hd}/Cargo.toml").read()
    ct = ct.replace('path = "/repo"', f'path = "{ROOT}/w{k}/repo"').replace('path = "../vendor/', 'path = "/verif/vendor/')
    open(f"{hd}/Cargo.toml", "w").write(ct)
    os.makedirs(f"{hd}/.cargo", exist_ok=True)
    open(f"{hd}/.cargo/config.toml", "w").write(f'[net]\noffline = true\n[build]\ntarget-dir = "{ROOT}/w{k}/htarget"\n')
    return hd


def phase_check(workers):
    muts = {m["id"]: m for m in load("mutants.jsonl")}
    surv = [r["id"] for r in load("test_results.jsonl") if r["result"] == "suite-pass"]
    done = {r["id"] for r in load("check_results.jsonl")}
    todo = [muts[i] for i in surv if i not in done]
    out = open(f"{ROOT}/check_results.jsonl", "a")
    import queue, threading
    q = queue.Queue()
    for m in todo:
        q.put(m)
    lock = threading.Lock()

    def run(k):
        wt = worker_tree(k)
        hd = harness_copy(k)
        evd = f"{ROOT}/w{k}/ev"
        os.makedirs(evd, exist_ok=True)
        while True:
            try:
                m = q.get_nowait()
            except queue.Empty:
                return
            t0 = time.time()
            sh("git checkout -- .", cwd=wt)
            apply(m, wt)
            res, killed_by, msg = {}, None, ""
            for c in FILES[m["file"]]:
                b = c.lower()
                r = sh(f"cargo build --profile quick --offline --bin {b} 2>&1 | tail -5", cwd=hd, timeout=1800)
                if "Finished" not in r.stdout:
                    res[c] = "build-failed"
                    continue
                rr = sh(f"{ROOT}/w{k}/htarget/quick/{b} quick", cwd="/verif", env={"VERIF_EVIDENCE_DIR": evd, "VERIF_REPLAY_DIR": evd}, timeout=1800)
                viol = [l for l in rr.stdout.splitlines() if l.startswith("VIOLATION")]
                res[c] = rr.returncode
                if rr.returncode == 1 and viol:
                    killed_by = c
                    what = [l.strip() for l in rr.stdout.splitlines() if l.strip().startswith("what:")]
                    msg = what[0][:200] if what else ""
                    break
            sh("git checkout -- .", cwd=wt)
            with lock:
                out.write(json.dumps({"id": m["id"], "killed_by": killed_by, "checks": res, "msg": msg, "s": round(time.time() - t0, 1)}) + "\n")
                out.flush()
                print(m["id"], m["file"], m["line"], m["op"], "KILLED by " + killed_by if killed_by else "SURVIVED " + json.dumps(res), round(time.time() - t0), flush=True)

    ts = [threading.Thread(target=run, args=(k,)) for k in range(workers)]
    [t.start() for t in ts]
    [t.join() for t in ts]


def report():
    muts = {m["id"]: m for m in load("mutants.jsonl")}
    tr = {r["id"]: r for r in load("test_results.jsonl")}
    cr = {r["id"]: r for r in load("check_results.jsonl")}
    notes = {}
    np = "/verif/seeded/sweep_notes.json"
    if os.path.exists(np):
        notes = json.load(open(np))
    by = {}
    for r in tr.values():
        by[r["result"]] = by.get(r["result"], 0) + 1
    killed = [i for i, r in cr.items() if r["killed_by"]]
    surv = [i for i, r in cr.items() if not r["killed_by"]]
    with open("/verif/seeded/SWEEP.md", "w") as f:
        f.write("# Mechanical mutation sweep (tools/mutation_sweep.py)\n\n")
        f.write(f"Single-token changes of library code (outside test modules), one per line, spread over {len(FILES)} files: {len(muts)} generated, {len(tr)} run against the pinned suite: " + ", ".join(f"{k}: {v}" for k, v in sorted(by.items())) + ".\n\n")
        f.write(f"Of the {len(cr)} changes the pinned suite accepts (all 181 tests pass), the quick checks report {len(killed)}; {len(surv)} are not reported — each is classified below (equivalent = no observable behaviour changes; outside = behaviour no listed property speaks about).\n\n")
        f.write("## Not reported\n\n| id | where | change | checks run | classification |\n|---|---|---|---|---|\n")
        for i in sorted(surv):
            m = muts[i]
            f.write(f"| {i} | {m['file']}:{m['line']} | `{m['op']}`: `{m['new'].strip()[:110]}` | {', '.join(cr[i]['checks'])} | {notes.get(i, '')} |\n")
        f.write("\n## Reported\n\n| id | where | change | reported by | first message |\n|---|---|---|---|---|\n")
        for i in sorted(killed):
            m = muts[i]
            f.write(f"| {i} | {m['file']}:{m['line']} | `{m['op']}`: `{m['new'].strip()[:90]}` | {cr[i]['killed_by']} | {cr[i]['msg'][:140].replace('|', '/')} |\n")
    print("wrote /verif/seeded/SWEEP.md", by, "killed", len(killed), "survived", len(surv))


def clean():
    for d in os.listdir(ROOT) if os.path.isdir(ROOT) else []:
        wt = f"{ROOT}/{d}/repo"
        if os.path.isdir(wt):
            sh(f"git -C {REPO} worktree remove --force {wt}")
    shutil.rmtree(ROOT, ignore_errors=True)
    sh(f"git -C {REPO} worktree prune")


if __name__ == "__main__":
    a = sys.argv[1:]
    cmd = a[0] if a else "help"
    def opt(name, d):
        return int(a[a.index(name) + 1]) if name in a else d
    if cmd == "gen":
        gen(opt("--per-file", 40))
    elif cmd == "test":
        phase_test(opt("--workers", 4))
    elif cmd == "check":
        phase_check(opt("--workers", 3))
    elif cmd == "report":
        report()
    elif cmd == "clean":
        clean()
    else:
        print(__doc__)
