#!/usr/bin/env python3
"""Writes /verif/MANIFEST.json from the table below (single source of truth)."""
import json, subprocess, os

CHECKS = {
 "C09": dict(level="exploration", engine="sweep",
   technique="bounded-exhaustive enumeration of operand pairs on the real generic arithmetic at scaled-down word sizes + limb-boundary lattice for deployed primes, vs integer reference model",
   text="Every operand pair / raw word / exponent of the same generic single-word and split-word Montgomery code instantiated at 8- and 16-bit words (every odd prime < 2^8; ten 16-bit primes incl. the scaled analogues of the deployed primes) is compared with plain integer arithmetic; the make_field! public API is checked on every element and every byte string of the small fields; the deployed 32/64/128/255-bit fields are checked on an all-pairs limb-boundary lattice against BigUint, with all constants re-derived from their definitions. Field255: TryFrom<&[u8]> must agree with decode on every candidate string (canonical, >= p, top bit set).",
   note="Deployed primes are not enumerable: the claim for them rests on 'same generic code, word size is a type parameter' + constants + lattice. Field255 (fiat-crypto backend) is lattice-only.",
   design="§2 C09"),
}

CHECKS["C01"] = dict(level="exploration", engine="sweep",
   technique="bounded-exhaustive enumeration of (instance, parameters, measurement, randomness tape) on the real Prio3 code through every wire encoding, vs plain-integer aggregate",
   text="All seven Prio3 types over a parameter lattice (every chunk length 1..len+2 for small shapes, bounds at 2^k-1/2^k/2^k+1 and p-2/p-1, aggregators up to 254, proofs up to 255) are sharded from a tape alphabet, verified by all aggregators with every message re-decoded from its wire encoding, aggregated in singleton/pair/full/tripled batches and compared with the plain aggregate reduced mod p; a second pass instantiates the same generic Prio3 code over GF(97)/GF(193)/GF(12289) where rejection sampling and refused query randomness are frequent and the only permitted failure is the specified refusal, predicted by an independent derivation.",
   note="Sharding randomness, nonce, verify key and ctx are a fixed alphabet of tapes (32-byte seeds are not enumerable); TurboSHAKE128 is trusted.",
   design="§2 C01")
CHECKS["C05"] = dict(level="exploration", engine="sweep",
   technique="exhaustive enumeration of inputs x joint/query randomness over GF(17)/GF(97) on the real generic FLP code, exact acceptance counting vs the soundness bound, all adversarial proofs for Count/GF(17)",
   text="For every shipped circuit (and a harness-defined degree-3 circuit) instantiated over GF(17)/GF(97)/GF(193): every input vector x every joint randomness x every gadget query point (compression/prove randomness: all or alphabet, recorded per instance) goes through the real prove/query/decide; valid inputs must always be accepted, refusal must coincide exactly with r^P=1, invalid inputs are decided by exact acceptance counts against the specification's soundness bound; every proof in F^5 is tried as an adversarial prover for Count/GF(17) (<= d(P-1) accepting points); verifier linearity over share counts 1..254 and share menus; every wrong argument length in [0,declared+2] must be an Err; deployed fields: randomness lattice, all P-th roots, seeded randomness lines (pigeonhole). Share counts up to 512; L1BoundSum/Multihot/SumVec shapes whose last chunk holds one element; bounds of full field width (63/64 digits over Field64, 127/128 over Field128).",
   note="Adversarial proofs are exhaustive only for Count/GF(17); deployed-field soundness uses seeded lines (a line lies in the zero set with probability ~2^-60).",
   design="§2 C05")

CHECKS["C02"] = dict(level="fault_enumeration", engine="sweep",
   technique="fault enumeration on the real Prio3 code: exhaustive invalid inputs x randomness over GF(17) with exact acceptance counting, invalid-encoding menu through an honest-proof Raw client, byte-level tamper enumeration of every message, verifier-share list manipulations",
   text="(a) every invalid input x every randomness over GF(17) with exact acceptance counts vs the soundness bound and every adversarial proof for Count/GF(17); (b) a menu of invalid encodings (non-bits at boundary positions, bit flips, affine-preserving near misses; all of F^n for tiny instances) is sharded with honestly computed proofs by Prio3<Raw<T>> for honest Prio3<T> aggregators over 2..5 aggregators, 1..3 proofs and a key/nonce tape alphabet, and the outcome is compared with the decision the specification prescribes for the randomness derived by an independent transcription of the draft; (c) every byte of the public share, each input share, each verifier share and the verifier message x an alteration alphabet (all 8 bit flips, +-1, 0, 0xff; every byte value over 1-byte fields), pairs of alterations, and dropped/duplicated/reordered/substituted/zeroed verifier shares: some aggregator must fail, and whenever all finish the outputs must sum to the truncation of a valid encoding. (c') every message lengthened by 1 byte / one element / one seed (zeros, 0xA5, a copy of its tail) or shortened: verification must not complete everywhere. (d) every named constructor (serial and multithreaded, pairwise distinct parameters) x out-of-range measurements: whatever is sharded, verified by all aggregators and aggregated must be a valid measurement for the requested parameters.",
   note="Deployed fields: a passing invalid encoding / single-byte alteration has probability ~2^-57 per case and is treated as a violation. The (b) predictor uses the library FLP on the whole input (decided independently by C05). Adversarial proofs are exhaustive for Count/GF(17) only.",
   design="§2 C02")

CHECKS["C17"] = dict(level="exploration", engine="sweep",
   technique="bounded-exhaustive enumeration of ordered measurement pairs x sharding tapes on the real sharding code, byte-wise comparison of shares",
   text="Every ordered pair of measurements (full domain when small, edge set otherwise) is sharded with identical randomness and nonce for all seven Prio3 types over 2..254 aggregators and 1..2 proofs (plus small-field instantiations where rejection sampling in share expansion is frequent) and for Poplar1 with all inputs of 1..6 bits, inputs of 8..256 bits with a one-bit departure at every position, and 1024/4099-bit inputs with departures at block boundaries: helpers' Prio3 input shares and their joint-randomness parts, the leader's blind, and both Poplar1 input shares must be byte-identical; the leader's measurement-share difference must equal the difference of the two encodings computed from a separately constructed Type. In a report assembled in one buffer (header, input share, public share appended with encode) the input-share bytes must be exactly the share's own encoding.",
   note="Sharding randomness and nonces are a fixed tape alphabet.",
   design="§2 C17")
CHECKS["C18"] = dict(level="fault_enumeration", engine="sweep",
   technique="fault enumeration over a per-aggregator mismatch matrix (ctx, nonce, key, algorithm id, identifier, handed share; all single and pairwise combinations) on the real verification code in wire and direct-object mode",
   text="Each aggregator carries its own beliefs (ctx, nonce, verify key, algorithm id, identifier, which share it holds); every single and pairwise departure from the honest configuration is run through the real verify_init / verifier_shares_to_message / verify_next for all Prio3 types with 2..4 aggregators (TurboSHAKE128 and, for four instances, the HMAC-SHA256+AES128 XOF; context departures of a different length and of the same length in the first or last byte; identifiers up to usize::MAX incl. ones aliasing a valid identifier mod 256) and Poplar1 inner and leaf levels (on-path/sibling pair, single on-path and single off-path candidate), both with shares decoded from the wire under the aggregator's own identifier and with objects handed over directly; the expected outcome is computed from the final configuration (mismatch => some aggregator must fail; consistent key or, without joint randomness, consistent nonce substitution => honest output shares unchanged).",
   note="An undetected mismatch by hash/proof collision (~2^-57 per case) would be reported as a violation; single-aggregator instances are excluded; tapes with coinciding seeds are excluded because they turn role swaps into no-ops.",
   design="§2 C18")

CHECKS["C03"] = dict(level="exploration", engine="sweep",
   technique="bounded-exhaustive enumeration of inputs x aggregation parameters x tapes on the real Poplar1 code through every wire encoding, enumeration of admissible parameter histories, heavy-hitters vs exact counting",
   text="Poplar1 with 1..5-bit inputs: every input, every level, every non-empty sorted prefix set (all 273 parameters for <=3 bits; sets of size <=2 plus the full set for 4..5 bits) is verified by both aggregators with every message re-decoded from its wire encoding and unsharded; batches (all multisets of size 2/3, the full set) are aggregated and compared with plain prefix counting; admissible parameter histories are enumerated with is_agg_param_valid; long inputs up to 65536 bits at levels 0,1,mid,bits-2,bits-1 and around 21845/21846; the iterative heavy-hitters procedure for 3-bit strings over all batches of <=3 strings and thresholds 1..3 equals exact counting. Every batch is also aggregated as two merged sub-batches (must equal the single pass), and every multi-candidate parameter is also presented as an equal in-memory value whose candidate prefixes are stored unaligned (identical output shares required).",
   note="Tapes (sharding randomness, nonce, key, ctx) are a fixed alphabet; bit lengths above 65536 are impossible by the u16 level field.",
   design="§2 C03")
CHECKS["C10"] = dict(level="exploration", engine="sweep",
   technique="exhaustive enumeration of all input vectors over GF(17) (sizes <=4) and of the full standard basis for every power-of-two size on the real NTT/Lagrange routines, vs direct evaluation / O(n^2) Lagrange interpolation on residues",
   text="Through feature-gated wrappers, ntt/ntt_set_s/ntt_inv/get_ntt are compared with direct Horner evaluation at the powers of the (independently validated) principal root for ALL input vectors of sizes 1,2,4 over GF(17) (linearity established exhaustively) and on the full standard basis with every output compared for every power-of-two size up to 2^10 (quick) / 2^14 (thorough) over all deployed and small fields, structured vectors up to 2^20; the Lagrange routines (batched evaluation at every node and off-node points, extension for every num_values in [0,n], doubling, multiplication on all basis pairs) against the direct interpolation formula; every size/capacity violation must be an Err.",
   note="Sizes above the basis bound use four structured vectors; which primitive root is returned is checked for exact order only (derivation from the generator is C09's).",
   design="§2 C10")
CHECKS["C19"] = dict(level="exploration", engine="sweep",
   technique="bounded-exhaustive enumeration of 0/1 vectors, non-binary positions and share/proof alterations on the real Prio2 code, decided by pigeonhole counting over more query points than the degree bound",
   text="All 0/1 vectors up to length 8/10 (edge vectors up to 2^19-1) are sharded with fixed seeds, verified through all wire encodings and aggregated against integer sums; non-binary inputs with honest proofs and every single-element alteration of the leader share, helper seed bytes and a forged-proof menu are evaluated at 4n+1 distinct non-root query points through verify_init_with_query_rand: acceptance at more than 2n-1 points is a violation (deterministic despite the 32-bit field); verifier-share tampering over 8 keys; codecs; the query-point rejection loop against scripted streams containing every 2n-th root of unity. Every value is also decoded from a cursor at offset 4/7/32 of a larger record with trailing data (same value, cursor right behind it).",
   note="The HMAC/AES derivation of the query point is not re-derived (binding is C18's); at length 2^19-1 only systematic acceptance is flagged.",
   design="§2 C19")
CHECKS["C20"] = dict(level="model_checking", engine="bfs",
   technique="explicit-state enumeration of aggregation-parameter histories with the real is_agg_param_valid as transition guard, vs the specification predicate over Vec<bool>; exhaustive constructor/decoder grammars",
   text="State = full history of parameters used with a report (all 273 parameters for <=3 bits, every history of length <=2, thorough <=3; 4 bits with sets of size <=2); every candidate is offered to the real is_agg_param_valid and compared with the specification predicate; try_from_prefixes on every list of <=3 prefixes of length 0..3 and at the 65536/65537-bit limit, each list also with unaligned bit storage (same verdict, equal value, identical encoding and admissibility answers); the decoder on every string of a bounded grammar (levels 0..16, count <=4, 6-value byte alphabet, lying count fields, +-1 byte) against a reference parser, accepted strings must re-encode identically; Prio3/Prio2 single-use rule.",
   note="The transition relation is the library function itself (no separate model); histories need not be admissible themselves.",
   design="§2 C20")

CHECKS["C11"] = dict(level="model_checking", engine="bfs",
   technique="explicit-state enumeration of read histories (state = bytes consumed, action = fill_bytes(n)/next_u32/next_u64) of the real seed streams against a single-read reference; exhaustive dst/binder splittings; scripted byte streams with rejections at every buffer position through the real samplers vs a BigUint transcription of the spec procedure",
   text="For every XOF (TurboShake128, fixed-key AES in both constructions, HMAC-SHA256-AES128, AES128-CTR) every sequence of 3 reads over a set of read sizes is run on a fresh instance and compared with the corresponding slice of one unsplit read (states/transitions of the read-history graph reported); every split of dst into <=3 parts and of the binder into <=3 updates gives the same stream, into_seed equals the stream prefix; scripted byte streams place rejected and boundary chunks at every position 0..70, all pairs near the refill boundary, runs across the refill boundary and whole-buffer rejections, for all deployed and small fields, through the buffered Prng (hook), into_field_vec, IdpfValue::generate and StandardUniform; over GF(17) all streams of length <=6 over a 6-byte alphabet; Prng::into_new_field continuity against one contiguous walk of the byte stream.",
   note="The XOF primitives themselves (TurboSHAKE, AES, HMAC) are trusted; the reference is relative (chunking independence), not absolute.",
   design="§2 C11")

CHECKS["C12"] = dict(level="model_checking", engine="stateright",
   technique="stateright explicit-state BFS over a leader/helper model whose every transition calls the real ping-pong routines on values reloaded from their wire encodings; fault-budgeted deliveries (replay, re-typed, corrupted, truncated, extended, empty)",
   text="States hold each party only as encodings (verifier state, continuation, output), so every step is a reload from persistent form and every stored continuation is decoded and evaluated three times (byte-identical results required). The environment delivers the pending message or, within a fault budget of 2 (thorough 3), any earlier message of either direction, the pending payload under each other variant tag, every single-byte flip, truncation, extension or the empty message, and the well-formed pending message with one opaque inner field lengthened, shortened, emptied or doubled. Invariants: fault-free runs exchange exactly Initialize, Continue x (R-1), Finish in alternating directions and finish with the direct-broadcast output shares; faulty messages are refused (instrumented VDAF: immediately; real VDAFs: before any output share is released); refusals change nothing. Subjects: an order- and round-sensitive instrumented VDAF with 1..6 rounds, Prio3 Count (both measurements), Sum, Histogram, SumVec and a 3-proof SumVec over Field64, Poplar1 at every level of 1..3-bit inputs and selected levels of 9/64/257-bit inputs, the crate's dummy VDAF with 1..5 rounds. The checker is run twice and state counts compared.",
   note="Two parties (the topology's definition). For the dummy VDAF, whose messages are empty, replays are indistinguishable and only kind/undecodable faults are judged. A corrupted-but-decodable payload slipping through a real VDAF has probability ~2^-57.",
   design="§2 C12")

CHECKS["C14"] = dict(level="model_checking", engine="choices",
   technique="exhaustive enumeration of work-stealing outcomes (all steal patterns) of rayon's bridge_producer_consumer through an oracle in a vendored rayon copy, on the real fold/map/reduce pipeline; byte comparison with the serial gadget/type",
   text="rayon cannot be rebuilt on loom/shuttle, so the only schedule-dependent decisions of the par_chunks().fold().map().reduce() pipeline -- the split budget (thread count) and whether each right child was stolen -- are answered by the explorer in a vendored copy of rayon 1.12.0 (3 hunks). For logical pool sizes {1,2,3,4,8,16}, chunk counts 1..12 (thorough 16) and gadget calls {1,2,3,7}, EVERY steal pattern is executed on a real 1-thread pool with the real consumers and join_context; the bare ParallelSumMultithreaded gadget (junk-prefilled output; inner gadget Mul and PolyEval of degree 1..3, whose arity differs from its degree) must equal ParallelSum, the library's multithreaded constructors must denote the same VDAF as their serial twins, and Prio3{SumVec,Histogram,MultihotCountVec}Multithreaded must produce byte-identical public share, input shares, verifier shares, verifier message and output shares as the serial types under the same tape. A free-running pass (4 job shapes x real pools of 2,3,4,8,16 threads x 150/3000 runs; sampling, labelled; it reports a shared-buffer atomicity violation of our own making in every run) and a syntactic scan for shared mutable state guard the assumption.",
   note="Assumes the outcome depends on the schedule only through which jobs were stolen (true while closures share no mutable state; scan reported in evidence). Memory-ordering effects inside rayon itself are out of scope.",
   design="§2 C14")

CHECKS["C06"] = dict(level="model_checking", engine="bfs",
   technique="exhaustive enumeration of inputs x prefixes x programmed values on the real IDPF; explicit-state enumeration of evaluation histories sharing a cache, with an adversarial cache whose hit/miss answers are enumerated by the choice-tape explorer",
   text="(1) For bit lengths 1..4 (thorough 5) every input, every prefix of every length, value types Poplar1IdpfValue<Field64>/<Field255>, Field64/Field255, Field255/Field64 and FieldV17 with EVERY programmed value (bits<=3), keys/ctx/nonce from tapes: the two shares add up to the programmed value on the path and to zero off it, with the public share passed through its codec; 64..4096-bit inputs along the path and all siblings. (2) Every sequence of evaluations (all prefixes, length <=4/3/2 for 2/3/4 bits; thorough one deeper) sharing HashMapCache, RingBufferCache(1..4) and an adversarial cache in which every get on a present key is a hit/miss choice (all patterns enumerated: subsumes any evicting or lossy cache) gives bit-identical results to the uncached evaluation, and every node state inserted or returned equals the from-root state; prefixes are also presented with unaligned bit storage. (3) Every history of 3 (thorough 4) sessions from {2 ctx} x {2 nonces} x {2 inputs} run on ONE long-lived Idpf object per party yields the same keys, public share and evaluations as fresh objects.",
   note="A cache that returns values it was never given is out of scope (the trait's contract). Keys/ctx/nonce are a tape alphabet.",
   design="§2 C06")

CHECKS["C04"] = dict(level="fault_enumeration", engine="sweep",
   technique="fault enumeration on the real Poplar1 verification: malicious-client strategies assembled from public parts (real IDPF gen with arbitrary programmed values + transcribed correlated randomness) and byte-level tamper enumeration of every message of both rounds",
   text="(a) Reports are built from public parts only: the real Idpf key generation programmed with data beta in {0,1,2,-1,3} and authenticator in {k*beta, k, 0, k+1} at one level, correlated randomness (A=-2a+k, B=a^2+b-ak+c) derived by a harness transcription honestly for the cheating value or perturbed at one level, input shares assembled through the wire format; every input x every aggregation parameter (bits<=3; on-path/sibling sets for 8 bits) x key tapes is verified by both aggregators. (b) For honest reports every byte of the public share (every value of the packed control bits), both input shares, both rounds of verifier shares and both verifier messages is altered over an alphabet. Oracle: whenever both aggregators finish, the output shares sum to the zero vector or a one-hot vector with value one; strategies the sketch cannot admit are rejected whenever the on-path candidate is queried; the harness's own honest and all-zero crafted reports must verify (conformance of the transcription). (c) Every cheating report is also combined with structural alterations of the sketch messages (emptied, shortened, zero-filled; one or both aggregators) and (e) with ill-shaped verifier shares handed to the combiner as objects (0..4 zeros, shortened, extended) in either round; (b') length alterations of every message; (f) for both shipped XOF instantiations (32-byte TurboSHAKE128 and Poplar1<XofFixedKeyAes128,16>) the value correction word of the queried level shifted by 1, 5, -1 after honest sharding with EVERY prefix of the level (16/32/64) as candidate.",
   note="Verification keys are a fixed alphabet (a cheat passing by chance: <= 2/2^64 per key at inner levels). Two simultaneous non-zero candidates are reachable only through tampering (the IDPF is a point function), which layer (b) enumerates at byte level.",
   design="§2 C04")

CHECKS["C07"] = dict(level="exploration", engine="sweep",
   technique="bounded-exhaustive enumeration of byte strings (all strings of length <=2, every single-byte substitution / truncation / extension of every honest encoding, every field slot at 0/p-1/p/p+1/all-ones) against a reference grammar of each wire format, for every (type, decoding parameter) pair",
   text="A catalogue of ~2,400 (decodable type, decoding parameter) pairs -- all Prio3 messages for seven types x 1..4 aggregators x 1..3 proofs, Poplar1 with 32- and 16-byte seeds for 1..9 bits at every level and round, Prio2, ping-pong messages and continuations over five VDAFs, seeds, all fields, IDPF public shares, the vector helpers -- with honest values produced in-process; the library must accept a string exactly when a harness-side reference grammar does, every accepted string must re-encode to itself, encoded_len() must equal the produced length and decode(encode(v)) == v. Also: encode() into a buffer that already holds 21 bytes must leave them alone and append exactly get_encoded() (every catalogue value); every opaque field inside every ping-pong message of a Poplar1 and a Prio3 exchange lengthened / shortened / doubled must be refused by the routine that decodes it; aggregation-parameter strings with stray padding bits in a non-final prefix.",
   note="FLP lengths sizing Prio3 records come from the Type trait (C05's subject); for long strings the mutated positions are a strided subset; FieldPrio2 is not exhaustive over its 2^32 strings.",
   design="§2 C07")
CHECKS["C08"] = dict(level="fault_enumeration", engine="sweep",
   technique="fault enumeration of byte strings (C07's sets plus header fields at extremes x bodies 0..40 bytes) against every decoder in worker subprocesses with a counting allocator (per-call budget) and a watchdog",
   text="Every decoder x every admissible decoding parameter is run on C07's string sets plus crafted headers (aggregation-parameter level/count at extremes, length prefixes at 0/len/len+-1/max, output_share_len up to 2^32-1, tags 0..255) in worker subprocesses: a call must return Ok or Err -- no panic (overflow checks on), no hang (2 s), and no allocation beyond 256*len + instance-implied size + 64 KiB (counting global allocator aborts the worker, the parent attributes the death to the case). Decoding parameters with enormous declared sizes (histogram chunk 2^27 / 2^61, 2^31 buckets, SumVec of 2^40 elements, Prio2 at maximum length) on short strings: no panic, no instance-proportional allocation (found and fixed: 5fd7253).",
   note="Decoding parameters are admissible instances (Poplar1 bits 1..64 and 65536; bits=0 is run separately). Instances with absurd bit lengths (>= 2^59) are not run (instance-proportional allocation).",
   design="§2 C08")
CHECKS["C13"] = dict(level="model_checking", engine="bfs",
   technique="explicit-state BFS over the aggregation state space (multiset of partial aggregates tagged with the subset they cover) with the real aggregate_init/accumulate/merge/aggregate/unshard as transition function, vs subset sums on residues",
   text="For 42 instances (Prio3 Count/SumVec/Histogram over deployed and small fields, Prio2, Poplar1 inner and leaf incl. colliding level bytes and the longest inputs: 65536 bits at levels 65535/65534) and share tuples from extreme values (all residues over GF(17)/GF(97)), every order and tree shape of aggregate_init / From / accumulate / merge is explored; in every state each aggregate must equal the reference sum of its subset, merging the empty aggregate changes nothing, every ill-shaped operand (every wrong length, Inner/Leaf mix, both directions) must be refused leaving the accumulator byte-identical, one-shot aggregate over every permutation and unshard over terminal aggregates equal the single pass. Large batches (8..1024 shares, 4099 thorough) through the batch entry point equal the reference sum, the accumulate chain and merged sub-batches of 7/32/100; unshard refuses aggregate shares that agree with each other but not with the aggregation parameter.",
   note="k <= 5 shares with unrestricted tree shapes (6-7 with at most two live aggregates); deployed fields on extreme residues only; state deduplication assumes equal kind+encoding imply equal futures.",
   design="§2 C13")
CHECKS["C15"] = dict(level="model_checking", engine="choices",
   technique="weighted choice-tape exploration: exhaustive path enumeration of each sampler layer with exact rational / interval probability mass, lower layers intercepted and answered from their specified law (assume-guarantee), down to a residual of 2^-40 (quick) / 2^-64 (thorough)",
   text="Each private sampler layer (uniform big integer through the public Rng interface with scripted words; Bernoulli(n/d) for ALL n<=d<=64/128; Bernoulli(exp(-gamma)); geometric; discrete Laplace; discrete Gaussian) runs for real under a poisoned Rng while its calls to the layer below are intercepted, their arguments checked against Canonne-Kamath-Steinke, and their outcomes enumerated with exact masses (rational intervals for e^-x on a 2^-192 grid); rejection loops are cut at the renewal point (verified by replay) and the enumerated law must contain the closed-form law for every integer with mass above the residual. The public distributions reach the samplers with the exact rational; both strategies give scale = sensitivity/epsilon exactly; add_noise_to_agg_share draws once per coordinate with the documented sensitivity and adds noise mod p (floor) for noise in {0,+-1,+-(p-1),+-p,+-(p+1),+-2^200}. Noise is added by a clone of the instance and the noised share is unsharded (with a zero share of the other aggregator): the result must be (aggregate + noise) mod p per coordinate.",
   note="Biases below the residual above the Bernoulli/uniform layers are not visible; the renewal argument is verified to a finite nesting depth; end-to-end (only the uniform layer intercepted) is coarse and Laplace-only.",
   design="§2 C15")
CHECKS["C16"] = dict(level="fault_enumeration", engine="sweep",
   technique="exhaustive enumeration of an argument lattice (products of up to 3 parameters) for every Result-returning public operation, in worker subprocesses with allocation cap and CPU watchdog, against a harness-side domain predicate",
   text="Every constructor and Result-returning operation of Prio3, Prio2, Poplar1, the FLP types, dp and idpf is called on a lattice (0,1,2,3, 2^k-1/2^k/2^k+1, p-1/p/p+1, MAX-1, MAX; all 256x256 aggregator/proof counts; measurement, aggregator-id, share-role/length/blind and share-count menus incl. neutral count changes; cross-instance states, shares and messages; ctx lengths up to 2^20; Poplar1 bits 0..usize::MAX): the call must return (Err where the domain predicate says so, Ok where valid), never panic, abort, hang or allocate > 2 GiB; accepted constructors must have computable lengths and carry one honest report end to end; Flp::query with a gadget query point inside the wire-polynomial domain (1, -1, w, w^2, w^-1, w^(P/2+1)) must be refused for every type.",
   note="Known finding (open): context strings longer than 65527 bytes panic inside the XOF (see known_findings.json). Operations use OS randomness where the library offers no seam; only the outcome class is observed there.",
   design="§2 C16")

NOT_APPLICABLE = {}

def main():
    hooks_commits = subprocess.run(["git", "-C", "/repo", "log", "--format=%h %s", "--grep=^verif-hooks"],
                                   capture_output=True, text=True).stdout.strip().splitlines()
    checks = []
    for pid in sorted(CHECKS):
        c = CHECKS[pid]
        checks.append({
            "property_id": pid,
            "quick_cmd": f"./check {pid} quick",
            "thorough_cmd": f"./check {pid} thorough",
            "evidence_file": f"/verif/evidence/{pid}.json",
            "replay_cmd_template": f"./check {pid} --replay {{path}}",
            "engine": c["engine"],
            "level_claimed": {"category": c["level"], "text": c["text"], "design_ref": c["design"]},
            "level_note": c["note"],
            "technique": c["technique"],
        })
    allp = [json.loads(l)["id"] for l in open("/verif/properties.jsonl")]
    na = []
    for pid in allp:
        if pid not in CHECKS:
            na.append({"property_id": pid, "reason": NOT_APPLICABLE.get(pid, "check not built yet (work in progress; planned in DESIGN.md)")})
    m = {
        "version": 1,
        "setup_cmd": "cd /verif/harness && CARGO_NET_OFFLINE=true cargo build --profile quick --offline && CARGO_NET_OFFLINE=true cargo build --release --offline",
        "hooks": {
            "guard": "cargo feature `verif-hooks` of crate prio (off by default)",
            "enable": "harness/Cargo.toml depends on prio = { path = \"/repo\", features = [\"experimental\",\"test-util\",\"multithreaded\",\"verif-hooks\"] }; every ./check rebuilds from /repo's working tree",
            "baseline_off_cmd": "cd /repo && (cargo nextest run --workspace --no-fail-fast --offline --test-threads 8 || cargo test --workspace --no-fail-fast --offline)",
            "source_commits": [l.split()[0] for l in hooks_commits],
            "add_only": True,
        },
        "engines": [
            {"name": "sweep", "path": "harness/src/engine/par.rs", "serves_properties": [p for p in CHECKS if CHECKS[p]["engine"] == "sweep"], "kind_free_text": "sharded bounded-exhaustive product enumeration on the real code against a reference model"},
            {"name": "choices", "path": "harness/src/engine/choices.rs", "serves_properties": [p for p in CHECKS if CHECKS[p]["engine"] == "choices"], "kind_free_text": "stateless deviation-bounded choice-tape explorer with prefix replay"},
            {"name": "bfs", "path": "harness/src/engine/bfs.rs", "serves_properties": [p for p in CHECKS if CHECKS[p]["engine"] == "bfs"], "kind_free_text": "explicit-state BFS whose transition function calls the library"},
            {"name": "stateright", "path": "harness/src/bin/c12.rs", "serves_properties": [p for p in CHECKS if CHECKS[p]["engine"] == "stateright"], "kind_free_text": "stateright 0.31 explicit-state checker over a model whose actions call the real ping-pong routines"},
        ],
        "checks": checks,
        "not_applicable": na,
        "notes": "See DESIGN.md. Exit codes: 0 held, 1 VIOLATION, 2 machinery failure. known_findings.json lists genuine defects (open/fixed).",
    }
    json.dump(m, open("/verif/MANIFEST.json", "w"), indent=1)
    print("wrote MANIFEST.json with", len(checks), "checks;", len(na), "not claimed")

main()
