#!/bin/bash
# Run every registered check (tier $1, default quick) and print a one-line summary per check.
tier="${1:-quick}"
cd /verif
for id in $(python3 -c "import json; print(' '.join(c['property_id'] for c in json.load(open('MANIFEST.json'))['checks']))"); do
  start=$(date +%s.%N)
  out=$(./check "$id" "$tier" 2>&1); rc=$?
  end=$(date +%s.%N)
  v=$(echo "$out" | grep -c '^VIOLATION'); k=$(echo "$out" | grep -c '^KNOWN-FINDING')
  printf "%s rc=%d violations=%d known=%d wall=%.1fs\n" "$id" "$rc" "$v" "$k" "$(echo "$end - $start" | bc)"
done
