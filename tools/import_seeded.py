#!/usr/bin/env python3
"""Import breaker outputs /tmp/seed-<id>/out/m<i> into /verif/seeded/<PROP>-m<i>/ and confirm them in a
scratch worktree: the pinned suite passes with the change, the demo fails with it and passes without.
Usage: tools/import_seeded.py [--round <n>] <id> [...]   (e.g. c03; round 2 reads /tmp/seed2-<id>/out and
numbers the changes after the ones already stored for that property)"""
import json, os, shutil, subprocess, sys

def sh(cmd, cwd=None, timeout=3600):
    return subprocess.run(cmd, shell=True, capture_output=True, text=True, cwd=cwd, timeout=timeout)

WT = "/tmp/confirm/repo"
ENV = "CARGO_TARGET_DIR=/tmp/confirm/target CARGO_NET_OFFLINE=true"
if not os.path.isdir(WT):
    os.makedirs("/tmp/confirm", exist_ok=True)
    r = sh(f"git -C /repo worktree add --detach {WT} HEAD")
    assert r.returncode == 0, r.stderr
else:
    sh("git checkout -q --detach $(git -C /repo rev-parse HEAD) && git checkout -- . && git clean -fdq", cwd=WT)

argv = sys.argv[1:]
rnd = ""
if argv and argv[0] == "--round":
    rnd = argv[1] if argv[1] != "1" else ""
    argv = argv[2:]
for sid in argv:
    base = f"/tmp/seed{rnd}-{sid}/out"
    for m in sorted(os.listdir(base)):
        src = os.path.join(base, m)
        if not (os.path.isdir(src) and os.path.exists(os.path.join(src, "patch.diff")) and os.path.exists(os.path.join(src, "demo.rs"))):
            continue
        try:
            meta = json.load(open(os.path.join(src, "meta.json")))
        except Exception as e:
            meta = {"summary": f"(meta.json unreadable: {e})"}
        prop = sid.upper()
        meta["property"] = prop
        name = f"{prop}-{m}"
        if rnd:
            have = [int(x.split("-m")[1]) for x in os.listdir("/verif/seeded") if x.startswith(prop + "-m")]
            name = f"{prop}-m{max(have + [0]) + 1}"
            meta["round"] = int(rnd)
        dst = f"/verif/seeded/{name}"
        feats = "experimental,test-util,multithreaded"
        if "verif-hooks" in json.dumps(meta) or "verif_hooks" in open(os.path.join(src, "demo.rs")).read():
            feats += ",verif-hooks"
        log = {}
        # 1. demo on the clean tree must pass
        sh("git checkout -- . && git clean -fdq", cwd=WT)
        shutil.copy(os.path.join(src, "demo.rs"), os.path.join(WT, "tests", "seed_demo.rs"))
        r = sh(f"{ENV} cargo test --offline --features {feats} --test seed_demo 2>&1 | tail -15", cwd=WT)
        log["demo_clean"] = "test result: ok" in r.stdout
        # 2. apply, suite must pass, demo must fail
        r = sh(f"git apply --whitespace=nowarn {src}/patch.diff", cwd=WT)
        log["applies"] = r.returncode == 0
        if log["applies"]:
            r = sh(f"{ENV} cargo test --offline --features {feats} --test seed_demo 2>&1 | tail -25", cwd=WT)
            log["demo_fails_with_change"] = ("test result: FAILED" in r.stdout) or ("panicked" in r.stdout and "test result: ok" not in r.stdout)
            log["demo_tail"] = r.stdout[-600:]
            os.remove(os.path.join(WT, "tests", "seed_demo.rs"))
            r = sh(f"{ENV} cargo nextest run --workspace --no-fail-fast --offline --test-threads 8 2>&1 | tail -3", cwd=WT)
            log["suite_tail"] = r.stdout.strip()[-200:]
            log["suite_passes_with_change"] = "181 passed" in r.stdout and "failed" not in r.stdout.split("Summary")[-1]
        sh("git checkout -- . && git clean -fdq", cwd=WT)
        ok = log.get("demo_clean") and log.get("applies") and log.get("demo_fails_with_change") and log.get("suite_passes_with_change")
        print(name, "CONFIRMED" if ok else "REJECTED", {k: v for k, v in log.items() if k not in ("demo_tail", "suite_tail")}, flush=True)
        if ok:
            os.makedirs(dst, exist_ok=True)
            shutil.copy(os.path.join(src, "patch.diff"), dst)
            shutil.copy(os.path.join(src, "demo.rs"), dst)
            meta["confirmed_here"] = {"features": feats, "demo_on_clean_tree": "passes", "demo_with_change": "fails", "pinned_suite_with_change": "181 passed",
                                      "commands": [f"cargo test --offline --features {feats} --test seed_demo", "cargo nextest run --workspace --no-fail-fast --offline --test-threads 8"]}
            json.dump(meta, open(os.path.join(dst, "meta.json"), "w"), indent=1)
        else:
            os.makedirs("/tmp/confirm/rejected", exist_ok=True)
            json.dump(log, open(f"/tmp/confirm/rejected/{name}.json", "w"), indent=1)
