import json,sys,os,subprocess
rnd=sys.argv[1]; ids=sys.argv[2:]
props={json.loads(l)['id']:json.loads(l) for l in open('/verif/properties.jsonl')}
for pid in ids:
    sid=pid.lower()
    base=f"/tmp/seed{rnd}-{sid}"
    os.makedirs(base+"/out",exist_ok=True)
    if not os.path.isdir(base+"/repo"):
        r=subprocess.run(f"git -C /repo worktree add --detach {base}/repo HEAD",shell=True,capture_output=True,text=True)
        assert r.returncode==0,r.stderr
    p=props[pid]
    text=f"""You are testing how robust a Rust library's guarantees are against subtle regressions. The library is divviup/libprio-rs (crate `prio`); you have your OWN scratch git worktree of it at {base}/repo (detached HEAD). Work ONLY inside {base}/ (never touch /repo itself, never look at or touch /verif, do not commit anything, do not use the network — it is not available; always pass --offline to cargo and set CARGO_TARGET_DIR={base}/target).

Here is a semantic property of the library that should hold for every input/configuration/history:

ID: {pid}
TITLE: {p['title']}
STATEMENT: {p['statement']}
QUANTIFIER: {p['quantifier']['text']}
WHY THE EXISTING TESTS CANNOT SETTLE IT: {p['why_tests_cant']}
ANCHORED IN: {', '.join(p['anchors']['files'])}

YOUR JOB: produce THREE different, independent, realistic changes to the library source (each a small patch that a plausible refactor / optimisation / copy-paste slip could introduce) such that each change
  (1) compiles (with features `experimental,test-util,multithreaded`; the cargo feature `verif-hooks` exists too and its code must keep compiling: check `cargo check --offline --features experimental,test-util,multithreaded,verif-hooks`);
  (2) keeps the repository's existing test suite passing unchanged: `cd {base}/repo && CARGO_TARGET_DIR={base}/target cargo nextest run --workspace --no-fail-fast --offline --test-threads 8` must report 181 passed (do not edit or delete tests);
  (3) genuinely BREAKS the property above (violates its statement — not merely changes an unrelated behaviour, error message or performance);
  (4) needs something SPECIFIC to manifest — a particular multi-step sequence of operations, an unusual but admissible input or parameter (boundary size, deep level, non-default instance, rarely used entry point, many aggregators/proofs, clone-then-use, state restored from its encoding, ...), or two cooperating edits that each look harmless alone — NOT something ordinary use would expose at once. This time, AVOID the obvious places: do NOT put the change in the main function the property names. Make each change in supporting code the property depends on INDIRECTLY (shared helpers, codecs of intermediate states, Clone/PartialEq/Default impls, constructors and parameter derivation, length/offset arithmetic, iterator adaptors, domain-separation and binder plumbing, rarely used instantiations such as multi-proof, many aggregators, the HMAC XOF, Field64 variants, 16-byte seeds, multithreaded twins), or as TWO COOPERATING EDITS in different functions that are each harmless alone. At least one of the three must need a multi-step history (an object reused, cloned, or restored from its encoding between steps). Do not touch code under `#[cfg(test)]`, test vectors, or src/verif_hooks.rs / feature-gated verif code.

For each change i in 1..3 write into {base}/out/m<i>/ :
  - patch.diff : `git diff` of the change against the worktree HEAD (only library source files);
  - demo.rs    : a self-contained integration test file (it will be copied to tests/seed_demo.rs of a clean worktree and run with `cargo test --offline --features experimental,test-util,multithreaded --test seed_demo`) using only the crate's public API (with those features) that PASSES on the unmodified tree and FAILS (assertion/panic) with the change applied, demonstrating the property violation;
  - meta.json  : {{"summary": what was changed and how it breaks the property, "needs": exactly what is required for it to manifest, "why_tests_pass": why the existing suite does not notice, "demo_result_unmodified": ..., "demo_result_with_change": ..., "suite_result_with_change": "181 passed"}}.
You MUST actually run everything: demo on the clean tree (passes), apply patch, demo (fails), full suite with patch (181 passed), then revert (`git checkout -- .`) before the next change. If a candidate change makes any existing test fail, discard it and find another. When done, leave the worktree clean (git checkout -- . ; remove your test files) — do NOT remove the worktree directory itself, but delete {base}/target to free disk. Final answer: a short list of the three changes (one paragraph each) and confirmation of the runs."""
    open(base+"/PROMPT.md","w").write(text)
    print(base)
