//! Catalogue of every (decodable type, decoding parameter) pair of `prio`, shared by C07 and C08
//! (included with `#[path = "../codec_catalogue.rs"] mod catalogue;`, not part of the lib).
//!
//! An [`Entry`] is a type-erased decoder (`get_decoded_with_param` with one fixed decoding
//! parameter) together with
//!  * a *reference grammar* of the wire format written here from the specification (record of
//!    opaque bytes / little-endian field elements below the modulus / tag bytes / big-endian length
//!    prefixes / packed bits with zero padding); it decides, independently of the library, which
//!    byte strings are encodings at all, and gives the layout (where the tags, lengths, padding and
//!    field slots are) that drives the mutation alphabets;
//!  * honest encodings produced in-process by the library (sharding + verification through
//!    `vdafkit::verify_report`, the ping-pong routines, `Idpf::gen`), under a fixed list of
//!    randomness tapes;
//!  * crafted strings (header fields at extreme values x bodies of length 0..=40);
//!  * the allocation the decoding parameter legitimately implies (for C08's budget).
//!
//! [`Entry::cases`] enumerates the byte strings of an entry in a fixed order (deterministic in
//! (limits, seed)), so that a case is identified by (entry index, case index).
#![allow(dead_code, clippy::type_complexity, clippy::too_many_arguments)]

use num_bigint::BigUint;
use prio::codec::{
    decode_fixlen_items, decode_u16_items, decode_u32_items, decode_u8_items, encode_fixlen_items, encode_u16_items,
    encode_u32_items, encode_u8_items, CodecError, Decode, Encode, ParameterizedDecode,
};
use prio::field::verif::*;
use prio::field::{Field128, Field255, Field64, FieldElement, FieldElementWithInteger, FieldPrio2};
use prio::flp::Type;
use prio::idpf::{Idpf, IdpfInput, IdpfPublicShare, IdpfValue};
use prio::topology::ping_pong::{Continued, PingPongContinuation, PingPongMessage, PingPongState, PingPongTopology};
use prio::vdaf::poplar1::{
    Poplar1, Poplar1AggregationParam, Poplar1FieldVec, Poplar1IdpfValue, Poplar1InputShare, Poplar1PublicShare,
    Poplar1VerifierMessage, Poplar1VerifierState,
};
use prio::vdaf::prio2::{Prio2, Prio2VerifierShare, Prio2VerifierState};
use prio::vdaf::prio3::{Prio3, Prio3InputShare, Prio3PublicShare, Prio3VerifierMessage, Prio3VerifierShare, Prio3VerifyState};
use prio::vdaf::test_utils::TestVectorClient;
use prio::vdaf::xof::{Seed, Xof, XofFixedKeyAes128, XofTurboShake128};
use prio::vdaf::{dummy, AggregateShare, Aggregator, Client, OutputShare, Share};
use pvh::engine::tape::{tape_alphabet, Tape};
use pvh::engine::{catch, hex};
use pvh::kit::ints::{IntConv, KitField};
use pvh::kit::p3cases::*;
use pvh::kit::vdafkit::{verify_report, Failure, Stage, Transcript, VerifyOpts};
use serde_json::{json, Value};
use std::io::Cursor;
use std::sync::{Arc, OnceLock};

// ------------------------------------------------------------------------------------------------
// allocation / time window hooks (installed by C08's worker; absent in C07)

pub struct Window {
    pub begin: fn(usize),
    pub end: fn(),
}
static WINDOW: OnceLock<Window> = OnceLock::new();
pub fn set_window(w: Window) {
    let _ = WINDOW.set(w);
}

// ------------------------------------------------------------------------------------------------
// reference grammar

#[derive(Debug)]
pub struct FieldDesc {
    pub name: String,
    pub size: usize,
    /// modulus, little-endian, `size` bytes
    pub p_le: Vec<u8>,
}

impl FieldDesc {
    fn new(name: &str, size: usize, p: BigUint) -> Arc<FieldDesc> {
        let mut p_le = p.to_bytes_le();
        assert!(p_le.len() <= size, "harness: modulus does not fit the encoding");
        p_le.resize(size, 0);
        Arc::new(FieldDesc { name: name.to_string(), size, p_le })
    }
    pub fn p(&self) -> BigUint {
        BigUint::from_bytes_le(&self.p_le)
    }
    /// little-endian `size`-byte encoding of `v`, if it fits
    pub fn le(&self, v: &BigUint) -> Option<Vec<u8>> {
        let mut b = v.to_bytes_le();
        if b.len() > self.size {
            return None;
        }
        b.resize(self.size, 0);
        Some(b)
    }
    /// is the little-endian integer `b` below the modulus?
    pub fn below_p(&self, b: &[u8]) -> bool {
        for i in (0..self.size).rev() {
            if b[i] != self.p_le[i] {
                return b[i] < self.p_le[i];
            }
        }
        false
    }
}

/// Field descriptor with the modulus written as a literal (the reference), checked against the
/// library constant (a mismatch is a harness error).
fn fd_lit<F: KitField>(name: &str, p: u128) -> Arc<FieldDesc>
where
    F::Integer: IntConv,
{
    assert_eq!(F::p(), p, "harness: modulus literal of {name} does not match the library");
    FieldDesc::new(name, F::ENCODED_SIZE, BigUint::from(p))
}
pub fn fd_prio2() -> Arc<FieldDesc> {
    fd_lit::<FieldPrio2>("FieldPrio2", 4293918721)
}
pub fn fd64() -> Arc<FieldDesc> {
    fd_lit::<Field64>("Field64", 18446744069414584321)
}
pub fn fd128() -> Arc<FieldDesc> {
    fd_lit::<Field128>("Field128", 340282366920938462946865773367900766209)
}
pub fn fd255() -> Arc<FieldDesc> {
    let p = (BigUint::from(1u8) << 255) - BigUint::from(19u8);
    assert_eq!(Field255::ENCODED_SIZE, 32);
    FieldDesc::new("Field255", 32, p)
}

#[derive(Clone, Debug)]
pub enum Seg {
    /// `n` arbitrary bytes
    Opaque(usize),
    /// `count` little-endian field elements, each below the modulus
    Field(Arc<FieldDesc>, usize),
    /// one byte out of the listed values
    Tag(Vec<u8>),
    /// `bytes` bytes of bits packed least-significant-bit first, only the first `used` bits may be set
    PackedLsb { bytes: usize, used: usize },
}

#[derive(Clone, Debug)]
pub enum SlotKind {
    Opaque,
    Field(Arc<FieldDesc>),
    Tag(Vec<u8>),
    Len,
    /// per-byte mask of bits that must be zero
    Pad(Vec<u8>),
}

#[derive(Clone, Debug)]
pub struct Slot {
    pub off: usize,
    pub len: usize,
    pub kind: SlotKind,
}

/// Reference parser state (cursor over the input, optional recording of the layout).
pub struct Rp<'a> {
    pub b: &'a [u8],
    pub pos: usize,
    pub rec: Option<Vec<Slot>>,
}

impl<'a> Rp<'a> {
    fn take(&mut self, n: usize) -> Option<&'a [u8]> {
        if self.b.len() - self.pos < n {
            return None;
        }
        let s = &self.b[self.pos..self.pos + n];
        self.pos += n;
        Some(s)
    }
    fn push(&mut self, off: usize, len: usize, kind: impl FnOnce() -> SlotKind) {
        if let Some(r) = self.rec.as_mut() {
            r.push(Slot { off, len, kind: kind() });
        }
    }
    pub fn remaining(&self) -> usize {
        self.b.len() - self.pos
    }
    pub fn opaque(&mut self, n: usize) -> Option<&'a [u8]> {
        let off = self.pos;
        let s = self.take(n)?;
        if n > 0 {
            self.push(off, n, || SlotKind::Opaque);
        }
        Some(s)
    }
    pub fn field(&mut self, fd: &Arc<FieldDesc>) -> Option<()> {
        let off = self.pos;
        let s = self.take(fd.size)?;
        if !fd.below_p(s) {
            return None;
        }
        self.push(off, fd.size, || SlotKind::Field(fd.clone()));
        Some(())
    }
    pub fn fields(&mut self, fd: &Arc<FieldDesc>, n: usize) -> Option<()> {
        for _ in 0..n {
            self.field(fd)?;
        }
        Some(())
    }
    pub fn tag(&mut self, valid: &[u8]) -> Option<u8> {
        let off = self.pos;
        let s = self.take(1)?;
        if !valid.contains(&s[0]) {
            return None;
        }
        self.push(off, 1, || SlotKind::Tag(valid.to_vec()));
        Some(s[0])
    }
    /// big-endian unsigned integer of `n` bytes
    pub fn len(&mut self, n: usize) -> Option<u64> {
        let off = self.pos;
        let s = self.take(n)?;
        self.push(off, n, || SlotKind::Len);
        Some(s.iter().fold(0u64, |a, b| (a << 8) | *b as u64))
    }
    /// `bytes` bytes whose bits outside `mask_ok` (per byte) must be zero
    pub fn padded(&mut self, must_be_zero: Vec<u8>) -> Option<&'a [u8]> {
        let off = self.pos;
        let s = self.take(must_be_zero.len())?;
        if s.iter().zip(&must_be_zero).any(|(b, m)| b & m != 0) {
            return None;
        }
        if !must_be_zero.is_empty() {
            self.push(off, must_be_zero.len(), || SlotKind::Pad(must_be_zero));
        }
        Some(s)
    }
    pub fn seg(&mut self, seg: &Seg) -> Option<()> {
        match seg {
            Seg::Opaque(n) => self.opaque(*n).map(|_| ()),
            Seg::Field(fd, n) => self.fields(fd, *n),
            Seg::Tag(v) => self.tag(v).map(|_| ()),
            Seg::PackedLsb { bytes, used } => {
                let mask: Vec<u8> = (0..*bytes)
                    .map(|j| {
                        let mut m = 0u8;
                        for i in 0..8 {
                            if 8 * j + i >= *used {
                                m |= 1 << i;
                            }
                        }
                        m
                    })
                    .collect();
                self.padded(mask).map(|_| ())
            }
        }
    }
}

pub enum Shape {
    /// fixed-length record
    Fixed(Vec<Seg>),
    /// any grammar, as a parser
    Custom(Box<dyn Fn(&mut Rp) -> Option<()> + Send + Sync>),
    /// no reference (inadmissible decoding parameter: only totality is examined)
    NoReference,
}

pub fn segs_len(segs: &[Seg]) -> usize {
    segs.iter()
        .map(|s| match s {
            Seg::Opaque(n) => *n,
            Seg::Field(fd, n) => fd.size * n,
            Seg::Tag(_) => 1,
            Seg::PackedLsb { bytes, .. } => *bytes,
        })
        .sum()
}

// ------------------------------------------------------------------------------------------------
// entries

#[derive(Debug)]
pub struct FullInfo {
    pub reenc: Result<Vec<u8>, String>,
    pub enc_len: Option<usize>,
    /// decode(encode(v)) == v under PartialEq (None: the type has no PartialEq)
    pub eq: Option<bool>,
}

#[derive(Debug)]
pub enum Outcome {
    Panic(String),
    Rejected(String),
    Accepted(Option<FullInfo>),
}

pub struct Entry {
    pub group: &'static str,
    pub ty: String,
    pub param: String,
    pub shape: Shape,
    /// library-produced encodings of honest values
    pub honest: Vec<Vec<u8>>,
    /// crafted strings: (kind label, bytes)
    pub extras: Vec<(String, Vec<u8>)>,
    /// bytes of allocation the decoding parameter legitimately implies
    pub implied: usize,
    /// decoder may not terminate (zero-sized items); C07 runs it under a supervisor
    pub hang_risk: bool,
    /// all strings up to this length are enumerated
    pub short_max: usize,
    dec: Box<dyn Fn(&[u8], bool) -> Outcome + Send + Sync>,
}

#[derive(Clone, Debug)]
pub struct Limits {
    pub thorough: bool,
    /// distinct honest encodings used as mutation bases per entry
    pub honest_max: usize,
    /// positions per base string that get substitutions (all if the string is shorter)
    pub sub_positions: usize,
    /// every one of the 255 alternatives at every position (else a sub-alphabet; tags, length
    /// fields and padding bytes always get all 255)
    pub full_alphabet: bool,
    pub trunc_max: usize,
    pub slot_max: usize,
}

impl Limits {
    pub fn quick() -> Limits {
        Limits { thorough: false, honest_max: 3, sub_positions: 192, full_alphabet: false, trunc_max: 768, slot_max: 24 }
    }
    pub fn thorough() -> Limits {
        Limits { thorough: true, honest_max: 8, sub_positions: 1024, full_alphabet: true, trunc_max: 8192, slot_max: 256 }
    }
}

/// `cap` indices out of `0..n`: all if n <= cap, else the first and last quarter and an even stride between.
pub fn pick_indices(n: usize, cap: usize) -> Vec<usize> {
    if n <= cap {
        return (0..n).collect();
    }
    let q = cap / 4;
    let mut v: Vec<usize> = (0..q).chain(n - q..n).collect();
    let mid = cap - 2 * q;
    for i in 0..mid {
        v.push(q + (i * (n - 2 * q)) / mid);
    }
    v.sort();
    v.dedup();
    v
}

impl Entry {
    pub fn key(&self) -> String {
        format!("{}/{}/{}", self.group, self.ty, self.param)
    }

    pub fn decode(&self, bytes: &[u8], full: bool) -> Outcome {
        (self.dec)(bytes, full)
    }

    pub fn budget(&self, len: usize) -> usize {
        256 * len + self.implied + 65536
    }

    /// Reference verdict: `Some(layout)` iff `bytes` is an encoding according to the grammar.
    pub fn reference(&self, bytes: &[u8], record: bool) -> Option<Vec<Slot>> {
        let mut rp = Rp { b: bytes, pos: 0, rec: if record { Some(vec![]) } else { None } };
        match &self.shape {
            Shape::Fixed(segs) => {
                for s in segs {
                    rp.seg(s)?;
                }
            }
            Shape::Custom(f) => f(&mut rp)?,
            Shape::NoReference => return None,
        }
        if rp.pos != bytes.len() {
            return None;
        }
        Some(rp.rec.unwrap_or_default())
    }

    pub fn has_reference(&self) -> bool {
        !matches!(self.shape, Shape::NoReference)
    }

    /// Mutation bases: extremes synthesised from a fixed grammar (all slots 0 / all slots maximal),
    /// then the distinct honest encodings (capped).
    pub fn bases(&self, lim: &Limits) -> Vec<(&'static str, Vec<u8>)> {
        let mut out: Vec<(&'static str, Vec<u8>)> = vec![];
        if let Shape::Fixed(segs) = &self.shape {
            let mut zero = vec![];
            let mut maxv = vec![];
            for s in segs {
                match s {
                    Seg::Opaque(n) => {
                        zero.extend(std::iter::repeat(0u8).take(*n));
                        maxv.extend(std::iter::repeat(0xffu8).take(*n));
                    }
                    Seg::Field(fd, n) => {
                        let pm1 = fd.le(&(fd.p() - 1u8)).unwrap();
                        for _ in 0..*n {
                            zero.extend(std::iter::repeat(0u8).take(fd.size));
                            maxv.extend_from_slice(&pm1);
                        }
                    }
                    Seg::Tag(v) => {
                        zero.push(v[0]);
                        maxv.push(*v.last().unwrap());
                    }
                    Seg::PackedLsb { bytes, used } => {
                        for j in 0..*bytes {
                            zero.push(0);
                            let mut m = 0u8;
                            for i in 0..8 {
                                if 8 * j + i < *used {
                                    m |= 1 << i;
                                }
                            }
                            maxv.push(m);
                        }
                    }
                }
            }
            out.push(("zeros", zero));
            if !out[0].1.is_empty() {
                out.push(("maxvals", maxv));
            }
        }
        let mut seen: Vec<&Vec<u8>> = vec![];
        for h in &self.honest {
            if seen.len() >= lim.honest_max {
                break;
            }
            if seen.contains(&h) || out.iter().any(|(_, b)| b == h) {
                continue;
            }
            seen.push(h);
            out.push(("honest", h.clone()));
        }
        out
    }

    /// Enumerate the byte strings of this entry: `f(case index, kind, bytes)` for every case with
    /// index >= `from`. The order is fixed: crafted strings, then per base string (the string itself,
    /// field-slot injections, padding bits, tag values, truncations, extensions, substitutions),
    /// then all short strings.
    pub fn cases(&self, lim: &Limits, from: u64, f: &mut dyn FnMut(u64, &str, &[u8])) {
        let mut k = 0u64;
        let mut emit = |kind: &str, b: &[u8]| {
            if k >= from {
                f(k, kind, b);
            }
            k += 1;
        };
        for (kind, b) in &self.extras {
            emit(kind, b);
        }
        let mut buf: Vec<u8> = vec![];
        for (bkind, base) in self.bases(lim) {
            emit(bkind, &base);
            let layout = self.reference(&base, true).unwrap_or_default();
            // hot positions: tags, length fields, padding bytes
            let mut hot = vec![false; base.len()];
            for s in &layout {
                match &s.kind {
                    SlotKind::Tag(_) | SlotKind::Len => {
                        for h in hot[s.off..s.off + s.len].iter_mut() {
                            *h = true;
                        }
                    }
                    SlotKind::Pad(mask) => {
                        // the bytes that actually carry padding bits
                        for (j, m) in mask.iter().enumerate() {
                            if *m != 0 {
                                hot[s.off + j] = true;
                            }
                        }
                    }
                    _ => {}
                }
            }
            // very long strings: the caps shrink with the length (a decode costs time linear in it)
            let scale = (base.len() / 16384).clamp(1, 16);
            let (sub_positions, trunc_max, slot_max) = (lim.sub_positions / scale, lim.trunc_max / scale, (lim.slot_max / scale).max(4));
            // field slots: 0, p-1 (canonical), p, p+1, all-ones (not below the modulus)
            let fslots: Vec<&Slot> = layout.iter().filter(|s| matches!(s.kind, SlotKind::Field(_))).collect();
            for ix in pick_indices(fslots.len(), slot_max) {
                let s = fslots[ix];
                if let SlotKind::Field(fd) = &s.kind {
                    let p = fd.p();
                    let vals: [(&str, Option<Vec<u8>>); 6] = [
                        ("field=0", fd.le(&BigUint::from(0u8))),
                        ("field=p-1", fd.le(&(&p - 1u8))),
                        ("field=p", fd.le(&p)),
                        ("field=p+1", fd.le(&(&p + 1u8))),
                        ("field=allones", Some(vec![0xff; fd.size])),
                        ("field=p+top", {
                            // p with the top bit of the encoding set (2^(8*size-1) + p), if it fits
                            fd.le(&(&p + (BigUint::from(1u8) << (8 * fd.size - 1))))
                        }),
                    ];
                    for (kind, v) in vals.iter() {
                        if let Some(v) = v {
                            buf.clear();
                            buf.extend_from_slice(&base);
                            buf[s.off..s.off + s.len].copy_from_slice(v);
                            emit(kind, &buf);
                        }
                    }
                }
            }
            // padding bits: every must-be-zero bit set on its own
            for s in &layout {
                if let SlotKind::Pad(mask) = &s.kind {
                    for (j, m) in mask.iter().enumerate() {
                        for bit in 0..8 {
                            if m & (1 << bit) != 0 {
                                buf.clear();
                                buf.extend_from_slice(&base);
                                buf[s.off + j] |= 1 << bit;
                                emit("padbit", &buf);
                            }
                        }
                    }
                }
            }
            // truncations
            for l in pick_indices(base.len(), trunc_max) {
                emit("trunc", &base[..l]);
            }
            // extensions by 1 and 2 bytes
            let ext1: Vec<u8> = if lim.thorough { (0..=255u8).collect() } else { vec![0, 1, 0x80, 0xff] };
            for x in &ext1 {
                buf.clear();
                buf.extend_from_slice(&base);
                buf.push(*x);
                emit("ext1", &buf);
            }
            for x in [0u8, 1, 0xff] {
                for y in [0u8, 0x80, 0xff] {
                    buf.clear();
                    buf.extend_from_slice(&base);
                    buf.push(x);
                    buf.push(y);
                    emit("ext2", &buf);
                }
            }
            // substitutions
            let mut positions = pick_indices(base.len(), sub_positions);
            let hot_ix: Vec<usize> = hot.iter().enumerate().filter(|(_, h)| **h).map(|(i, _)| i).collect();
            for j in pick_indices(hot_ix.len(), 64) {
                positions.push(hot_ix[j]);
            }
            positions.sort();
            positions.dedup();
            buf.clear();
            buf.extend_from_slice(&base);
            for i in positions {
                let orig = base[i];
                if hot[i] || (lim.full_alphabet && scale == 1) {
                    for v in 0..=255u8 {
                        if v != orig {
                            buf[i] = v;
                            emit(if hot[i] { "sub@hdr" } else { "sub" }, &buf);
                        }
                    }
                } else {
                    let mut alts = [orig ^ 1, orig ^ 0x80, orig.wrapping_add(1), 0, 0xff];
                    alts.sort();
                    let mut last: Option<u8> = None;
                    for v in alts {
                        if v != orig && last != Some(v) {
                            buf[i] = v;
                            emit("sub", &buf);
                        }
                        last = Some(v);
                    }
                }
                buf[i] = orig;
            }
        }
        // all strings up to short_max (<= 2)
        emit("short", &[]);
        if self.short_max >= 1 {
            for a in 0..=255u8 {
                emit("short", &[a]);
            }
        }
        if self.short_max >= 2 {
            for a in 0..=255u8 {
                for b in 0..=255u8 {
                    emit("short", &[a, b]);
                }
            }
        }
    }

    /// The bytes of one case (for reports).
    pub fn case_bytes(&self, lim: &Limits, k: u64) -> Option<(String, Vec<u8>)> {
        let mut out = None;
        // `cases` has no early exit; generation is cheap compared with decoding
        self.cases(lim, k, &mut |kk, kind, b| {
            if kk == k && out.is_none() {
                out = Some((kind.to_string(), b.to_vec()));
            }
        });
        out
    }
}

fn run_decode<T: Encode>(
    dec: &(dyn Fn(&[u8]) -> Result<T, CodecError> + Send + Sync),
    bytes: &[u8],
    full: bool,
    budget: usize,
    eq: Option<fn(&T, &T) -> bool>,
) -> Outcome {
    if let Some(w) = WINDOW.get() {
        (w.begin)(budget);
    }
    let r = catch(|| dec(bytes));
    if let Some(w) = WINDOW.get() {
        (w.end)();
    }
    match r {
        Err(m) => Outcome::Panic(m),
        Ok(Err(e)) => Outcome::Rejected(if full { e.to_string() } else { String::new() }),
        Ok(Ok(v)) => {
            if !full {
                return Outcome::Accepted(None);
            }
            match catch(|| (v.get_encoded(), v.encoded_len())) {
                Err(m) => Outcome::Accepted(Some(FullInfo { reenc: Err(format!("encoder panicked: {m}")), enc_len: None, eq: None })),
                Ok((Err(e), l)) => Outcome::Accepted(Some(FullInfo { reenc: Err(format!("encoder failed: {e}")), enc_len: l, eq: None })),
                Ok((Ok(b), l)) => {
                    // `encode` appends: into a buffer that already holds other data (21 bytes, so the offset is no
                    // multiple of a word, a block or a seed) it must leave that data alone and add the same bytes
                    let mut buf = vec![0xEEu8; 21];
                    match catch(|| v.encode(&mut buf)) {
                        Ok(Ok(())) if buf.len() == 21 + b.len() && buf[..21].iter().all(|x| *x == 0xEE) && buf[21..] == b[..] => {}
                        Ok(Ok(())) => {
                            let what = if !buf[..buf.len().min(21)].iter().all(|x| *x == 0xEE) || buf.len() < 21 { "overwrites the bytes already in the buffer" } else { "appends bytes different from get_encoded()" };
                            return Outcome::Accepted(Some(FullInfo { reenc: Err(format!("encode() into a buffer that already holds 21 bytes {what}")), enc_len: l, eq: None }));
                        }
                        Ok(Err(e)) => return Outcome::Accepted(Some(FullInfo { reenc: Err(format!("encode() into a non-empty buffer failed: {e}")), enc_len: l, eq: None })),
                        Err(m) => return Outcome::Accepted(Some(FullInfo { reenc: Err(format!("encode() into a non-empty buffer panicked: {m}")), enc_len: l, eq: None })),
                    }
                    let eqr = eq.map(|eqf| match catch(|| dec(&b)) {
                        Ok(Ok(v2)) => eqf(&v, &v2),
                        _ => false,
                    });
                    Outcome::Accepted(Some(FullInfo { reenc: Ok(b), enc_len: l, eq: eqr }))
                }
            }
        }
    }
}

fn mk<T, D>(group: &'static str, ty: &str, param: &str, shape: Shape, dec: D, eq: Option<fn(&T, &T) -> bool>) -> Entry
where
    T: Encode + 'static,
    D: Fn(&[u8]) -> Result<T, CodecError> + Send + Sync + 'static,
{
    // allocation legitimately implied by the decoding parameter: for a fixed-length record, four
    // times its encoded size (in-memory elements are at most 40/32 of their encoding; vectors are
    // pre-sized from the instance); nothing for self-describing formats
    let implied = match &shape {
        Shape::Fixed(segs) => 4 * segs_len(segs) + 1024,
        _ => 0,
    };
    let e_implied = implied;
    Entry {
        group,
        ty: ty.to_string(),
        param: param.to_string(),
        shape,
        honest: vec![],
        extras: vec![],
        implied,
        hang_risk: false,
        short_max: 2,
        dec: Box::new(move |bytes, full| run_decode(&dec, bytes, full, 256 * bytes.len() + e_implied + 65536, eq)),
    }
}

fn peq<T: PartialEq>() -> Option<fn(&T, &T) -> bool> {
    Some(|a, b| a == b)
}

pub struct BuildFinding {
    pub key: String,
    pub what: String,
    pub case: Value,
}

pub struct Profile {
    pub thorough: bool,
    /// the wide lattice of admissible Poplar1 bit lengths (10..=64 and 65536) with synthesised values
    pub wide: bool,
    /// the inadmissible `Poplar1::new(0)` instance (no reference; totality only)
    pub bits0: bool,
    pub seed: u64,
}

#[derive(Default)]
pub struct Catalogue {
    pub entries: Vec<Entry>,
    pub findings: Vec<BuildFinding>,
    pub notes: Vec<String>,
}

impl Catalogue {
    fn add(&mut self, e: Entry) -> &mut Entry {
        self.entries.push(e);
        self.entries.last_mut().unwrap()
    }
}

fn be(n: usize, v: u64) -> Vec<u8> {
    (0..n).rev().map(|i| (v >> (8 * i)) as u8).collect()
}

/// bodies of length 0..=40 with three fills
fn bodies() -> Vec<Vec<u8>> {
    let mut v = vec![];
    for l in 0..=40usize {
        v.push(vec![0u8; l]);
        if l > 0 {
            v.push(vec![0xffu8; l]);
            v.push((0..l).map(|i| (i * 37 + 1) as u8).collect());
        }
    }
    v
}

fn tapes(pf: &Profile) -> Vec<(String, Tape)> {
    // structured tapes (zero, ff, counter) + seeded ones
    tape_alphabet(pf.seed, if pf.thorough { 3 } else { 1 })
}

// ------------------------------------------------------------------------------------------------
// primitives: (), integers, seeds, field elements, IDPF values

fn field_entry<F>(cat: &mut Catalogue, fd: &Arc<FieldDesc>, tps: &[(String, Tape)])
where
    F: FieldElement + Decode + PartialEq + 'static,
{
    let mut e = mk::<F, _>("prim", &fd.name, "-", Shape::Fixed(vec![Seg::Field(fd.clone(), 1)]), |b| F::get_decoded(b), peq::<F>());
    // boundary lattice around 0, p and the powers of two, plus tape-derived residues
    let p = fd.p();
    let one = BigUint::from(1u8);
    let mut vals: Vec<BigUint> = vec![BigUint::from(0u8), one.clone(), BigUint::from(2u8), &p - 2u8, &p - 1u8, p.clone(), &p + 1u8, &p + 2u8];
    for k in 0..8 * fd.size {
        vals.push(&one << k);
        vals.push((&one << k) - 1u8);
        vals.push((&one << k) + 1u8);
        if (&one << k) < p {
            vals.push(&p - (&one << k));
        }
    }
    vals.push((&one << (8 * fd.size)) - 1u8);
    for (i, (_, t)) in tps.iter().enumerate() {
        vals.push(BigUint::from_bytes_le(&t.bytes(77 + i as u64, fd.size)));
        vals.push(BigUint::from_bytes_le(&t.bytes(78 + i as u64, fd.size)) % &p);
    }
    for v in vals {
        if let Some(b) = fd.le(&v) {
            e.extras.push(("lattice".to_string(), b));
        }
    }
    cat.add(e);
}

struct Items<T> {
    width: usize, // 1, 2, 4 = length prefix; 0 = fixed length
    items: Vec<T>,
}
impl<T: Encode> Encode for Items<T> {
    fn encode(&self, bytes: &mut Vec<u8>) -> Result<(), CodecError> {
        match self.width {
            1 => encode_u8_items(bytes, &(), &self.items),
            2 => encode_u16_items(bytes, &(), &self.items),
            4 => encode_u32_items(bytes, &(), &self.items),
            _ => encode_fixlen_items(bytes, &self.items),
        }
    }
}
impl<T: PartialEq> PartialEq for Items<T> {
    fn eq(&self, o: &Self) -> bool {
        self.items == o.items
    }
}

/// Non-zero-sized value with an empty wire encoding.
#[derive(Clone, Debug, PartialEq, Eq)]
pub struct EmptyMsg(pub u64);
impl Encode for EmptyMsg {
    fn encode(&self, _bytes: &mut Vec<u8>) -> Result<(), CodecError> {
        Ok(())
    }
    fn encoded_len(&self) -> Option<usize> {
        Some(0)
    }
}
impl Decode for EmptyMsg {
    fn decode(_bytes: &mut Cursor<&[u8]>) -> Result<Self, CodecError> {
        Ok(EmptyMsg(0))
    }
}

fn all_consumed<T>(c: &Cursor<&[u8]>, bytes: &[u8], v: T) -> Result<T, CodecError> {
    if c.position() as usize != bytes.len() {
        return Err(CodecError::BytesLeftOver(bytes.len() - c.position() as usize));
    }
    Ok(v)
}

fn items_entries<T>(cat: &mut Catalogue, item: &str, size: usize, sample: fn(usize) -> T)
where
    T: Encode + Decode + PartialEq + 'static,
{
    for width in [1usize, 2, 4] {
        let fname = match width {
            1 => "decode_u8_items",
            2 => "decode_u16_items",
            _ => "decode_u32_items",
        };
        let shape = Shape::Custom(Box::new(move |rp: &mut Rp| {
            let n = rp.len(width)? as usize;
            if size == 0 {
                // zero-sized items cannot fill a non-empty vector
                return if n == 0 { Some(()) } else { None };
            }
            if n % size != 0 {
                return None;
            }
            rp.opaque(n).map(|_| ())
        }));
        let mut e = mk::<Items<T>, _>(
            "helpers",
            &format!("{fname}<{item}>"),
            "-",
            shape,
            move |b| {
                let mut c = Cursor::new(b);
                let items = match width {
                    1 => decode_u8_items::<(), T>(&(), &mut c)?,
                    2 => decode_u16_items::<(), T>(&(), &mut c)?,
                    _ => decode_u32_items::<(), T>(&(), &mut c)?,
                };
                all_consumed(&c, b, Items { width, items })
            },
            peq::<Items<T>>(),
        );
        e.hang_risk = size == 0;
        for n in [0usize, 1, 2, 5] {
            if size == 0 && n > 0 {
                continue; // a non-empty vector of zero-sized items has no faithful encoding at all
            }
            let v = Items { width, items: (0..n).map(sample).collect::<Vec<T>>() };
            e.honest.push(v.get_encoded().expect("harness: items encode"));
        }
        // length prefix at 0 / len / len+1 / len-1 / max x bodies of length 0..=40
        let max = if width == 4 { u32::MAX as u64 } else { (1u64 << (8 * width)) - 1 };
        for body in bodies() {
            let l = body.len() as u64;
            for pre in [0, l, l + 1, l.saturating_sub(1), max, max / 2 + 1] {
                if pre > max {
                    continue;
                }
                let mut s = be(width, pre);
                s.extend_from_slice(&body);
                e.extras.push(("lenprefix".to_string(), s));
            }
        }
        cat.add(e);
    }
    // fixed-length vectors: the length is a decoding parameter
    for length in [0usize, 1, 7, 8, 9, 16, 40, usize::MAX] {
        let shape = Shape::Custom(Box::new(move |rp: &mut Rp| {
            if size == 0 {
                return if length == 0 { Some(()) } else { None };
            }
            if length % size != 0 || rp.remaining() != length {
                return None;
            }
            rp.opaque(length).map(|_| ())
        }));
        let mut e = mk::<Items<T>, _>(
            "helpers",
            &format!("decode_fixlen_items<{item}>"),
            &format!("length={length}"),
            shape,
            move |b| {
                let mut c = Cursor::new(b);
                let items = decode_fixlen_items::<(), T>(length, &(), &mut c)?;
                all_consumed(&c, b, Items { width: 0, items })
            },
            peq::<Items<T>>(),
        );
        e.hang_risk = size == 0;
        e.short_max = 1;
        if size > 0 && length % size == 0 && length <= 40 {
            let v = Items { width: 0, items: (0..length / size).map(sample).collect::<Vec<T>>() };
            e.honest.push(v.get_encoded().expect("harness: items encode"));
        }
        for body in bodies() {
            e.extras.push(("body".to_string(), body));
        }
        cat.add(e);
    }
}

fn idpf_shape(bits: usize, vi: &Seg, vl: &Seg) -> Vec<Seg> {
    let mut v = vec![Seg::PackedLsb { bytes: bits.div_ceil(4), used: 2 * bits }, Seg::Opaque(16 * bits)];
    for _ in 0..bits - 1 {
        v.push(vi.clone());
    }
    v.push(vl.clone());
    v
}

fn idpf_entries<VI, VL>(cat: &mut Catalogue, name: &str, vi_seg: Seg, vl_seg: Seg, vi: VI, vl: VL, bits_list: &[usize], tps: &[(String, Tape)])
where
    VI: IdpfValue<ValueParameter = ()> + Decode + Clone + subtle::ConstantTimeEq + Send + Sync + 'static,
    VL: IdpfValue<ValueParameter = ()> + Decode + Clone + subtle::ConstantTimeEq + Send + Sync + 'static,
{
    for &bits in bits_list {
        let mut e = mk::<IdpfPublicShare<VI, VL>, _>(
            "prim",
            &format!("IdpfPublicShare<{name}>"),
            &format!("bits={bits}"),
            Shape::Fixed(idpf_shape(bits, &vi_seg, &vl_seg)),
            move |b| IdpfPublicShare::<VI, VL>::get_decoded_with_param(&bits, b),
            peq::<IdpfPublicShare<VI, VL>>(),
        );
        let idpf = Idpf::<VI, VL>::new((), ());
        for (i, (_, t)) in tps.iter().enumerate() {
            let inbits: Vec<bool> = t.bytes(5 + i as u64, bits).iter().map(|b| b & 1 == 1).collect();
            let random = [t.array::<16>(6), t.array::<16>(7)];
            let nonce = t.bytes(8, 16);
            let r = catch(|| {
                prio::verif_hooks::idpf::gen_with_random(&idpf, &IdpfInput::from_bools(&inbits), vec![vi.clone(); bits - 1], vl.clone(), b"c07", &nonce, &random)
            });
            match r {
                Ok(Ok((ps, _))) => match ps.get_encoded() {
                    Ok(b) => e.honest.push(b),
                    Err(err) => cat.notes.push(format!("IdpfPublicShare<{name}> bits={bits}: encode failed: {err}")),
                },
                other => cat.notes.push(format!("IdpfPublicShare<{name}> bits={bits}: gen failed: {:?}", other.map(|r| r.map(|_| ()).map_err(|e| e.to_string())))),
            }
        }
        cat.add(e);
    }
}

fn primitives(cat: &mut Catalogue, pf: &Profile) {
    let tps = tapes(pf);
    // ()
    let mut e = mk::<(), _>("prim", "()", "-", Shape::Fixed(vec![]), |b| <()>::get_decoded(b), peq::<()>());
    e.honest.push(vec![]);
    cat.add(e);
    // integers
    macro_rules! int_entry {
        ($t:ty, $n:expr) => {{
            let mut e = mk::<$t, _>("prim", stringify!($t), "-", Shape::Fixed(vec![Seg::Opaque($n)]), |b| <$t>::get_decoded(b), peq::<$t>());
            for v in [0 as $t, 1, <$t>::MAX, <$t>::MAX / 2 + 1, 0x5a as $t] {
                e.honest.push(v.get_encoded().unwrap());
            }
            cat.add(e);
        }};
    }
    int_entry!(u8, 1);
    int_entry!(u16, 2);
    int_entry!(u32, 4);
    int_entry!(u64, 8);
    // seeds
    let mut e = mk::<Seed<16>, _>("prim", "Seed<16>", "-", Shape::Fixed(vec![Seg::Opaque(16)]), |b| Seed::<16>::get_decoded(b), peq::<Seed<16>>());
    for (_, t) in &tps {
        e.honest.push(t.bytes(40, 16));
    }
    cat.add(e);
    let mut e = mk::<Seed<32>, _>("prim", "Seed<32>", "-", Shape::Fixed(vec![Seg::Opaque(32)]), |b| Seed::<32>::get_decoded(b), peq::<Seed<32>>());
    for (_, t) in &tps {
        e.honest.push(t.bytes(41, 32));
    }
    cat.add(e);
    // fields
    field_entry::<FieldPrio2>(cat, &fd_prio2(), &tps);
    field_entry::<Field64>(cat, &fd64(), &tps);
    field_entry::<Field128>(cat, &fd128(), &tps);
    field_entry::<Field255>(cat, &fd255(), &tps);
    macro_rules! small {
        ($($t:ident = $p:expr),*) => {$( field_entry::<$t>(cat, &fd_lit::<$t>(stringify!($t), $p), &tps); )*};
    }
    small!(FieldV17 = 17, FieldV97 = 97, FieldV193 = 193, FieldV241 = 241, FieldV257 = 257, FieldV769 = 769, FieldV7681 = 7681,
        FieldV12289 = 12289, FieldV40961 = 40961, FieldV61441 = 61441, FieldS257 = 257, FieldS12289 = 12289, FieldS40961 = 40961,
        FieldS61441 = 61441);
    // IDPF values
    let mut e = mk::<Poplar1IdpfValue<Field64>, _>(
        "prim",
        "Poplar1IdpfValue<Field64>",
        "-",
        Shape::Fixed(vec![Seg::Field(fd64(), 2)]),
        |b| Poplar1IdpfValue::<Field64>::get_decoded(b),
        peq::<Poplar1IdpfValue<Field64>>(),
    );
    for (_, t) in &tps {
        let mut b = t.bytes(42, 16);
        b[7] &= 0x7f;
        b[15] &= 0x7f;
        e.extras.push(("lattice".to_string(), b));
    }
    cat.add(e);
    let mut e = mk::<Poplar1IdpfValue<Field255>, _>(
        "prim",
        "Poplar1IdpfValue<Field255>",
        "-",
        Shape::Fixed(vec![Seg::Field(fd255(), 2)]),
        |b| Poplar1IdpfValue::<Field255>::get_decoded(b),
        peq::<Poplar1IdpfValue<Field255>>(),
    );
    for (_, t) in &tps {
        let mut b = t.bytes(43, 64);
        b[31] &= 0x3f;
        b[63] &= 0x3f;
        e.extras.push(("lattice".to_string(), b));
    }
    cat.add(e);
    // IDPF public shares with plain field values
    let bl: Vec<usize> = if pf.thorough { (1..=9).collect() } else { vec![1, 2, 3, 4, 5, 8, 9] };
    idpf_entries::<Field64, Field255>(cat, "Field64,Field255", Seg::Field(fd64(), 1), Seg::Field(fd255(), 1), Field64::one(), Field255::one(), &bl, &tps);
    idpf_entries::<Field128, Field64>(cat, "Field128,Field64", Seg::Field(fd128(), 1), Seg::Field(fd64(), 1), Field128::one(), Field64::one(), &bl, &tps);
    idpf_entries::<FieldV17, FieldV12289>(
        cat,
        "FieldV17,FieldV12289",
        Seg::Field(fd_lit::<FieldV17>("FieldV17", 17), 1),
        Seg::Field(fd_lit::<FieldV12289>("FieldV12289", 12289), 1),
        FieldV17::one(),
        FieldV12289::one(),
        &bl,
        &tps,
    );
    // generic vector helpers with items of encoded size 0, 1 and 8
    items_entries::<()>(cat, "()", 0, |_| ());
    // a NON-zero-sized Rust type whose wire encoding is empty (like a Prio3 public share without joint
    // randomness or Poplar1's round-two verifier message)
    items_entries::<EmptyMsg>(cat, "EmptyMsg", 0, |_| EmptyMsg(0));
    items_entries::<u8>(cat, "u8", 1, |i| (i * 41 + 3) as u8);
    items_entries::<u64>(cat, "u64", 8, |i| (i as u64).wrapping_mul(0x9E3779B97F4A7C15) ^ 0xff00);
}

// ------------------------------------------------------------------------------------------------
// ping-pong: the real routines produce the honest messages and continuations

pub struct PingPongRun {
    pub messages: Vec<Vec<u8>>,
    /// (aggregator id, encoded continuation)
    pub continuations: Vec<(usize, Vec<u8>)>,
}

fn pingpong_run<V, const S: usize>(
    vdaf: &V,
    vk: &[u8; S],
    ctx: &[u8],
    ap: &V::AggregationParam,
    nonce: &[u8; 16],
    ps: &V::PublicShare,
    shares: &[V::InputShare],
) -> Result<PingPongRun, String>
where
    V: Aggregator<S, 16>,
    V::VerifyState: Encode,
{
    let mut out = PingPongRun { messages: vec![], continuations: vec![] };
    let Continued { message, verifier_state } = vdaf.leader_initialized(vk, ctx, ap, nonce, ps, &shares[0]).map_err(|e| e.to_string())?;
    let mut states: [Option<V::VerifyState>; 2] = [Some(verifier_state), None];
    out.messages.push(message.get_encoded().map_err(|e| e.to_string())?);
    let mut cont: PingPongContinuation<S, 16, V> = vdaf.helper_initialized(vk, ctx, ap, nonce, ps, &shares[1], &message).map_err(|e| e.to_string())?;
    let mut who = 1usize;
    for _ in 0..12 {
        if let Ok(b) = cont.get_encoded() {
            if let Some(l) = cont.encoded_len() {
                if l != b.len() {
                    return Err(format!("PingPongContinuation::encoded_len()={} but {} bytes produced", l, b.len()));
                }
            }
            out.continuations.push((who, b));
        }
        let peer = 1 - who;
        match cont.evaluate(ctx, vdaf).map_err(|e| e.to_string())? {
            PingPongState::Continued(Continued { message, verifier_state }) => {
                out.messages.push(message.get_encoded().map_err(|e| e.to_string())?);
                states[who] = Some(verifier_state);
                let st = states[peer].clone().ok_or("harness: peer has no state")?;
                cont = if peer == 0 { vdaf.leader_continued(ctx, ap, st, &message) } else { vdaf.helper_continued(ctx, ap, st, &message) }.map_err(|e| e.to_string())?;
                who = peer;
            }
            PingPongState::FinishedWithOutbound { message, .. } => {
                out.messages.push(message.get_encoded().map_err(|e| e.to_string())?);
                let st = states[peer].clone().ok_or("harness: peer has no state")?;
                cont = if peer == 0 { vdaf.leader_continued(ctx, ap, st, &message) } else { vdaf.helper_continued(ctx, ap, st, &message) }.map_err(|e| e.to_string())?;
                who = peer;
            }
            PingPongState::Finished { .. } => return Ok(out),
        }
    }
    Err("ping-pong did not finish in 12 steps".into())
}

/// Reference grammar of `PingPongMessage`: tag, then one or two `opaque<0..2^32-1>` vectors.
fn pingpong_message_shape() -> Shape {
    Shape::Custom(Box::new(|rp: &mut Rp| {
        let t = rp.tag(&[0, 1, 2])?;
        let n = rp.len(4)? as usize;
        rp.opaque(n)?;
        if t == 1 {
            let m = rp.len(4)? as usize;
            rp.opaque(m)?;
        }
        Some(())
    }))
}

fn pingpong_message_entry(vname: &str, honest: Vec<Vec<u8>>, with_extras: bool) -> Entry {
    let mut e = mk::<PingPongMessage, _>("pingpong", "PingPongMessage", vname, pingpong_message_shape(), |b| PingPongMessage::get_decoded(b), peq::<PingPongMessage>());
    e.honest = honest;
    if with_extras {
        // every tag value with empty / zero-length bodies
        for t in 0..=255u8 {
            e.extras.push(("tag".into(), vec![t]));
            e.extras.push(("tag".into(), [vec![t], be(4, 0)].concat()));
            e.extras.push(("tag".into(), [vec![t], be(4, 0), be(4, 0)].concat()));
            e.extras.push(("tag".into(), [vec![t], be(4, 3), vec![1, 2, 3], be(4, 1), vec![9]].concat()));
        }
        // length prefixes at 0 / len / len+1 / len-1 / max x bodies of length 0..=40
        for t in [0u8, 1, 2, 3] {
            for body in bodies() {
                let l = body.len() as u64;
                for pre in [0, l, l + 1, l.saturating_sub(1), l.saturating_sub(4), 0xffff_ffff, 0x8000_0000, 0x1_0000] {
                    e.extras.push(("lenprefix".into(), [vec![t], be(4, pre), body.clone()].concat()));
                    if t == 1 && pre + 4 <= l {
                        // second vector: prefix inside the body
                        let rest = l - pre - 4;
                        for pre2 in [0, rest, rest + 1, rest.saturating_sub(1), 0xffff_ffff] {
                            let mut s = [vec![t], be(4, pre), body.clone()].concat();
                            let off = 5 + pre as usize;
                            s[off..off + 4].copy_from_slice(&be(4, pre2));
                            e.extras.push(("lenprefix2".into(), s));
                        }
                    }
                }
            }
        }
    }
    e
}

// ------------------------------------------------------------------------------------------------
// Prio3

type P3<T> = Prio3<T, XofTurboShake128, 32>;

fn seedseg(present: bool) -> Vec<Seg> {
    if present {
        vec![Seg::Opaque(32)]
    } else {
        vec![]
    }
}

/// Key and type name for a failure of an honest message inside `verify_report`.
fn wire_key(family: &str, stage: &Stage, msg: &str, inst: &str) -> String {
    let (p3, pop) = (family == "prio3", family == "poplar1");
    let ty = match stage {
        Stage::DecodePublicShare => if p3 { "Prio3PublicShare" } else if pop { "Poplar1PublicShare" } else { "()" },
        Stage::DecodeInputShare(_) => if p3 { "Prio3InputShare" } else if pop { "Poplar1InputShare" } else { "Share<FieldPrio2,32>" },
        Stage::CodecVerifyState(_, _) => if p3 { "Prio3VerifyState" } else if pop { "Poplar1VerifierState" } else { "Prio2VerifierState" },
        Stage::CodecVerifierShare(_, _) => if p3 { "Prio3VerifierShare" } else if pop { "Poplar1FieldVec(sketch share)" } else { "Prio2VerifierShare" },
        Stage::CodecVerifierMessage(_, _) => if p3 { "Prio3VerifierMessage" } else if pop { "Poplar1VerifierMessage" } else { "()" },
        Stage::CodecOutputShare(_) => if pop { "Poplar1FieldVec(output share)" } else { "OutputShare" },
        _ => "?",
    };
    let oracle = if msg.starts_with("encoded_len()") { "encoded_len" } else { "honest_wire" };
    format!("codec/{oracle}/{ty}/{inst}")
}

fn codec_stage(s: &Stage) -> bool {
    matches!(
        s,
        Stage::DecodePublicShare
            | Stage::DecodeInputShare(_)
            | Stage::CodecVerifyState(_, _)
            | Stage::CodecVerifierShare(_, _)
            | Stage::CodecVerifierMessage(_, _)
            | Stage::CodecOutputShare(_)
    )
}

fn prio3_family<T>(cat: &mut Catalogue, pf: &Profile, case: &Case<T>, fdesc: &Arc<FieldDesc>, aggs: &[u8], proofs: &[u8], pingpong: bool)
where
    T: Type + Clone + Send + Sync + 'static,
    T::Field: KitField,
    <T::Field as FieldElementWithInteger>::Integer: IntConv,
{
    let tps = tapes(pf);
    let jr = case.typ.joint_rand_len() > 0;
    for &na in aggs {
        for &np in proofs {
            let vdaf: Arc<P3<T>> = match Prio3::new(na, np, case.alg, case.typ.clone()) {
                Ok(v) => Arc::new(v),
                Err(e) => {
                    cat.notes.push(format!("{}: Prio3::new({na},{np}) refused: {e}", case.name));
                    continue;
                }
            };
            let inst = format!("{}/a{na}/p{np}", case.name);
            let n = na as usize;
            // honest transcripts
            let picks: Vec<usize> = {
                let m = case.meas.len();
                let mut v = vec![0, m - 1, m / 2];
                v.sort();
                v.dedup();
                v
            };
            let mut trs: Vec<Transcript> = vec![];
            let mut outs_by_agg: Vec<Vec<OutputShare<T::Field>>> = vec![vec![]; n];
            let mut pp: Vec<PingPongRun> = vec![];
            for (ti, (tname, tape)) in tps.iter().enumerate() {
                for &mi in &picks {
                    let ctx: Vec<u8> = tape.bytes(100 + mi as u64, [0usize, 1, 40][(ti + mi) % 3]);
                    let nonce: [u8; 16] = tape.array(200 + mi as u64);
                    let vk: [u8; 32] = tape.array(300 + mi as u64);
                    let random = tape.bytes(400 + mi as u64, if jr { 2 * n * 32 } else { n * 32 });
                    let (ps, shares) = match catch(|| vdaf.shard_with_random(&ctx, &case.meas[mi], &nonce, &random)) {
                        Ok(Ok(x)) => x,
                        other => {
                            cat.notes.push(format!("{inst}: sharding failed on tape {tname}: {:?}", other.map(|r| r.map(|_| ()).map_err(|e| e.to_string()))));
                            continue;
                        }
                    };
                    // typed round trip of the client's outputs
                    if let Ok(b) = ps.get_encoded() {
                        if let Ok(d) = Prio3PublicShare::<32>::get_decoded_with_param(&*vdaf, &b) {
                            if d != ps {
                                cat.findings.push(BuildFinding { key: format!("prio3/Prio3PublicShare/roundtrip_eq/{inst}"), what: format!("{inst}: decode(encode(public share)) != public share"), case: json!({"instance": inst, "bytes": hex(&b)}) });
                            }
                        }
                    }
                    for (i, s) in shares.iter().enumerate() {
                        if let Ok(b) = s.get_encoded() {
                            if let Ok(d) = Prio3InputShare::<T::Field, 32>::get_decoded_with_param(&(&*vdaf, i), &b) {
                                if d != *s {
                                    cat.findings.push(BuildFinding { key: format!("prio3/Prio3InputShare/roundtrip_eq/{inst}/agg{i}"), what: format!("{inst}: decode(encode(input share {i})) != input share"), case: json!({"instance": inst, "agg": i, "bytes": hex(&b)}) });
                                }
                            }
                        }
                    }
                    match verify_report::<P3<T>, 32>(&vdaf, &vk, &ctx, &(), &nonce, &ps, &shares, &VerifyOpts::wire()) {
                        Ok((outs, tr)) => {
                            for (i, o) in outs.into_iter().enumerate() {
                                outs_by_agg[i].push(o);
                            }
                            trs.push(tr);
                            if pingpong && n == 2 {
                                match catch(|| pingpong_run::<P3<T>, 32>(&vdaf, &vk, &ctx, &(), &nonce, &ps, &shares)) {
                                    Ok(Ok(r)) => pp.push(r),
                                    Ok(Err(e)) => cat.findings.push(BuildFinding { key: format!("pingpong/run/{inst}"), what: format!("{inst}: honest ping-pong run failed: {e}"), case: json!({"instance": inst, "tape": tname}) }),
                                    Err(m) => cat.findings.push(BuildFinding { key: format!("pingpong/run_panic/{inst}"), what: format!("{inst}: honest ping-pong run panicked: {m}"), case: json!({"instance": inst, "tape": tname}) }),
                                }
                            }
                        }
                        Err(Failure { stage, msg }) => {
                            if codec_stage(&stage) {
                                cat.findings.push(BuildFinding { key: wire_key("prio3", &stage, &msg, &inst), what: format!("{inst}: honest message failed its wire round trip at {stage:?}: {msg}"), case: json!({"instance": inst, "tape": tname, "measurement_index": mi}) });
                            } else {
                                cat.notes.push(format!("{inst}: honest report not verified on tape {tname} ({stage:?}: {msg}); no transcript"));
                            }
                        }
                    }
                }
            }
            if trs.is_empty() {
                cat.notes.push(format!("{inst}: no honest transcript at all"));
            }
            let f = |cnt: usize| Seg::Field(fdesc.clone(), cnt);
            let (il, pl, vl, ol) = (case.typ.input_len(), case.typ.proof_len() * np as usize, case.typ.verifier_len() * np as usize, case.typ.output_len());
            // public share
            {
                let v = vdaf.clone();
                let segs = if jr { vec![Seg::Opaque(32 * n)] } else { vec![] };
                let mut e = mk::<Prio3PublicShare<32>, _>("prio3", "Prio3PublicShare", &inst, Shape::Fixed(segs), move |b| Prio3PublicShare::<32>::get_decoded_with_param(&*v, b), peq::<Prio3PublicShare<32>>());
                e.honest = trs.iter().map(|t| t.public_share.clone()).collect();
                cat.add(e);
            }
            let mut states: Vec<Option<Arc<Prio3VerifyState<T::Field, 32>>>> = vec![];
            for i in 0..n {
                // input share
                let v = vdaf.clone();
                let mut segs = if i == 0 { vec![f(il), f(pl)] } else { vec![Seg::Opaque(32)] };
                segs.extend(seedseg(jr));
                let mut e = mk::<Prio3InputShare<T::Field, 32>, _>("prio3", "Prio3InputShare", &format!("{inst}/agg{i}"), Shape::Fixed(segs), move |b| Prio3InputShare::<T::Field, 32>::get_decoded_with_param(&(&*v, i), b), peq::<Prio3InputShare<T::Field, 32>>());
                e.honest = trs.iter().map(|t| t.input_shares[i].clone()).collect();
                if i >= 2 {
                    e.short_max = 1;
                }
                cat.add(e);
                // verify state
                let v = vdaf.clone();
                let mut segs = if i == 0 { vec![f(ol)] } else { vec![Seg::Opaque(32)] };
                segs.extend(seedseg(jr));
                let mut e = mk::<Prio3VerifyState<T::Field, 32>, _>("prio3", "Prio3VerifyState", &format!("{inst}/agg{i}"), Shape::Fixed(segs), move |b| Prio3VerifyState::<T::Field, 32>::get_decoded_with_param(&(&*v, i), b), peq::<Prio3VerifyState<T::Field, 32>>());
                e.honest = trs.iter().map(|t| t.verify_states[0][i].clone()).collect();
                if i >= 2 {
                    e.short_max = 1;
                }
                states.push(trs.first().and_then(|t| Prio3VerifyState::<T::Field, 32>::get_decoded_with_param(&(&*vdaf, i), &t.verify_states[0][i]).ok()).map(Arc::new));
                cat.add(e);
            }
            // inadmissible aggregator ids: everything is refused
            for bad in [n, 256, usize::MAX] {
                let v = vdaf.clone();
                let mut e = mk::<Prio3InputShare<T::Field, 32>, _>("prio3", "Prio3InputShare", &format!("{inst}/agg{bad}(out of range)"), Shape::Custom(Box::new(|_| None)), move |b| Prio3InputShare::<T::Field, 32>::get_decoded_with_param(&(&*v, bad), b), peq::<Prio3InputShare<T::Field, 32>>());
                for t in trs.iter().take(1) {
                    for s in &t.input_shares {
                        e.extras.push(("honest-other-id".into(), s.clone()));
                    }
                }
                e.short_max = if bad == n { 1 } else { 0 };
                cat.add(e);
                let v = vdaf.clone();
                let mut e = mk::<Prio3VerifyState<T::Field, 32>, _>("prio3", "Prio3VerifyState", &format!("{inst}/agg{bad}(out of range)"), Shape::Custom(Box::new(|_| None)), move |b| Prio3VerifyState::<T::Field, 32>::get_decoded_with_param(&(&*v, bad), b), peq::<Prio3VerifyState<T::Field, 32>>());
                for t in trs.iter().take(1) {
                    for s in &t.verify_states[0] {
                        e.extras.push(("honest-other-id".into(), s.clone()));
                    }
                }
                e.short_max = if bad == n { 1 } else { 0 };
                cat.add(e);
            }
            // verifier share / message, decoded with the state of aggregator 0 and 1
            for i in 0..n.min(2) {
                let Some(st) = states[i].clone() else { continue };
                let mut segs = vec![f(vl)];
                segs.extend(seedseg(jr));
                let s2 = st.clone();
                let mut e = mk::<Prio3VerifierShare<T::Field, 32>, _>("prio3", "Prio3VerifierShare", &format!("{inst}/state{i}"), Shape::Fixed(segs), move |b| Prio3VerifierShare::<T::Field, 32>::get_decoded_with_param(&*s2, b), peq::<Prio3VerifierShare<T::Field, 32>>());
                e.honest = trs.iter().flat_map(|t| t.verifier_shares[0].iter().cloned()).collect();
                cat.add(e);
                let s2 = st.clone();
                let mut e = mk::<Prio3VerifierMessage<32>, _>("prio3", "Prio3VerifierMessage", &format!("{inst}/state{i}"), Shape::Fixed(seedseg(jr)), move |b| Prio3VerifierMessage::<32>::get_decoded_with_param(&*s2, b), peq::<Prio3VerifierMessage<32>>());
                e.honest = trs.iter().map(|t| t.verifier_messages[0].clone()).collect();
                cat.add(e);
            }
            // output and aggregate shares
            {
                let v = vdaf.clone();
                let mut e = mk::<OutputShare<T::Field>, _>("prio3", "OutputShare", &inst, Shape::Fixed(vec![f(ol)]), move |b| OutputShare::<T::Field>::get_decoded_with_param(&(&*v, &()), b), peq::<OutputShare<T::Field>>());
                e.honest = trs.iter().flat_map(|t| t.output_shares.iter().cloned()).collect();
                cat.add(e);
                let v = vdaf.clone();
                let mut e = mk::<AggregateShare<T::Field>, _>("prio3", "AggregateShare", &inst, Shape::Fixed(vec![f(ol)]), move |b| AggregateShare::<T::Field>::get_decoded_with_param(&(&*v, &()), b), peq::<AggregateShare<T::Field>>());
                for o in outs_by_agg.iter() {
                    if o.is_empty() {
                        continue;
                    }
                    if let Ok(Ok(a)) = catch(|| vdaf.aggregate(&(), o.iter().cloned())) {
                        if let Ok(b) = a.get_encoded() {
                            e.honest.push(b);
                        }
                    }
                    if let Ok(Ok(a)) = catch(|| vdaf.aggregate(&(), o.iter().take(1).cloned())) {
                        if let Ok(b) = a.get_encoded() {
                            e.honest.push(b);
                        }
                    }
                }
                cat.add(e);
            }
            // ping-pong over this instance
            if pingpong && n == 2 {
                let msgs: Vec<Vec<u8>> = pp.iter().flat_map(|r| r.messages.iter().cloned()).collect();
                cat.add(pingpong_message_entry(&inst, msgs, false));
                for i in 0..2usize {
                    let v = vdaf.clone();
                    let mut segs = if i == 0 { vec![f(ol)] } else { vec![Seg::Opaque(32)] };
                    segs.extend(seedseg(jr)); // state
                    segs.extend(seedseg(jr)); // verifier message
                    let mut e = mk::<PingPongContinuation<32, 16, P3<T>>, _>(
                        "pingpong",
                        "PingPongContinuation",
                        &format!("{inst}/agg{i}"),
                        Shape::Fixed(segs),
                        move |b| PingPongContinuation::<32, 16, P3<T>>::get_decoded_with_param(&(&*v, i), b),
                        peq::<PingPongContinuation<32, 16, P3<T>>>(),
                    );
                    e.honest = pp.iter().flat_map(|r| r.continuations.iter().filter(|(w, _)| *w == i).map(|(_, b)| b.clone())).collect();
                    cat.add(e);
                }
            }
        }
    }
}

fn prio3_all(cat: &mut Catalogue, pf: &Profile) {
    let aggs: Vec<u8> = vec![1, 2, 3, 4];
    let proofs: Vec<u8> = vec![1, 2, 3];
    let (f64d, f128d) = (fd64(), fd128());
    prio3_family(cat, pf, &count_case::<Field64>(), &f64d, &aggs, &proofs, true);
    prio3_family(cat, pf, &sum_case::<Field64>(100), &f64d, &aggs, &proofs, false);
    prio3_family(cat, pf, &average_case::<Field128>(9), &f128d, &aggs, &proofs, false);
    prio3_family(cat, pf, &sumvec_case::<Field128>(3, 3, 2), &f128d, &aggs, &proofs, false);
    prio3_family(cat, pf, &histogram_case::<Field128>(5, 2), &f128d, &aggs, &proofs, true);
    prio3_family(cat, pf, &multihot_case::<Field128>(4, 2, 2), &f128d, &aggs, &proofs, false);
    prio3_family(cat, pf, &l1_case::<Field128>(3, 2, 2), &f128d, &aggs, &proofs, false);
    // the same generic code over one- and two-byte field encodings
    let small_aggs: Vec<u8> = if pf.thorough { vec![1, 2, 3] } else { vec![2] };
    let small_proofs: Vec<u8> = if pf.thorough { vec![1, 2] } else { vec![1] };
    prio3_family(cat, pf, &count_case::<FieldV193>(), &fd_lit::<FieldV193>("FieldV193", 193), &small_aggs, &small_proofs, false);
    prio3_family(cat, pf, &histogram_case::<FieldV12289>(3, 2), &fd_lit::<FieldV12289>("FieldV12289", 12289), &small_aggs, &small_proofs, false);
}

// ------------------------------------------------------------------------------------------------
// Poplar1

/// Reference grammar of `Poplar1AggregationParam`: u16 level, u32 count (>= 1), count prefixes of
/// ceil((level+1)/8) bytes, bits packed most-significant first with zero trailing bits, strictly
/// increasing.
fn agg_param_shape() -> Shape {
    Shape::Custom(Box::new(|rp: &mut Rp| {
        let level = rp.len(2)? as usize;
        let count = rp.len(4)? as usize;
        if count == 0 {
            return None;
        }
        let nbytes = (level + 1).div_ceil(8);
        if rp.remaining() / nbytes < count {
            return None;
        }
        let unused = 8 * nbytes - (level + 1);
        let mut mask = vec![0u8; nbytes];
        mask[nbytes - 1] = ((1u16 << unused) - 1) as u8;
        let mut last: Option<&[u8]> = None;
        for _ in 0..count {
            let s = rp.padded(mask.clone())?;
            if let Some(l) = last {
                if s <= l {
                    return None;
                }
            }
            last = Some(s);
        }
        Some(())
    }))
}

fn agg_param_entry(pf: &Profile) -> Entry {
    let mut e = mk::<Poplar1AggregationParam, _>("poplar1", "Poplar1AggregationParam", "-", agg_param_shape(), |b| Poplar1AggregationParam::get_decoded(b), peq::<Poplar1AggregationParam>());
    // honest values through the public constructor, including the deepest levels
    let levels: Vec<usize> = if pf.thorough { vec![0, 1, 2, 6, 7, 8, 9, 15, 16, 63, 64, 255, 256, 0xFFFE, 0xFFFF] } else { vec![0, 1, 6, 7, 8, 15, 16, 0xFFFE, 0xFFFF] };
    for l in levels {
        let n = l + 1;
        let zero = vec![false; n];
        let ones = vec![true; n];
        let mut mid = vec![false; n];
        mid[n - 1] = true;
        let mut sets: Vec<Vec<Vec<bool>>> = vec![vec![zero.clone()], vec![ones.clone()]];
        if n >= 1 {
            sets.push(vec![zero.clone(), ones.clone()]);
        }
        if n >= 2 {
            sets.push(vec![zero.clone(), mid.clone(), ones.clone()]);
        }
        for set in sets {
            let mut set = set;
            set.sort();
            set.dedup();
            let ap = Poplar1AggregationParam::try_from_prefixes(set.iter().map(|p| IdpfInput::from_bools(p)).collect()).expect("harness: honest aggregation parameter");
            e.honest.push(ap.get_encoded().expect("harness: aggregation parameter encode"));
        }
    }
    // the interesting ones first as mutation bases: order honest so that small ones come first
    e.honest.sort_by_key(|h| h.len());
    // header fields at extremes x bodies of length 0..=40
    for level in [1u64, 2, 5, 8, 9, 14] {
        // several prefixes with stray padding bits in exactly one of them (first / middle / last): the
        // padding of EVERY prefix must be checked
        let nb = (level as usize + 1).div_ceil(8);
        if nb <= 2 && (level + 1) % 8 != 0 {
            let pad_bit = 1u8; // lowest bit of the last byte is padding whenever level+1 is not a multiple of 8
            for count in 2..=3usize {
                for dirty in 0..count {
                    // strictly increasing prefixes: first byte 0x00, 0x40, 0x80 (their leading bits differ)
                    let mut body = vec![];
                    for k in 0..count {
                        let mut pfx = vec![0u8; nb];
                        // keep only bits that exist at this level in the first byte
                        let bits_first = (level as usize + 1).min(8);
                        let lead = [0x00u8, 0x40, 0x80][k] & (0xFFu8 << (8 - bits_first));
                        pfx[0] = lead;
                        if k == dirty {
                            pfx[nb - 1] |= pad_bit;
                        }
                        body.extend(pfx);
                    }
                    e.extras.push((format!("dirty_padding(level={level:#x},count={count},prefix={dirty})"), [be(2, level), be(4, count as u64), body].concat()));
                }
            }
        }
    }
    for level in [0u64, 7, 8, 0xFFFE, 0xFFFF] {
        for count in [0u64, 1, 2, 1 << 16, 0xFFFF_FFFF] {
            for body in bodies() {
                e.extras.push((format!("hdr(level={level:#x})"), [be(2, level), be(4, count), body].concat()));
            }
        }
        // count exactly matching the body
        let nbytes = (level as usize + 1).div_ceil(8);
        if nbytes <= 2 {
            for c in 0..=4u64 {
                for fill in [0u8, 0x80, 0xff] {
                    e.extras.push((format!("hdr(level={level:#x})"), [be(2, level), be(4, c), vec![fill; nbytes * c as usize]].concat()));
                }
            }
        }
    }
    e
}

/// Reference grammar of `Poplar1VerifierState`.
fn poplar_state_shape() -> Shape {
    let (f64d, f255d) = (fd64(), fd255());
    Shape::Custom(Box::new(move |rp: &mut Rp| {
        let fd = if rp.tag(&[0, 1])? == 0 { &f64d } else { &f255d };
        if rp.tag(&[0, 1])? == 0 {
            rp.fields(fd, 2)?;
        }
        let n = rp.len(4)? as usize;
        if rp.remaining() / fd.size < n {
            return None;
        }
        rp.fields(fd, n)
    }))
}

fn poplar_state_extras() -> Vec<(String, Vec<u8>)> {
    let mut v = vec![];
    for t0 in [0u8, 1] {
        let fsz = if t0 == 0 { 8usize } else { 32 };
        for t1 in [0u8, 1] {
            let mut head = vec![t0, t1];
            if t1 == 0 {
                head.extend(vec![0u8; 2 * fsz]);
            }
            for body in bodies().into_iter().filter(|b| b.iter().all(|x| *x == 0) || b.len() % 8 == 0) {
                let k = (body.len() / fsz) as u64;
                for n in [0u64, 1, k, k + 1, 1 << 16, 0x7fff_ffff, 0x8000_0000, 0xffff_ffff] {
                    v.push(("output_share_len".to_string(), [head.clone(), be(4, n), body.clone()].concat()));
                }
            }
        }
    }
    for t0 in 0..=255u8 {
        for t1 in [0u8, 1, 2, 0xff] {
            v.push(("tags".to_string(), [vec![t0, t1], vec![0u8; 68]].concat()));
            v.push(("tags".to_string(), [vec![t1, t0], vec![0u8; 20]].concat()));
        }
    }
    v
}

fn bits_of(v: u64, n: usize) -> Vec<bool> {
    (0..n).map(|k| if n - 1 - k < 64 { (v >> (n - 1 - k)) & 1 == 1 } else { false }).collect()
}

fn poplar_public_segs(bits: usize) -> Vec<Seg> {
    idpf_shape(bits, &Seg::Field(fd64(), 2), &Seg::Field(fd255(), 2))
}

fn poplar_input_segs(bits: usize, seed: usize) -> Vec<Seg> {
    vec![Seg::Opaque(16), Seg::Opaque(seed), Seg::Field(fd64(), 2 * (bits - 1)), Seg::Field(fd255(), 2)]
}

fn poplar1_family<P, const S: usize>(cat: &mut Catalogue, pf: &Profile, pname: &str, bits_list: &[usize], honest: bool, pingpong_bits: &[usize])
where
    P: Xof<S> + Send + Sync + 'static,
{
    let tps = tapes(pf);
    for &bits in bits_list {
        let vdaf: Arc<Poplar1<P, S>> = Arc::new(Poplar1::new(bits));
        let inst = format!("Poplar1<{pname},{S}>(bits={bits})");
        let levels: Vec<usize> = if bits <= 9 {
            (0..bits).collect()
        } else {
            let mut v = vec![0, 1, bits / 2, bits - 2, bits - 1];
            v.sort();
            v.dedup();
            v
        };
        struct Tr {
            level: usize,
            ap: Arc<Poplar1AggregationParam>,
            tr: Transcript,
        }
        let mut trs: Vec<Tr> = vec![];
        let mut publics: Vec<Vec<u8>> = vec![];
        let mut inputs: [Vec<Vec<u8>>; 2] = [vec![], vec![]];
        let mut pp: Vec<PingPongRun> = vec![];
        let mut aps: Vec<(usize, Arc<Poplar1AggregationParam>)> = vec![];
        for &level in &levels {
            for full in [false, true] {
                // a single prefix, or the sorted set {0..0, own prefix, its sibling, 1..1}
                let mk_ap = |input: &[bool]| {
                    let own = input[..=level].to_vec();
                    let mut set = vec![own.clone()];
                    if full {
                        let mut sib = own.clone();
                        let l = sib.len() - 1;
                        sib[l] = !sib[l];
                        set.push(sib);
                        set.push(vec![false; level + 1]);
                        set.push(vec![true; level + 1]);
                        set.sort();
                        set.dedup();
                    }
                    Arc::new(Poplar1AggregationParam::try_from_prefixes(set.iter().map(|p| IdpfInput::from_bools(p)).collect()).expect("harness: aggregation parameter"))
                };
                aps.push((level, mk_ap(&bits_of(0x5555_5555_5555_5555, bits))));
            }
        }
        if honest {
            let inputs_v: Vec<Vec<bool>> = {
                let mut v = vec![vec![false; bits], vec![true; bits], bits_of(0xAAAA_AAAA_AAAA_AAAA, bits)];
                v.sort();
                v.dedup();
                v
            };
            for (ti, (tname, tape)) in tps.iter().enumerate() {
                let input = &inputs_v[ti % inputs_v.len()];
                let ctx: Vec<u8> = tape.bytes(11, [0usize, 3, 50][ti % 3]);
                let nonce: [u8; 16] = tape.array(12);
                let vk: [u8; S] = tape.array(13);
                let random = tape.bytes(14, 32 + 3 * S);
                let (ps, shares) = match catch(|| vdaf.shard_with_random(&ctx, &IdpfInput::from_bools(input), &nonce, &random)) {
                    Ok(Ok(x)) => x,
                    other => {
                        cat.notes.push(format!("{inst}: sharding failed on tape {tname}: {:?}", other.map(|r| r.map(|_| ()).map_err(|e| e.to_string()))));
                        continue;
                    }
                };
                if let Ok(b) = ps.get_encoded() {
                    match Poplar1PublicShare::get_decoded_with_param(&*vdaf, &b) {
                        Ok(d) if d == ps => {}
                        Ok(_) => cat.findings.push(BuildFinding { key: format!("poplar1/Poplar1PublicShare/roundtrip_eq/{inst}"), what: format!("{inst}: decode(encode(public share)) != public share"), case: json!({"instance": inst, "bytes": hex(&b)}) }),
                        Err(_) => {}
                    }
                    publics.push(b);
                }
                for (i, s) in shares.iter().enumerate() {
                    if let Ok(b) = s.get_encoded() {
                        match Poplar1InputShare::<S>::get_decoded_with_param(&(&*vdaf, i), &b) {
                            Ok(d) if d == *s => {}
                            Ok(_) => cat.findings.push(BuildFinding { key: format!("poplar1/Poplar1InputShare/roundtrip_eq/{inst}/agg{i}"), what: format!("{inst}: decode(encode(input share {i})) != input share"), case: json!({"instance": inst, "agg": i, "bytes": hex(&b)}) }),
                            Err(_) => {}
                        }
                        inputs[i].push(b);
                    }
                }
                for (level, _) in aps.iter() {
                    // parameters follow the actual input of this tape
                    for full in [false, true] {
                        let own = input[..=*level].to_vec();
                        let mut set = vec![own.clone()];
                        if full {
                            let mut sib = own.clone();
                            let l = sib.len() - 1;
                            sib[l] = !sib[l];
                            set.push(sib);
                            set.push(vec![false; level + 1]);
                            set.push(vec![true; level + 1]);
                            set.sort();
                            set.dedup();
                        } else if trs.iter().any(|t| t.level == *level && t.ap.prefixes().len() == 1) && ti > 0 {
                            continue;
                        }
                        let ap = Arc::new(Poplar1AggregationParam::try_from_prefixes(set.iter().map(|p| IdpfInput::from_bools(p)).collect()).expect("harness: aggregation parameter"));
                        if trs.iter().filter(|t| t.level == *level && t.ap.prefixes().len() == ap.prefixes().len()).count() >= 2 {
                            continue;
                        }
                        match verify_report::<Poplar1<P, S>, S>(&vdaf, &vk, &ctx, &ap, &nonce, &ps, &shares, &VerifyOpts::wire()) {
                            Ok((_, tr)) => trs.push(Tr { level: *level, ap: ap.clone(), tr }),
                            Err(Failure { stage, msg }) => {
                                if codec_stage(&stage) {
                                    cat.findings.push(BuildFinding { key: wire_key("poplar1", &stage, &msg, &inst), what: format!("{inst}: honest message failed its wire round trip at {stage:?} (level {level}): {msg}"), case: json!({"instance": inst, "tape": tname, "level": level}) });
                                } else {
                                    cat.notes.push(format!("{inst}: honest report not verified at level {level} on tape {tname} ({stage:?}: {msg})"));
                                }
                            }
                        }
                        if pingpong_bits.contains(&bits) && full {
                            match catch(|| pingpong_run::<Poplar1<P, S>, S>(&vdaf, &vk, &ctx, &ap, &nonce, &ps, &shares)) {
                                Ok(Ok(r)) => pp.push(r),
                                Ok(Err(e)) => cat.findings.push(BuildFinding { key: format!("pingpong/run/{inst}"), what: format!("{inst}: honest ping-pong run failed at level {level}: {e}"), case: json!({"instance": inst, "tape": tname, "level": level}) }),
                                Err(m) => cat.findings.push(BuildFinding { key: format!("pingpong/run_panic/{inst}"), what: format!("{inst}: honest ping-pong run panicked at level {level}: {m}"), case: json!({"instance": inst, "tape": tname, "level": level}) }),
                            }
                        }
                    }
                }
            }
        }
        // public share, by instance and by bit length
        {
            let v = vdaf.clone();
            let mut e = mk::<Poplar1PublicShare, _>("poplar1", "Poplar1PublicShare", &format!("{inst}/&vdaf"), Shape::Fixed(poplar_public_segs(bits)), move |b| Poplar1PublicShare::get_decoded_with_param(&*v, b), peq::<Poplar1PublicShare>());
            e.honest = publics.clone();
            cat.add(e);
            if S == 32 {
                let mut e = mk::<Poplar1PublicShare, _>("poplar1", "Poplar1PublicShare", &format!("bits={bits}"), Shape::Fixed(poplar_public_segs(bits)), move |b| Poplar1PublicShare::get_decoded_with_param(&bits, b), peq::<Poplar1PublicShare>());
                e.honest = publics.clone();
                e.short_max = 1;
                cat.add(e);
            }
        }
        for i in 0..2usize {
            let v = vdaf.clone();
            let mut e = mk::<Poplar1InputShare<S>, _>("poplar1", "Poplar1InputShare", &format!("{inst}/agg{i}"), Shape::Fixed(poplar_input_segs(bits, S)), move |b| Poplar1InputShare::<S>::get_decoded_with_param(&(&*v, i), b), peq::<Poplar1InputShare<S>>());
            e.honest = inputs[i].clone();
            cat.add(e);
            let v = vdaf.clone();
            let mut e = mk::<Poplar1VerifierState, _>("poplar1", "Poplar1VerifierState", &format!("{inst}/agg{i}"), poplar_state_shape(), move |b| Poplar1VerifierState::get_decoded_with_param(&(&*v, i), b), peq::<Poplar1VerifierState>());
            // honest states of both rounds, inner and leaf; smallest first
            let mut hs: Vec<Vec<u8>> = trs.iter().flat_map(|t| t.tr.verify_states.iter().map(move |r| r[i].clone())).collect();
            hs.sort_by_key(|h| (h.len(), h.get(..2).map(|x| x.to_vec())));
            // keep one per (tags, length) class first
            let mut firsts: Vec<Vec<u8>> = vec![];
            let mut rest: Vec<Vec<u8>> = vec![];
            for h in hs {
                if firsts.iter().any(|f: &Vec<u8>| f.len() == h.len() && f[..2] == h[..2]) {
                    rest.push(h);
                } else {
                    firsts.push(h);
                }
            }
            firsts.sort_by_key(|h| (h[0], h[1], h.len()));
            let mut sel: Vec<Vec<u8>> = vec![];
            // interleave the four (variant, round) classes
            for cls in [(0u8, 0u8), (0, 1), (1, 0), (1, 1)] {
                if let Some(h) = firsts.iter().find(|h| (h[0], h[1]) == cls) {
                    sel.push(h.clone());
                }
            }
            for h in firsts.into_iter().chain(rest) {
                if !sel.contains(&h) {
                    sel.push(h);
                }
            }
            e.honest = sel;
            if i == 0 && (bits == bits_list[0] || bits == 65536) {
                e.extras = poplar_state_extras();
            }
            cat.add(e);
        }
        // verifier shares (sketch shares) and verifier messages, decoded with a state of each
        // (level, round); output and aggregate shares, decoded with (instance, parameter)
        let level_list: Vec<usize> = if honest { levels.clone() } else { vec![0, bits - 1] };
        for &level in &level_list {
            let leaf = level == bits - 1;
            let fd = if leaf { fd255() } else { fd64() };
            for round in 0..2usize {
                // a state to decode with: honest if available, else crafted from zeros
                let state_bytes: Vec<u8> = trs
                    .iter()
                    .find(|t| t.level == level)
                    .map(|t| t.tr.verify_states[round][0].clone())
                    .unwrap_or_else(|| {
                        let mut s = vec![leaf as u8, round as u8];
                        if round == 0 {
                            s.extend(vec![0u8; 2 * fd.size]);
                        }
                        s.extend(be(4, 1));
                        s.extend(vec![0u8; fd.size]);
                        s
                    });
                let Ok(st) = Poplar1VerifierState::get_decoded_with_param(&(&*vdaf, 0usize), &state_bytes) else {
                    cat.notes.push(format!("{inst}: no decodable state for level {level} round {round}"));
                    continue;
                };
                let st = Arc::new(st);
                let s2 = st.clone();
                let mut e = mk::<Poplar1FieldVec, _>("poplar1", "Poplar1FieldVec", &format!("{inst}/state(level={level},round={round})"), Shape::Fixed(vec![Seg::Field(fd.clone(), if round == 0 { 3 } else { 1 })]), move |b| Poplar1FieldVec::get_decoded_with_param(&*s2, b), peq::<Poplar1FieldVec>());
                e.honest = trs.iter().filter(|t| t.level == level).flat_map(|t| t.tr.verifier_shares[round].iter().cloned()).collect();
                if level > 0 && level + 2 < bits {
                    e.short_max = 1;
                }
                cat.add(e);
                let s2 = st.clone();
                let mut e = mk::<Poplar1VerifierMessage, _>("poplar1", "Poplar1VerifierMessage", &format!("{inst}/state(level={level},round={round})"), Shape::Fixed(if round == 0 { vec![Seg::Field(fd.clone(), 3)] } else { vec![] }), move |b| Poplar1VerifierMessage::get_decoded_with_param(&*s2, b), peq::<Poplar1VerifierMessage>());
                e.honest = trs.iter().filter(|t| t.level == level).map(|t| t.tr.verifier_messages[round].clone()).collect();
                if level > 0 && level + 2 < bits {
                    e.short_max = 1;
                }
                cat.add(e);
            }
            let mut seen_counts: Vec<usize> = vec![];
            for (_, ap) in aps.iter().filter(|(l, _)| *l == level) {
                let np = ap.prefixes().len();
                if seen_counts.contains(&np) {
                    continue;
                }
                seen_counts.push(np);
                let (v, a) = (vdaf.clone(), ap.clone());
                let mut e = mk::<Poplar1FieldVec, _>("poplar1", "Poplar1FieldVec", &format!("{inst}/agg_param(level={level},prefixes={np})"), Shape::Fixed(vec![Seg::Field(fd.clone(), np)]), move |b| Poplar1FieldVec::get_decoded_with_param(&(&*v, &*a), b), peq::<Poplar1FieldVec>());
                for t in trs.iter().filter(|t| t.level == level && t.ap.prefixes().len() == np) {
                    e.honest.extend(t.tr.output_shares.iter().cloned());
                    // aggregate share of this one report (and of the report twice)
                    for reps in [1usize, 2] {
                        if let Ok(o) = Poplar1FieldVec::get_decoded_with_param(&(&*vdaf, &*t.ap), &t.tr.output_shares[0]) {
                            if let Ok(Ok(a)) = catch(|| vdaf.aggregate(&t.ap, std::iter::repeat(o.clone()).take(reps))) {
                                if let Ok(b) = a.get_encoded() {
                                    e.honest.push(b);
                                }
                            }
                        }
                    }
                }
                if level > 0 && level + 2 < bits {
                    e.short_max = 1;
                }
                cat.add(e);
            }
        }
        // ping-pong over this instance
        if pingpong_bits.contains(&bits) {
            let msgs: Vec<Vec<u8>> = pp.iter().flat_map(|r| r.messages.iter().cloned()).collect();
            cat.add(pingpong_message_entry(&inst, msgs, false));
            for i in 0..2usize {
                let v = vdaf.clone();
                let (f64d, f255d) = (fd64(), fd255());
                let shape = Shape::Custom(Box::new(move |rp: &mut Rp| {
                    // state, then the verifier message the state implies
                    let fd = if rp.tag(&[0, 1])? == 0 { &f64d } else { &f255d };
                    let round_one = rp.tag(&[0, 1])? == 0;
                    if round_one {
                        rp.fields(fd, 2)?;
                    }
                    let n = rp.len(4)? as usize;
                    if rp.remaining() / fd.size < n {
                        return None;
                    }
                    rp.fields(fd, n)?;
                    if round_one {
                        rp.fields(fd, 3)?;
                    }
                    Some(())
                }));
                let mut e = mk::<PingPongContinuation<S, 16, Poplar1<P, S>>, _>(
                    "pingpong",
                    "PingPongContinuation",
                    &format!("{inst}/agg{i}"),
                    shape,
                    move |b| PingPongContinuation::<S, 16, Poplar1<P, S>>::get_decoded_with_param(&(&*v, i), b),
                    peq::<PingPongContinuation<S, 16, Poplar1<P, S>>>(),
                );
                let mut hs: Vec<Vec<u8>> = pp.iter().flat_map(|r| r.continuations.iter().filter(|(w, _)| *w == i).map(|(_, b)| b.clone())).collect();
                hs.sort_by_key(|h| (h.len(), h[..2].to_vec()));
                hs.dedup();
                // one of each (variant, round) class first
                let mut sel: Vec<Vec<u8>> = vec![];
                for cls in [(0u8, 0u8), (0, 1), (1, 0), (1, 1)] {
                    if let Some(h) = hs.iter().find(|h| (h[0], h[1]) == cls) {
                        sel.push(h.clone());
                    }
                }
                for h in hs {
                    if !sel.contains(&h) {
                        sel.push(h);
                    }
                }
                e.honest = sel;
                if i == 0 {
                    // crafted inner lengths: the state extras, alone and followed by a zero message
                    for (k, s) in poplar_state_extras() {
                        if k == "output_share_len" {
                            let fsz = if s[0] == 0 { 8 } else { 32 };
                            e.extras.push((format!("state:{k}"), s.clone()));
                            if s[1] == 0 {
                                e.extras.push((format!("state:{k}+msg"), [s, vec![0u8; 3 * fsz]].concat()));
                            }
                        }
                    }
                }
                cat.add(e);
            }
        }
    }
}

/// The inadmissible instance `Poplar1::new(0)` (constructible; its decoders compute `bits - 1`).
fn poplar1_bits0(cat: &mut Catalogue) {
    let vdaf: Arc<Poplar1<XofTurboShake128, 32>> = Arc::new(Poplar1::new(0));
    let mut strings: Vec<(String, Vec<u8>)> = bodies().into_iter().map(|b| ("body".to_string(), b)).collect();
    for l in [64usize, 96, 112, 128, 200] {
        strings.push(("body".to_string(), vec![0u8; l]));
    }
    let v = vdaf.clone();
    let mut es = vec![
        mk::<Poplar1PublicShare, _>("param", "poplar1_bits0/Poplar1PublicShare", "&vdaf", Shape::NoReference, move |b| Poplar1PublicShare::get_decoded_with_param(&*v, b), peq::<Poplar1PublicShare>()),
        mk::<Poplar1PublicShare, _>("param", "poplar1_bits0/Poplar1PublicShare", "bits=0", Shape::NoReference, move |b| Poplar1PublicShare::get_decoded_with_param(&0usize, b), peq::<Poplar1PublicShare>()),
    ];
    let v = vdaf.clone();
    es.push(mk::<Poplar1InputShare<32>, _>("param", "poplar1_bits0/Poplar1InputShare", "(&vdaf,0)", Shape::NoReference, move |b| Poplar1InputShare::<32>::get_decoded_with_param(&(&*v, 0usize), b), peq::<Poplar1InputShare<32>>()));
    let v = vdaf.clone();
    es.push(mk::<Poplar1VerifierState, _>("param", "poplar1_bits0/Poplar1VerifierState", "(&vdaf,0)", Shape::NoReference, move |b| Poplar1VerifierState::get_decoded_with_param(&(&*v, 0usize), b), peq::<Poplar1VerifierState>()));
    let v = vdaf.clone();
    let ap = Arc::new(Poplar1AggregationParam::try_from_prefixes(vec![IdpfInput::from_bools(&[false])]).unwrap());
    es.push(mk::<Poplar1FieldVec, _>("param", "poplar1_bits0/Poplar1FieldVec", "(&vdaf,&agg_param(level=0))", Shape::NoReference, move |b| Poplar1FieldVec::get_decoded_with_param(&(&*v, &*ap), b), peq::<Poplar1FieldVec>()));
    for mut e in es {
        e.extras = strings.clone();
        e.short_max = 1;
        cat.add(e);
    }
}


/// Admissible instances whose declared sizes are enormous (a histogram chunk length of 2^27 or 2^61, a sum
/// vector of 2^40 elements, Prio2 at its maximum length): decoding a SHORT byte string under such a parameter
/// must return an error promptly — no panic ("capacity overflow") and no allocation proportional to the
/// declared size before the input has been looked at.
fn huge_instances(cat: &mut Catalogue) {
    use prio::vdaf::{AggregateShare, OutputShare};
    let mut strings: Vec<(String, Vec<u8>)> = bodies().into_iter().map(|b| ("body".to_string(), b)).collect();
    for l in [64usize, 200, 1000, 4096] {
        strings.push(("body".to_string(), vec![0u8; l]));
        strings.push(("body".to_string(), (0..l).map(|i| (i * 37 + 11) as u8).collect()));
    }
    let mut es: Vec<Entry> = vec![];
    for (label, len, chunk) in [("len=4,chunk=2^61", 4usize, 1usize << 61), ("len=4,chunk=2^27", 4, 1 << 27), ("len=2^31,chunk=2^15", 1 << 31, 1 << 15)] {
        let Ok(vdaf) = Prio3::new_histogram(2, len, chunk) else {
            cat.notes.push(format!("Prio3::new_histogram(2, {label}) refused"));
            continue;
        };
        let vdaf = Arc::new(vdaf);
        let inst = format!("huge/Prio3Histogram({label})");
        let v = vdaf.clone();
        es.push(mk::<Prio3InputShare<Field128, 32>, _>("param", &format!("{inst}/Prio3InputShare"), "(&vdaf,0)", Shape::NoReference, move |b| Prio3InputShare::<Field128, 32>::get_decoded_with_param(&(&*v, 0usize), b), None));
        let v = vdaf.clone();
        es.push(mk::<Prio3InputShare<Field128, 32>, _>("param", &format!("{inst}/Prio3InputShare"), "(&vdaf,1)", Shape::NoReference, move |b| Prio3InputShare::<Field128, 32>::get_decoded_with_param(&(&*v, 1usize), b), None));
        let v = vdaf.clone();
        es.push(mk::<Prio3VerifyState<Field128, 32>, _>("param", &format!("{inst}/Prio3VerifyState"), "(&vdaf,0)", Shape::NoReference, move |b| Prio3VerifyState::<Field128, 32>::get_decoded_with_param(&(&*v, 0usize), b), None));
        let v = vdaf.clone();
        es.push(mk::<Prio3PublicShare<32>, _>("param", &format!("{inst}/Prio3PublicShare"), "&vdaf", Shape::NoReference, move |b| Prio3PublicShare::<32>::get_decoded_with_param(&*v, b), None));
        let v = vdaf.clone();
        es.push(mk::<OutputShare<Field128>, _>("param", &format!("{inst}/OutputShare"), "(&vdaf,&())", Shape::NoReference, move |b| OutputShare::<Field128>::get_decoded_with_param(&(&*v, &()), b), None));
        let v = vdaf.clone();
        es.push(mk::<AggregateShare<Field128>, _>("param", &format!("{inst}/AggregateShare"), "(&vdaf,&())", Shape::NoReference, move |b| AggregateShare::<Field128>::get_decoded_with_param(&(&*v, &()), b), None));
    }
    if let Ok(vdaf) = Prio3::new_sum_vec(2, 1, 1 << 40, 1 << 20) {
        let vdaf = Arc::new(vdaf);
        let v = vdaf.clone();
        es.push(mk::<Prio3InputShare<Field128, 32>, _>("param", "huge/Prio3SumVec(len=2^40)/Prio3InputShare", "(&vdaf,0)", Shape::NoReference, move |b| Prio3InputShare::<Field128, 32>::get_decoded_with_param(&(&*v, 0usize), b), None));
        let v = vdaf.clone();
        es.push(mk::<OutputShare<Field128>, _>("param", "huge/Prio3SumVec(len=2^40)/OutputShare", "(&vdaf,&())", Shape::NoReference, move |b| OutputShare::<Field128>::get_decoded_with_param(&(&*v, &()), b), None));
    }
    if let Ok(vdaf) = Prio2::new((1 << 19) - 1) {
        let vdaf = Arc::new(vdaf);
        let v = vdaf.clone();
        es.push(mk::<Share<FieldPrio2, 32>, _>("param", "huge/Prio2(len=2^19-1)/Share", "(&vdaf,0)", Shape::NoReference, move |b| Share::<FieldPrio2, 32>::get_decoded_with_param(&(&*v, 0usize), b), None));
        let v = vdaf.clone();
        es.push(mk::<OutputShare<FieldPrio2>, _>("param", "huge/Prio2(len=2^19-1)/OutputShare", "(&vdaf,&())", Shape::NoReference, move |b| OutputShare::<FieldPrio2>::get_decoded_with_param(&(&*v, &()), b), None));
    }
    for mut e in es {
        e.extras = strings.clone();
        e.short_max = 1;
        cat.add(e);
    }
}

// ------------------------------------------------------------------------------------------------
// Prio2

fn prio2_family(cat: &mut Catalogue, pf: &Profile) {
    let tps = tapes(pf);
    let fd = fd_prio2();
    let lens: Vec<usize> = if pf.thorough { vec![1, 2, 3, 4, 7, 8, 9, 16, 31] } else { vec![1, 2, 3, 8, 9] };
    for input_len in lens {
        let vdaf = match Prio2::new(input_len) {
            Ok(v) => Arc::new(v),
            Err(e) => {
                cat.notes.push(format!("Prio2::new({input_len}) refused: {e}"));
                continue;
            }
        };
        let inst = format!("Prio2(len={input_len})");
        // reference proof length: data, f(0), g(0), h(0) and the n odd-indexed points of h, n = next_pow2(len+1)
        let plen = input_len + 3 + (input_len + 1).next_power_of_two();
        let mut trs: Vec<Transcript> = vec![];
        let mut outs: [Vec<OutputShare<FieldPrio2>>; 2] = [vec![], vec![]];
        let mut pp: Vec<PingPongRun> = vec![];
        for (ti, (tname, tape)) in tps.iter().enumerate() {
            let meas: Vec<u32> = (0..input_len).map(|i| ((ti + i) % 2) as u32).collect();
            let nonce: [u8; 16] = tape.array(21);
            let vk: [u8; 32] = tape.array(22);
            prio::verif_hooks::prio2::set_shard_helper_seed(Some(tape.array(23)));
            prio::verif_hooks::prio2::set_shard_proof_seed(Some(tape.array(24)));
            let r = catch(|| vdaf.shard(b"c07", &meas, &nonce));
            prio::verif_hooks::prio2::set_shard_helper_seed(None);
            prio::verif_hooks::prio2::set_shard_proof_seed(None);
            let ((), shares) = match r {
                Ok(Ok(x)) => x,
                other => {
                    cat.notes.push(format!("{inst}: sharding failed on tape {tname}: {:?}", other.map(|r| r.map(|_| ()).map_err(|e| e.to_string()))));
                    continue;
                }
            };
            for (i, s) in shares.iter().enumerate() {
                if let Ok(b) = s.get_encoded() {
                    if let Ok(d) = Share::<FieldPrio2, 32>::get_decoded_with_param(&(&*vdaf, i), &b) {
                        if d != *s {
                            cat.findings.push(BuildFinding { key: format!("prio2/Share/roundtrip_eq/{inst}/agg{i}"), what: format!("{inst}: decode(encode(input share {i})) != input share"), case: json!({"instance": inst, "agg": i, "bytes": hex(&b)}) });
                        }
                    }
                }
            }
            match verify_report::<Prio2, 32>(&vdaf, &vk, b"c07", &(), &nonce, &(), &shares, &VerifyOpts::wire()) {
                Ok((o, tr)) => {
                    for (i, x) in o.into_iter().enumerate() {
                        outs[i].push(x);
                    }
                    trs.push(tr);
                    match catch(|| pingpong_run::<Prio2, 32>(&vdaf, &vk, b"c07", &(), &nonce, &(), &shares)) {
                        Ok(Ok(r)) => pp.push(r),
                        Ok(Err(e)) => cat.findings.push(BuildFinding { key: format!("pingpong/run/{inst}"), what: format!("{inst}: honest ping-pong run failed: {e}"), case: json!({"instance": inst, "tape": tname}) }),
                        Err(m) => cat.findings.push(BuildFinding { key: format!("pingpong/run_panic/{inst}"), what: format!("{inst}: honest ping-pong run panicked: {m}"), case: json!({"instance": inst, "tape": tname}) }),
                    }
                }
                Err(Failure { stage, msg }) => {
                    if codec_stage(&stage) {
                        cat.findings.push(BuildFinding { key: wire_key("prio2", &stage, &msg, &inst), what: format!("{inst}: honest message failed its wire round trip at {stage:?}: {msg}"), case: json!({"instance": inst, "tape": tname}) });
                    } else {
                        cat.notes.push(format!("{inst}: honest report not verified on tape {tname} ({stage:?}: {msg})"));
                    }
                }
            }
        }
        let mut states: Vec<Option<Arc<Prio2VerifierState>>> = vec![];
        for i in 0..2usize {
            let v = vdaf.clone();
            let segs = if i == 0 { vec![Seg::Field(fd.clone(), plen)] } else { vec![Seg::Opaque(32)] };
            let mut e = mk::<Share<FieldPrio2, 32>, _>("prio2", "Share<FieldPrio2,32>", &format!("{inst}/agg{i}"), Shape::Fixed(segs), move |b| Share::<FieldPrio2, 32>::get_decoded_with_param(&(&*v, i), b), peq::<Share<FieldPrio2, 32>>());
            e.honest = trs.iter().map(|t| t.input_shares[i].clone()).collect();
            cat.add(e);
            let v = vdaf.clone();
            let segs = if i == 0 { vec![Seg::Field(fd.clone(), input_len)] } else { vec![Seg::Opaque(32)] };
            let mut e = mk::<Prio2VerifierState, _>("prio2", "Prio2VerifierState", &format!("{inst}/agg{i}"), Shape::Fixed(segs), move |b| Prio2VerifierState::get_decoded_with_param(&(&*v, i), b), peq::<Prio2VerifierState>());
            e.honest = trs.iter().map(|t| t.verify_states[0][i].clone()).collect();
            states.push(trs.first().and_then(|t| Prio2VerifierState::get_decoded_with_param(&(&*vdaf, i), &t.verify_states[0][i]).ok()).map(Arc::new));
            cat.add(e);
        }
        {
            let v = vdaf.clone();
            let mut e = mk::<Share<FieldPrio2, 32>, _>("prio2", "Share<FieldPrio2,32>", &format!("{inst}/agg2(out of range)"), Shape::Custom(Box::new(|_| None)), move |b| Share::<FieldPrio2, 32>::get_decoded_with_param(&(&*v, 2usize), b), peq::<Share<FieldPrio2, 32>>());
            for t in trs.iter().take(1) {
                for s in &t.input_shares {
                    e.extras.push(("honest-other-id".into(), s.clone()));
                }
            }
            e.short_max = 1;
            cat.add(e);
        }
        for i in 0..2usize {
            let Some(st) = states[i].clone() else { continue };
            let s2 = st.clone();
            let mut e = mk::<Prio2VerifierShare, _>("prio2", "Prio2VerifierShare", &format!("{inst}/state{i}"), Shape::Fixed(vec![Seg::Field(fd.clone(), 3)]), move |b| Prio2VerifierShare::get_decoded_with_param(&*s2, b), None);
            e.honest = trs.iter().flat_map(|t| t.verifier_shares[0].iter().cloned()).collect();
            cat.add(e);
            let s2 = st.clone();
            let mut e = mk::<(), _>("prio2", "()", &format!("{inst}/state{i} (verifier message)"), Shape::Fixed(vec![]), move |b| <()>::get_decoded_with_param(&*s2, b), peq::<()>());
            e.honest.push(vec![]);
            e.short_max = 1;
            cat.add(e);
        }
        let v = vdaf.clone();
        let mut e = mk::<OutputShare<FieldPrio2>, _>("prio2", "OutputShare<FieldPrio2>", &inst, Shape::Fixed(vec![Seg::Field(fd.clone(), input_len)]), move |b| OutputShare::<FieldPrio2>::get_decoded_with_param(&(&*v, &()), b), peq::<OutputShare<FieldPrio2>>());
        e.honest = trs.iter().flat_map(|t| t.output_shares.iter().cloned()).collect();
        cat.add(e);
        let v = vdaf.clone();
        let mut e = mk::<AggregateShare<FieldPrio2>, _>("prio2", "AggregateShare<FieldPrio2>", &inst, Shape::Fixed(vec![Seg::Field(fd.clone(), input_len)]), move |b| AggregateShare::<FieldPrio2>::get_decoded_with_param(&(&*v, &()), b), peq::<AggregateShare<FieldPrio2>>());
        for o in outs.iter().filter(|o| !o.is_empty()) {
            if let Ok(Ok(a)) = catch(|| vdaf.aggregate(&(), o.iter().cloned())) {
                if let Ok(b) = a.get_encoded() {
                    e.honest.push(b);
                }
            }
        }
        cat.add(e);
        // the impls are generic in the field: another field under the same parameter
        let v = vdaf.clone();
        let mut e = mk::<OutputShare<Field128>, _>("prio2", "OutputShare<Field128>", &inst, Shape::Fixed(vec![Seg::Field(fd128(), input_len)]), move |b| OutputShare::<Field128>::get_decoded_with_param(&(&*v, &()), b), peq::<OutputShare<Field128>>());
        e.short_max = 1;
        cat.add(e);
        let v = vdaf.clone();
        let mut e = mk::<AggregateShare<Field255>, _>("prio2", "AggregateShare<Field255>", &inst, Shape::Fixed(vec![Seg::Field(fd255(), input_len)]), move |b| AggregateShare::<Field255>::get_decoded_with_param(&(&*v, &()), b), peq::<AggregateShare<Field255>>());
        e.short_max = 1;
        cat.add(e);
        // ping-pong
        if input_len <= 3 {
            let msgs: Vec<Vec<u8>> = pp.iter().flat_map(|r| r.messages.iter().cloned()).collect();
            cat.add(pingpong_message_entry(&inst, msgs, false));
            for i in 0..2usize {
                let v = vdaf.clone();
                let segs = if i == 0 { vec![Seg::Field(fd.clone(), input_len)] } else { vec![Seg::Opaque(32)] };
                let mut e = mk::<PingPongContinuation<32, 16, Prio2>, _>("pingpong", "PingPongContinuation", &format!("{inst}/agg{i}"), Shape::Fixed(segs), move |b| PingPongContinuation::<32, 16, Prio2>::get_decoded_with_param(&(&*v, i), b), peq::<PingPongContinuation<32, 16, Prio2>>());
                e.honest = pp.iter().flat_map(|r| r.continuations.iter().filter(|(w, _)| *w == i).map(|(_, b)| b.clone())).collect();
                cat.add(e);
            }
        }
    }
}

// ------------------------------------------------------------------------------------------------
// dummy VDAF (feature test-util)

fn dummy_family(cat: &mut Catalogue, _pf: &Profile) {
    let mut pp_all: Vec<PingPongRun> = vec![];
    let mut cont_by_rounds: Vec<(u32, Arc<dummy::Vdaf>, Vec<PingPongRun>)> = vec![];
    for rounds in 1..=3u32 {
        let vdaf = Arc::new(dummy::Vdaf::new(rounds));
        let mut runs = vec![];
        for (m, ap) in [(0u8, 0u8), (1, 7), (255, 255)] {
            let nonce = [m; 16];
            let shares = vec![dummy::InputShare(m), dummy::InputShare(m.wrapping_add(1))];
            let ap = dummy::AggregationParam(ap);
            match catch(|| pingpong_run::<dummy::Vdaf, 0>(&vdaf, &[], b"c07", &ap, &nonce, &(), &shares)) {
                Ok(Ok(r)) => runs.push(r),
                Ok(Err(e)) => cat.findings.push(BuildFinding { key: format!("pingpong/run/dummy(rounds={rounds})"), what: format!("dummy VDAF (rounds={rounds}): honest ping-pong run failed: {e}"), case: json!({"rounds": rounds}) }),
                Err(m) => cat.findings.push(BuildFinding { key: format!("pingpong/run_panic/dummy(rounds={rounds})"), what: format!("dummy VDAF (rounds={rounds}): honest ping-pong run panicked: {m}"), case: json!({"rounds": rounds}) }),
            }
        }
        cont_by_rounds.push((rounds, vdaf, runs));
    }
    for (rounds, vdaf, runs) in cont_by_rounds {
        for i in 0..2usize {
            let v = vdaf.clone();
            let mut e = mk::<PingPongContinuation<0, 16, dummy::Vdaf>, _>("pingpong", "PingPongContinuation", &format!("dummy(rounds={rounds})/agg{i}"), Shape::Fixed(vec![Seg::Opaque(1), Seg::Opaque(4)]), move |b| PingPongContinuation::<0, 16, dummy::Vdaf>::get_decoded_with_param(&(&*v, i), b), peq::<PingPongContinuation<0, 16, dummy::Vdaf>>());
            e.honest = runs.iter().flat_map(|r| r.continuations.iter().filter(|(w, _)| *w == i).map(|(_, b)| b.clone())).collect();
            cat.add(e);
        }
        pp_all.extend(runs);
    }
    // PingPongMessage has no decoding parameter: one entry carries the crafted header extremes
    let msgs: Vec<Vec<u8>> = pp_all.iter().flat_map(|r| r.messages.iter().cloned()).collect();
    cat.add(pingpong_message_entry("dummy", msgs, true));
    // the dummy VDAF's own types
    let mut e = mk::<dummy::InputShare, _>("dummy", "dummy::InputShare", "-", Shape::Fixed(vec![Seg::Opaque(1)]), |b| dummy::InputShare::get_decoded(b), peq::<dummy::InputShare>());
    e.honest = vec![dummy::InputShare(0).get_encoded().unwrap(), dummy::InputShare(255).get_encoded().unwrap()];
    cat.add(e);
    let mut e = mk::<dummy::AggregationParam, _>("dummy", "dummy::AggregationParam", "-", Shape::Fixed(vec![Seg::Opaque(1)]), |b| dummy::AggregationParam::get_decoded(b), peq::<dummy::AggregationParam>());
    e.honest = vec![dummy::AggregationParam(0).get_encoded().unwrap(), dummy::AggregationParam(255).get_encoded().unwrap()];
    cat.add(e);
    let mut e = mk::<dummy::OutputShare, _>("dummy", "dummy::OutputShare", "-", Shape::Fixed(vec![Seg::Opaque(8)]), |b| dummy::OutputShare::get_decoded(b), peq::<dummy::OutputShare>());
    e.honest = vec![dummy::OutputShare(0).get_encoded().unwrap(), dummy::OutputShare(u64::MAX).get_encoded().unwrap(), dummy::OutputShare(0x0102030405060708).get_encoded().unwrap()];
    cat.add(e);
    let mut e = mk::<dummy::AggregateShare, _>("dummy", "dummy::AggregateShare", "-", Shape::Fixed(vec![Seg::Opaque(8)]), |b| dummy::AggregateShare::get_decoded(b), peq::<dummy::AggregateShare>());
    e.honest = vec![dummy::AggregateShare(0).get_encoded().unwrap(), dummy::AggregateShare(u64::MAX).get_encoded().unwrap()];
    cat.add(e);
    let mut e = mk::<dummy::VerifierState, _>("dummy", "dummy::VerifierState", "-", Shape::Fixed(vec![Seg::Opaque(1), Seg::Opaque(4)]), |b| dummy::VerifierState::get_decoded(b), peq::<dummy::VerifierState>());
    e.honest = vec![vec![0, 0, 0, 0, 0], vec![0xff, 0xff, 0xff, 0xff, 0xff], vec![7, 0, 0, 0, 2]];
    cat.add(e);
}

// ------------------------------------------------------------------------------------------------

pub fn build(pf: &Profile) -> Catalogue {
    let mut cat = Catalogue::default();
    primitives(&mut cat, pf);
    cat.add(agg_param_entry(pf));
    dummy_family(&mut cat, pf);
    prio2_family(&mut cat, pf);
    let small: Vec<usize> = (1..=9).collect();
    poplar1_family::<XofTurboShake128, 32>(&mut cat, pf, "XofTurboShake128", &small, true, &[1, 2, 3, 9]);
    poplar1_family::<XofFixedKeyAes128, 16>(&mut cat, pf, "XofFixedKeyAes128", &small, true, &[2]);
    if pf.wide {
        let wide: Vec<usize> = if pf.thorough { (10..=64).chain([65536]).collect() } else { vec![10, 16, 31, 32, 33, 63, 64, 65536] };
        poplar1_family::<XofTurboShake128, 32>(&mut cat, pf, "XofTurboShake128", &wide, false, &[]);
    }
    prio3_all(&mut cat, pf);
    if pf.bits0 {
        poplar1_bits0(&mut cat);
        huge_instances(&mut cat);
    }
    cat
}
