//! C20 — aggregation-parameter admissibility matches the specification for all histories.
//!
//! Engine: explicit-state enumeration of histories. The state is the full history of aggregation
//! parameters used with a report (not just "the last one", so first-vs-last confusions stay
//! visible); a transition offers a candidate parameter to the real `is_agg_param_valid`; the
//! reference is the specification predicate over `Vec<bool>` prefixes. Constructor and decoder are
//! checked on every prefix list / every byte string of a bounded grammar.
use prio::codec::{Decode, Encode};
use prio::idpf::IdpfInput;
use prio::vdaf::poplar1::{Poplar1, Poplar1AggregationParam};
use prio::vdaf::prio2::Prio2;
use prio::vdaf::prio3::Prio3Count;
use prio::vdaf::xof::XofTurboShake128;
use prio::vdaf::Aggregator;
use pvh::engine::{catch, fnv, hex, par, Level, Run};
use serde_json::json;
use std::sync::atomic::{AtomicU64, Ordering};

type Pop = Poplar1<XofTurboShake128, 32>;

#[derive(Clone, Debug, PartialEq, Eq)]
struct RefParam {
    level: usize,
    prefixes: Vec<Vec<bool>>,
}

/// Specification: valid iff nothing was used before, or the level strictly increased over the most
/// recent one and every candidate prefix extends one of the most recent candidates.
fn spec_valid(cur: &RefParam, prev: &[RefParam]) -> bool {
    match prev.last() {
        None => true,
        Some(last) => cur.level > last.level && cur.prefixes.iter().all(|p| last.prefixes.iter().any(|q| p[..=last.level] == q[..])),
    }
}

fn all_params(bits: usize, max_set: usize) -> Vec<RefParam> {
    let mut out = vec![];
    for level in 0..bits {
        let n = 1usize << (level + 1);
        let prefixes: Vec<Vec<bool>> = (0..n).map(|v| (0..=level).map(|k| (v >> (level - k)) & 1 == 1).collect()).collect();
        for mask in 1u64..(1u64 << n) {
            if (mask.count_ones() as usize) > max_set && mask != (1u64 << n) - 1 {
                continue;
            }
            let set: Vec<Vec<bool>> = (0..n).filter(|i| (mask >> i) & 1 == 1).map(|i| prefixes[i].clone()).collect();
            out.push(RefParam { level, prefixes: set });
        }
    }
    out
}

fn build(p: &RefParam) -> Poplar1AggregationParam {
    Poplar1AggregationParam::try_from_prefixes(p.prefixes.iter().map(|b| IdpfInput::from_bools(b)).collect()).expect("reference parameter must be constructible")
}

fn histories(run: &Run, bits: usize, max_set: usize, hist_len: usize, first_pool: usize) {
    histories_over(run, bits, all_params(bits, max_set), hist_len, first_pool)
}

/// Parameters at deep levels around `anchor` (prefixes of up to anchor+3 bits): all subsets of size <= 2
/// of a family of strings that agree everywhere except in one position (first bits, bits around
/// anchor-64, the last bits), all-ones and an alternating string — so that any shortcut that looks at
/// a window of the prefixes (truncation to a machine word, hashing of a suffix) makes two of them collide.
fn deep_params(anchor: usize) -> Vec<RefParam> {
    let width = anchor + 3;
    let mut seeds: Vec<Vec<bool>> = vec![vec![false; width], vec![true; width], (0..width).map(|i| i % 2 == 1).collect()];
    let mut pos = vec![0, 1, anchor - 1, anchor, anchor + 1];
    for back in [8usize, 32, 64, 65, 128] {
        if anchor >= back {
            pos.push(anchor - back);
            pos.push(anchor + 1 - back);
        }
    }
    pos.sort();
    pos.dedup();
    for j in pos {
        let mut v = vec![false; width];
        v[j] = true;
        seeds.push(v);
    }
    let mut out = vec![];
    for level in [anchor - 1, anchor, anchor + 1, anchor + 2] {
        let mut pre: Vec<Vec<bool>> = seeds.iter().map(|s| s[..=level].to_vec()).collect();
        pre.sort();
        pre.dedup();
        for i in 0..pre.len() {
            out.push(RefParam { level, prefixes: vec![pre[i].clone()] });
            for j in i + 1..pre.len() {
                out.push(RefParam { level, prefixes: vec![pre[i].clone(), pre[j].clone()] });
            }
        }
    }
    out
}

fn histories_over(run: &Run, bits: usize, refs: Vec<RefParam>, hist_len: usize, first_pool: usize) {
    // building a reference parameter (non-empty, equal lengths, strictly increasing) must succeed
    let mut real: Vec<Poplar1AggregationParam> = vec![];
    for r in &refs {
        match catch(|| Poplar1AggregationParam::try_from_prefixes(r.prefixes.iter().map(|b| IdpfInput::from_bools(b)).collect())) {
            Ok(Ok(p)) => real.push(p),
            other => {
                run.fail(&format!("try_from_prefixes/rejected_valid/bits={bits}"), &format!("try_from_prefixes refused (or panicked on) an admissible list of {} prefixes of {} bits: {:?}", r.prefixes.len(), r.prefixes.first().map(|p| p.len()).unwrap_or(0), other.map(|x| x.map(|_| ()).map_err(|e| e.to_string()))), json!({"bits": bits, "prefixes": r.prefixes.len()}));
                return;
            }
        }
    }
    let n = refs.len();
    run.note(&format!("params_bits{bits}"), json!(n));
    // histories of length 0..=hist_len; the earlier entries come from the first `first_pool` params
    // (all params when first_pool >= n), the most recent one from all params
    let pool = first_pool.min(n);
    let mut hists: Vec<Vec<usize>> = vec![vec![]];
    let mut frontier: Vec<Vec<usize>> = vec![vec![]];
    for depth in 1..=hist_len {
        let mut next = vec![];
        for h in &frontier {
            let range = if depth == hist_len || hist_len == 1 { n } else { pool };
            // the LAST element must range over everything; earlier ones over the pool
            for i in 0..range {
                let mut g = h.clone();
                g.push(i);
                next.push(g);
            }
        }
        hists.extend(next.iter().cloned());
        frontier = next;
    }
    // also: every history of length `hist_len` with the last element from the pool and the earlier
    // from all (so that "uses prev.first()" is distinguishable in both directions)
    if hist_len >= 2 && pool < n {
        for a in 0..n {
            for b in 0..pool {
                hists.push(vec![a, b]);
            }
        }
    }
    hists.sort();
    hists.dedup();
    let states = hists.len() as u64;
    let transitions = AtomicU64::new(0);
    let accepted = AtomicU64::new(0);
    par::for_each(states, |hi| {
        let h = &hists[hi as usize];
        let prev_ref: Vec<RefParam> = h.iter().map(|i| refs[*i].clone()).collect();
        let prev_real: Vec<Poplar1AggregationParam> = h.iter().map(|i| real[*i].clone()).collect();
        let mut acc = 0u64;
        for c in 0..n {
            let want = spec_valid(&refs[c], &prev_ref);
            let got = match catch(|| Pop::is_agg_param_valid(&real[c], &prev_real)) {
                Ok(g) => g,
                Err(m) => {
                    run.fail(&format!("poplar1/bits={bits}/is_agg_param_valid_panic"), &format!("is_agg_param_valid panicked: {m}"), json!({"bits": bits, "history": h, "candidate": c}));
                    return;
                }
            };
            if got {
                acc += 1;
            }
            if got != want {
                let what = if got { "accepted_inadmissible" } else { "rejected_admissible" };
                run.fail(&format!("poplar1/bits={bits}/{what}/hist_len={}", h.len()), &format!("Poplar1(bits={bits}): history {:?} then candidate {:?}: is_agg_param_valid = {got}, specification says {want}", prev_ref, refs[c]), json!({"bits": bits, "history": prev_ref.iter().map(|p| json!({"level": p.level, "prefixes": p.prefixes})).collect::<Vec<_>>(), "candidate": {"level": refs[c].level, "prefixes": refs[c].prefixes}}));
                return;
            }
        }
        transitions.fetch_add(n as u64, Ordering::Relaxed);
        accepted.fetch_add(acc, Ordering::Relaxed);
    });
    run.count("states", states);
    run.count("transitions", transitions.load(Ordering::Relaxed));
    run.count("evaluations", transitions.load(Ordering::Relaxed));
    run.count("accepted_transitions", accepted.load(Ordering::Relaxed));
    run.distinct_many(hists.iter().take(200_000).map(|h| fnv(format!("{bits}/{:?}", h).as_bytes())));
    run.sample(json!({"bits": bits, "params": n, "histories": states, "max_history_len": hist_len, "example_history": hists[hists.len() / 2].iter().map(|i| json!({"level": refs[*i].level, "prefixes": refs[*i].prefixes})).collect::<Vec<_>>()}));
}

fn lex_lt(a: &[bool], b: &[bool]) -> bool {
    a < b
}

/// An IdpfInput equal to `prefix` whose bit storage starts `offset` bits into a word (public `From<BitBox>`).
fn unaligned(prefix: &[bool], offset: usize) -> IdpfInput {
    use bitvec::prelude::*;
    let mut bv: BitVec<usize, Lsb0> = BitVec::new();
    for i in 0..offset {
        bv.push(i % 2 == 0);
    }
    bv.extend(prefix.iter().copied());
    let bb: BitBox<usize, Lsb0> = BitBox::from_bitslice(&bv[offset..]);
    IdpfInput::from(bb)
}

/// The aligned and the unaligned construction of the same prefix list must agree: same verdict, equal
/// values, identical encodings, identical admissibility answers.
fn twin_check(run: &Run, ps: &[&Vec<bool>], aligned: &Result<Poplar1AggregationParam, String>) {
    let offs = [3usize, 0, 1, 7, 5];
    let res = catch(|| Poplar1AggregationParam::try_from_prefixes(ps.iter().enumerate().map(|(j, b)| unaligned(b, offs[j % 5])).collect()));
    run.count("evaluations", 1);
    run.count("unaligned_twins", 1);
    let case = json!({"prefixes": ps, "storage_offsets": offs});
    match (res, aligned) {
        (Err(m), _) => run.fail("try_from_prefixes/unaligned/panic", &format!("try_from_prefixes panicked on unaligned storage of {:?}: {m}", ps), case),
        (Ok(Err(_)), Err(_)) => {}
        (Ok(Ok(u)), Ok(a)) => {
            let (ue, ae) = (catch(|| u.get_encoded()), a.get_encoded());
            let same_enc = matches!((&ue, &ae), (Ok(Ok(x)), Ok(y)) if x == y);
            let same_valid = Pop::is_agg_param_valid(&u, std::slice::from_ref(a)) == Pop::is_agg_param_valid(a, std::slice::from_ref(a)) && Pop::is_agg_param_valid(a, std::slice::from_ref(&u)) == Pop::is_agg_param_valid(a, std::slice::from_ref(a));
            if u != *a || !same_enc || u.level() != a.level() || u.prefixes() != a.prefixes() || !same_valid {
                run.fail("try_from_prefixes/unaligned/differs", &format!("the aggregation parameter built from unaligned storage of {:?} differs from the aligned one (equal: {}, same encoding: {same_enc}, same admissibility answers: {same_valid})", ps, u == *a), case);
            }
        }
        (Ok(r), _) => run.fail("try_from_prefixes/unaligned/verdict", &format!("try_from_prefixes({:?}) from unaligned storage = {}, from aligned storage = {}", ps, if r.is_ok() { "Ok" } else { "Err" }, if aligned.is_ok() { "Ok" } else { "Err" }), case),
    }
}

fn constructor(run: &Run, max_list: usize) {
    // all prefixes of length 0..=3
    let mut pool: Vec<Vec<bool>> = vec![vec![]];
    for len in 1..=3usize {
        for v in 0..(1u32 << len) {
            pool.push((0..len).map(|k| (v >> (len - 1 - k)) & 1 == 1).collect());
        }
    }
    let m = pool.len();
    let mut lists: Vec<Vec<usize>> = vec![vec![]];
    let mut frontier = vec![vec![]];
    for _ in 0..max_list {
        let mut next = vec![];
        for l in &frontier {
            for i in 0..m {
                let mut g: Vec<usize> = l.clone();
                g.push(i);
                next.push(g);
            }
        }
        lists.extend(next.iter().cloned());
        frontier = next;
    }
    for l in &lists {
        let ps: Vec<&Vec<bool>> = l.iter().map(|i| &pool[*i]).collect();
        let want = !ps.is_empty() && ps[0].len() >= 1 && ps.iter().all(|p| p.len() == ps[0].len()) && ps.windows(2).all(|w| lex_lt(w[0], w[1]));
        let res = catch(|| Poplar1AggregationParam::try_from_prefixes(ps.iter().map(|b| IdpfInput::from_bools(b)).collect()));
        run.count("evaluations", 1);
        run.count("constructor_lists", 1);
        let case = json!({"prefixes": ps});
        if let Ok(r) = &res {
            if !ps.is_empty() {
                twin_check(run, &ps, &r.as_ref().map(|p| p.clone()).map_err(|e| e.to_string()));
            }
        }
        match res {
            Err(m) => run.fail("try_from_prefixes/panic", &format!("try_from_prefixes panicked on {:?}: {m}", ps), case),
            Ok(r) => {
                if r.is_ok() != want {
                    run.fail(&format!("try_from_prefixes/{}", if want { "rejected_valid" } else { "accepted_invalid" }), &format!("try_from_prefixes({:?}) = {}, specification says {}", ps, if r.is_ok() { "Ok" } else { "Err" }, if want { "Ok" } else { "Err" }), case);
                } else if let Ok(p) = r {
                    if p.level() != ps[0].len() - 1 || p.prefixes().len() != ps.len() {
                        run.fail("try_from_prefixes/wrong_value", &format!("try_from_prefixes({:?}) built level {} with {} prefixes", ps, p.level(), p.prefixes().len()), case);
                    }
                    run.distinct(fnv(format!("ctor/{:?}", l).as_bytes()));
                }
            }
        }
    }
    // longer prefixes across byte and word boundaries, aligned vs unaligned storage
    for len in [7usize, 8, 9, 15, 16, 17, 31, 32, 33, 63, 64, 65, 127, 128, 129] {
        let a: Vec<bool> = (0..len).map(|i| i % 3 == 0).collect();
        let mut b = a.clone();
        b[len - 1] = !b[len - 1];
        let mut c = a.clone();
        c[0] = !c[0];
        let mut set = vec![a, b, c];
        set.sort();
        let ps: Vec<&Vec<bool>> = set.iter().collect();
        let r = Poplar1AggregationParam::try_from_prefixes(ps.iter().map(|b| IdpfInput::from_bools(b)).collect()).map_err(|e| e.to_string());
        twin_check(run, &ps, &r);
    }
    // size limits: prefixes of 65536 bits are the longest admissible (level 65535); 65537 is not
    for (len, want) in [(65535usize, true), (65536, true), (65537, false), (70000, false)] {
        let p = vec![IdpfInput::from_bools(&vec![true; len])];
        let r = catch(|| Poplar1AggregationParam::try_from_prefixes(p));
        run.count("evaluations", 1);
        match r {
            Ok(r) if r.is_ok() == want => {}
            Ok(r) => run.fail(&format!("try_from_prefixes/len={len}"), &format!("try_from_prefixes with one {len}-bit prefix = {}", if r.is_ok() { "Ok" } else { "Err" }), json!({"len": len})),
            Err(m) => run.fail(&format!("try_from_prefixes/len={len}/panic"), &format!("try_from_prefixes panicked for a {len}-bit prefix: {m}"), json!({"len": len})),
        }
    }
}

/// Reference decoder of the Poplar1AggParam grammar: Some(param) iff the string is an accepted,
/// canonical encoding.
fn ref_decode(b: &[u8]) -> Option<RefParam> {
    if b.len() < 6 {
        return None;
    }
    let level = u16::from_be_bytes([b[0], b[1]]) as usize;
    let count = u32::from_be_bytes([b[2], b[3], b[4], b[5]]) as usize;
    let plen = (level + 1).div_ceil(8);
    if b.len() != 6 + count.checked_mul(plen)? {
        return None;
    }
    if count == 0 {
        return None;
    }
    let mut prefixes = vec![];
    for c in b[6..].chunks(plen) {
        let bits: Vec<bool> = (0..plen * 8).map(|i| (c[i / 8] >> (7 - i % 8)) & 1 == 1).collect();
        if bits[level + 1..].iter().any(|x| *x) {
            return None; // non-zero padding
        }
        prefixes.push(bits[..=level].to_vec());
    }
    if !prefixes.windows(2).all(|w| lex_lt(&w[0], &w[1])) {
        return None;
    }
    Some(RefParam { level, prefixes })
}

fn decoder(run: &Run, thorough: bool) {
    let alphabet: [u8; 6] = [0x00, 0x80, 0x40, 0xC0, 0xFF, 0x01];
    let levels: Vec<u16> = vec![0, 1, 2, 3, 6, 7, 8, 9, 15, 16];
    let mut strings: Vec<Vec<u8>> = vec![];
    for &level in &levels {
        let plen = (level as usize + 1).div_ceil(8);
        for count in 0u32..=4 {
            let body = plen * count as usize;
            let cap = if thorough { 300_000u64 } else { 8_000 };
            let total = (alphabet.len() as u64).checked_pow(body as u32).unwrap_or(u64::MAX);
            let mut emit = |bodyv: Vec<u8>, count_field: u32| {
                let mut s = level.to_be_bytes().to_vec();
                s.extend(count_field.to_be_bytes());
                s.extend(bodyv);
                strings.push(s);
            };
            if total <= cap {
                for i in 0..total {
                    let mut k = i;
                    let bodyv: Vec<u8> = (0..body).map(|_| {
                        let v = alphabet[(k % 6) as usize];
                        k /= 6;
                        v
                    }).collect();
                    emit(bodyv, count);
                }
            } else {
                // sorted-ish families: increasing first bytes with all second-byte patterns
                for i in 0..cap {
                    let mut k = i.wrapping_mul(0x9E3779B97F4A7C15);
                    let bodyv: Vec<u8> = (0..body).map(|_| {
                        let v = alphabet[(k % 6) as usize];
                        k /= 6;
                        v
                    }).collect();
                    emit(bodyv, count);
                }
            }
            // count field lies about the body
            emit(vec![0x00; body], count + 1);
            emit(vec![0x80; body], count.wrapping_sub(1));
            emit(vec![0x00; body], u32::MAX);
            emit(vec![0x00; body], 1 << 16);
        }
    }
    // short / odd strings
    for l in 0..6usize {
        strings.push(vec![0u8; l]);
    }
    // every accepted string also truncated by one byte and extended by one byte
    let extra: Vec<Vec<u8>> = strings.iter().filter(|s| ref_decode(s).is_some()).take(5000).flat_map(|s| {
        let mut a = s.clone();
        a.pop();
        let mut b = s.clone();
        b.push(0);
        vec![a, b]
    }).collect();
    strings.extend(extra);
    let n = strings.len() as u64;
    let accepted = AtomicU64::new(0);
    par::for_each(n, |i| {
        let s = &strings[i as usize];
        let want = ref_decode(s);
        let got = catch(|| Poplar1AggregationParam::get_decoded(s));
        let case = json!({"bytes": hex(s)});
        match got {
            Err(m) => run.fail("decode/panic", &format!("Poplar1AggregationParam::get_decoded({}) panicked: {m}", hex(s)), case),
            Ok(Err(_)) => {
                if want.is_some() {
                    run.fail("decode/rejected_valid", &format!("decoder rejected the canonical encoding {}", hex(s)), case);
                }
            }
            Ok(Ok(p)) => {
                accepted.fetch_add(1, Ordering::Relaxed);
                match want {
                    None => run.fail("decode/accepted_invalid", &format!("decoder accepted {} which is not a canonical encoding of a non-empty, equal-length, strictly increasing prefix list", hex(s)), case),
                    Some(w) => {
                        let got_prefixes: Vec<Vec<bool>> = p.prefixes().iter().map(|x| x.iter().collect()).collect();
                        if p.level() != w.level || got_prefixes != w.prefixes {
                            run.fail("decode/wrong_value", &format!("decoder produced a different value for {}", hex(s)), case.clone());
                        }
                        let re = p.get_encoded().unwrap();
                        if &re != s || p.encoded_len() != Some(re.len()) {
                            run.fail("decode/reencode", &format!("accepted string {} re-encodes to {} (encoded_len {:?})", hex(s), hex(&re), p.encoded_len()), case);
                        }
                    }
                }
            }
        }
    });
    run.count("evaluations", n);
    run.count("decoder_strings", n);
    run.count("decoder_accepted", accepted.load(Ordering::Relaxed));
    run.distinct_many(strings.iter().take(300_000).map(|s| fnv(s)));
    // levels near 2^16 (one prefix)
    for level in [0xFFFEu16, 0xFFFF] {
        let plen = (level as usize + 1).div_ceil(8);
        let mut s = level.to_be_bytes().to_vec();
        s.extend(1u32.to_be_bytes());
        let mut body = vec![0xAAu8; plen];
        let used = (level as usize + 1) % 8;
        if used != 0 {
            body[plen - 1] &= 0xFFu8 << (8 - used);
        }
        s.extend(body);
        let want = ref_decode(&s).is_some();
        run.count("evaluations", 1);
        match catch(|| Poplar1AggregationParam::get_decoded(&s).map(|p| (p.get_encoded().unwrap(), p.encoded_len()))) {
            Ok(Ok((re, el))) => {
                if !want || re != s || el != Some(s.len()) {
                    run.fail(&format!("poplar1/agg_param/level={level}/roundtrip"), &format!("level {level}: decode/re-encode/encoded_len inconsistent"), json!({"level": level}));
                }
            }
            Ok(Err(e)) => {
                if want {
                    run.fail(&format!("poplar1/agg_param/level={level}/rejected"), &format!("level {level}: canonical encoding rejected: {e}"), json!({"level": level}));
                }
            }
            Err(m) => run.fail(&format!("poplar1/agg_param/level={level}/panic"), &format!("level {level}: decoder/encoder panicked: {m}"), json!({"level": level})),
        }
    }
}

fn main() {
    let run = Run::from_args("C20", Level::ModelChecking);
    run.rule("state = full history of aggregation parameters (bits<=3: all 273 parameters = every non-empty prefix set at every level; bits=4: sets of size <=2 plus the full set; deep levels around 8,64,65,128 (thorough: 7..1000): sets of size <=2 of strings that differ in a single position, histories of length 1), transition = offering a candidate to the real is_agg_param_valid, invariant = agreement with the specification predicate over Vec<bool>; constructor: every list of <=3 prefixes of length 0..3; decoder: every string of the grammar with level in {0..3,6..9,15,16}, count <=4, body bytes over a 6-value alphabet, lying count fields, +-1 byte; Prio3/Prio2: histories of length 0..3");
    let q = run.quick();
    // bits <= 3: all histories of length <= 2 followed by every candidate; thorough: length 4 for bits <= 2, length 3 for bits = 3 below
    for bits in 1..=3usize {
        histories(&run, bits, usize::MAX, if q || bits == 3 { 2 } else { 4 }, usize::MAX);
    }
    if !q {
        // bits = 3, length 3: the two oldest entries from the 18 parameters of levels 0 and 1
        histories(&run, 3, usize::MAX, 3, 100);
    }
    histories(&run, 4, 2, if q { 1 } else { 2 }, if q { 0 } else { 160 });
    // deep levels (the `bits` tag of these cases is the anchor level + 3)
    for anchor in if q { vec![8usize, 64, 65, 128] } else { vec![7, 8, 15, 16, 31, 32, 63, 64, 65, 66, 127, 128, 129, 255, 256, 1000] } {
        histories_over(&run, anchor + 3, deep_params(anchor), if q { 1 } else { 2 }, if q { 0 } else { 24 });
    }
    constructor(&run, 3);
    decoder(&run, !q);
    // Prio3 / Prio2: only the first use is valid
    for n in 0..=3usize {
        let prev = vec![(); n];
        let want = n == 0;
        run.count("evaluations", 2);
        run.count("transitions", 2);
        if Prio3Count::is_agg_param_valid(&(), &prev) != want {
            run.fail("prio3/single_use", &format!("Prio3::is_agg_param_valid with {n} previous uses != {want}"), json!({"n": n}));
        }
        if <Prio2 as Aggregator<32, 16>>::is_agg_param_valid(&(), &prev) != want {
            run.fail("prio2/single_use", &format!("Prio2::is_agg_param_valid with {n} previous uses != {want}"), json!({"n": n}));
        }
    }
    run.exhaustive(true);
    run.finish();
}
