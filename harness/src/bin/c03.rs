//! C03 — Poplar1 end-to-end: honest reports give exact prefix counts at every level.
//!
//! Engine: bounded-exhaustive sweep (all inputs x every aggregation parameter for small bit
//! lengths, every message through its wire encoding) + explicit-state exploration of admissible
//! parameter sequences on the same report + the iterative heavy-hitters procedure against exact
//! counting; deep levels (incl. > 21845) for long inputs.
use prio::codec::{Encode, ParameterizedDecode};
use prio::idpf::IdpfInput;
use prio::vdaf::poplar1::{Poplar1, Poplar1AggregationParam, Poplar1FieldVec};
use prio::vdaf::test_utils::TestVectorClient;
use prio::vdaf::xof::XofTurboShake128;
use prio::vdaf::{Aggregator, Collector};
use pvh::engine::tape::{tape_alphabet, Tape};
use pvh::engine::{catch, fnv, par, Level, Run};
use pvh::kit::vdafkit::{verify_report, Failure, VerifyOpts};
use serde_json::json;
use std::collections::HashMap;
use std::sync::atomic::{AtomicU64, Ordering};
use std::sync::Mutex;

type Pop = Poplar1<XofTurboShake128, 32>;

fn bits_of(v: u64, n: usize) -> Vec<bool> {
    (0..n).map(|k| (v >> (n - 1 - k)) & 1 == 1).collect()
}

fn param(prefixes: &[Vec<bool>]) -> Poplar1AggregationParam {
    Poplar1AggregationParam::try_from_prefixes(prefixes.iter().map(|p| IdpfInput::from_bools(p)).collect()).unwrap()
}

/// The same parameter built from candidate prefixes whose bit storage does not start at bit 0 of a word
/// (public `From<BitBox>`; such inputs are `==` to the aligned ones). Candidate j gets offset [1,0,5,2,7][j % 5].
fn param_unaligned(prefixes: &[Vec<bool>]) -> Poplar1AggregationParam {
    use bitvec::prelude::*;
    let inputs: Vec<IdpfInput> = prefixes
        .iter()
        .enumerate()
        .map(|(j, p)| {
            let offset = [1usize, 0, 5, 2, 7][j % 5];
            let mut bv: BitVec<usize, Lsb0> = BitVec::new();
            for i in 0..offset {
                bv.push(i % 2 == 0);
            }
            bv.extend(p.iter().copied());
            let bb: BitBox<usize, Lsb0> = BitBox::from_bitslice(&bv[offset..]);
            IdpfInput::from(bb)
        })
        .collect();
    Poplar1AggregationParam::try_from_prefixes(inputs).unwrap()
}

/// Every non-empty sorted prefix set at `level` with at most `max_set` elements (plus the full set).
fn sets_at(level: usize, max_set: usize) -> Vec<Vec<Vec<bool>>> {
    let n = 1usize << (level + 1);
    let all: Vec<Vec<bool>> = (0..n as u64).map(|v| bits_of(v, level + 1)).collect();
    let mut out = vec![];
    if n <= 16 {
        for mask in 1u64..(1u64 << n) {
            if (mask.count_ones() as usize) > max_set && mask != (1u64 << n) - 1 {
                continue;
            }
            out.push((0..n).filter(|i| (mask >> i) & 1 == 1).map(|i| all[i].clone()).collect());
        }
    } else {
        for i in 0..n {
            out.push(vec![all[i].clone()]);
            if max_set >= 2 {
                for j in [i + 1, n - 1 - i / 2] {
                    if j < n && j > i {
                        out.push(vec![all[i].clone(), all[j].clone()]);
                    }
                }
            }
        }
        out.push(all.clone());
    }
    out
}

struct Report {
    ps: <Pop as prio::vdaf::Vdaf>::PublicShare,
    shares: Vec<<Pop as prio::vdaf::Vdaf>::InputShare>,
    ctx: Vec<u8>,
    nonce: [u8; 16],
}

fn shard(vdaf: &Pop, input: &[bool], tape: &Tape, salt: u64) -> Result<Report, String> {
    let ctx: Vec<u8> = tape.bytes(1 + salt, [0usize, 3, 50][(salt % 3) as usize]);
    let nonce: [u8; 16] = tape.array(2 + salt);
    let random = tape.bytes(3 + salt, 32 + 96);
    match catch(|| vdaf.shard_with_random(&ctx, &IdpfInput::from_bools(input), &nonce, &random)) {
        Ok(Ok((ps, shares))) => Ok(Report { ps, shares, ctx, nonce }),
        Ok(Err(e)) => Err(format!("shard error: {e}")),
        Err(m) => Err(format!("shard panic: {m}")),
    }
}

/// Verify one report for one parameter through the wire; returns both output shares.
fn verify(vdaf: &Pop, r: &Report, vk: &[u8; 32], ap: &Poplar1AggregationParam) -> Result<Vec<Poplar1FieldVec>, Failure> {
    verify_report::<Pop, 32>(vdaf, vk, &r.ctx, ap, &r.nonce, &r.ps, &r.shares, &VerifyOpts::wire()).map(|(o, _)| o)
}

fn unshard_counts(vdaf: &Pop, ap: &Poplar1AggregationParam, outs: &[Vec<Poplar1FieldVec>]) -> Result<Vec<u64>, String> {
    // outs[report][aggregator]
    let mut agg_shares = vec![];
    for a in 0..2 {
        let sh = vdaf.aggregate(ap, outs.iter().map(|o| o[a].clone())).map_err(|e| format!("aggregate: {e}"))?;
        // the same batch aggregated as two sub-batches that are merged afterwards (what an aggregator
        // processing a batch in pieces does) must give the same aggregate share
        if outs.len() >= 2 {
            let cut = outs.len() / 2;
            let mut left = vdaf.aggregate(ap, outs[..cut].iter().map(|o| o[a].clone())).map_err(|e| format!("aggregate(sub-batch): {e}"))?;
            let right = vdaf.aggregate(ap, outs[cut..].iter().map(|o| o[a].clone())).map_err(|e| format!("aggregate(sub-batch): {e}"))?;
            prio::vdaf::Aggregatable::merge(&mut left, &right).map_err(|e| format!("merge of two sub-batch aggregate shares: {e}"))?;
            if left != sh {
                return Err(format!("aggregator {a}: merging the aggregate shares of two sub-batches ({} + {} reports) differs from aggregating the whole batch", cut, outs.len() - cut));
            }
        }
        let bytes = sh.get_encoded().map_err(|e| e.to_string())?;
        let sh2 = Poplar1FieldVec::get_decoded_with_param(&(vdaf, ap), &bytes).map_err(|e| format!("aggregate share codec: {e}"))?;
        agg_shares.push(sh2);
    }
    match catch(|| vdaf.unshard(ap, agg_shares, outs.len())) {
        Ok(Ok(v)) => Ok(v),
        Ok(Err(e)) => Err(format!("unshard: {e}")),
        Err(m) => Err(format!("unshard panic: {m}")),
    }
}

fn small(run: &Run, bits: usize, max_set: usize, tapes: &[(String, Tape)], batch3: bool) {
    let vdaf = Pop::new(bits);
    let n_inputs = 1u64 << bits;
    let params: Vec<(usize, Vec<Vec<bool>>)> = (0..bits).flat_map(|l| sets_at(l, max_set).into_iter().map(move |s| (l, s))).collect();
    let real: Vec<Poplar1AggregationParam> = params.iter().map(|(_, s)| param(s)).collect();
    let real_un: Vec<Poplar1AggregationParam> = params.iter().map(|(_, s)| param_unaligned(s)).collect();
    let verified = AtomicU64::new(0);
    // outputs[tape][input][param] = both output shares
    let store: Mutex<HashMap<(usize, u64, usize), Vec<Poplar1FieldVec>>> = Mutex::new(HashMap::new());
    let items: Vec<(usize, u64)> = (0..tapes.len()).flat_map(|t| (0..n_inputs).map(move |i| (t, i))).collect();
    par::for_each(items.len() as u64, |ix| {
        let (ti, iv) = items[ix as usize];
        let (tname, tape) = &tapes[ti];
        let input = bits_of(iv, bits);
        let rep = match shard(&vdaf, &input, tape, iv) {
            Ok(r) => r,
            Err(e) => {
                run.fail(&format!("poplar1/bits={bits}/shard"), &format!("Poplar1(bits={bits}): {e}"), json!({"bits": bits, "input": input}));
                return;
            }
        };
        let vk: [u8; 32] = tape.array(9 + iv);
        for (pi, (level, set)) in params.iter().enumerate() {
            verified.fetch_add(1, Ordering::Relaxed);
            match verify(&vdaf, &rep, &vk, &real[pi]) {
                Ok(outs) => {
                    // single-report result
                    match unshard_counts(&vdaf, &real[pi], &[outs.clone()]) {
                        Ok(got) => {
                            let want: Vec<u64> = set.iter().map(|p| (input[..=*level] == p[..]) as u64).collect();
                            if got != want {
                                run.fail(&format!("poplar1/bits={bits}/level={level}/count"), &format!("Poplar1(bits={bits}): input {:?}, level {level}, prefixes {:?}: result {:?}, expected {:?} (tape {tname})", input, set, got, want), json!({"bits": bits, "input": input, "level": level, "prefixes": set, "tape": tname}));
                                return;
                            }
                        }
                        Err(e) => {
                            run.fail(&format!("poplar1/bits={bits}/level={level}/unshard"), &format!("Poplar1(bits={bits}): {e}"), json!({"bits": bits, "input": input, "level": level, "prefixes": set}));
                            return;
                        }
                    }
                    // the same parameter held in memory with unaligned candidate storage (equal value)
                    if set.len() >= 2 && ti == 0 {
                        verified.fetch_add(1, Ordering::Relaxed);
                        match verify(&vdaf, &rep, &vk, &real_un[pi]) {
                            Ok(outs_un) if outs_un == outs => {}
                            other => {
                                run.fail(&format!("poplar1/bits={bits}/level={level}/unaligned_param"), &format!("Poplar1(bits={bits}): input {:?}, level {level}, prefixes {:?}: an equal aggregation parameter whose candidate prefixes are stored unaligned gives {} (tape {tname})", input, set, match other { Ok(_) => "different output shares".to_string(), Err(f) => format!("a rejection: {:?}", f) }), json!({"bits": bits, "input": input, "level": level, "prefixes": set, "tape": tname}));
                                return;
                            }
                        }
                    }
                    store.lock().unwrap().insert((ti, iv, pi), outs);
                }
                Err(f) => {
                    run.fail(&format!("poplar1/bits={bits}/level={level}/rejected"), &format!("Poplar1(bits={bits}): honest report for input {:?} rejected at level {level}, prefixes {:?}: {:?} (tape {tname})", input, set, f), json!({"bits": bits, "input": input, "level": level, "prefixes": set, "tape": tname}));
                    return;
                }
            }
        }
        run.distinct(fnv(format!("poplar1/{bits}/{tname}/{iv}").as_bytes()));
    });
    run.count("evaluations", verified.load(Ordering::Relaxed));
    if run.n_violations() > 0 {
        return;
    }
    // batches: all multisets of size 2 (and 3) of inputs, per parameter, aggregated from stored shares
    let store = store.into_inner().unwrap();
    let mut batches: Vec<Vec<u64>> = vec![];
    for a in 0..n_inputs {
        for b in a..n_inputs {
            batches.push(vec![a, b]);
            if batch3 {
                for c in b..n_inputs {
                    batches.push(vec![a, b, c]);
                }
            }
        }
    }
    batches.push((0..n_inputs).collect());
    let ti = tapes.len() - 1;
    par::for_each(batches.len() as u64, |bi| {
        let b = &batches[bi as usize];
        for (pi, (level, set)) in params.iter().enumerate() {
            let outs: Vec<Vec<Poplar1FieldVec>> = b.iter().map(|iv| store[&(ti, *iv, pi)].clone()).collect();
            run.count("aggregations", 1);
            match unshard_counts(&vdaf, &real[pi], &outs) {
                Ok(got) => {
                    let want: Vec<u64> = set.iter().map(|p| b.iter().filter(|iv| bits_of(**iv, bits)[..=*level] == p[..]).count() as u64).collect();
                    if got != want {
                        run.fail(&format!("poplar1/bits={bits}/level={level}/batch_count"), &format!("Poplar1(bits={bits}): batch {:?}, level {level}, prefixes {:?}: result {:?}, expected {:?}", b, set, got, want), json!({"bits": bits, "batch": b, "level": level, "prefixes": set}));
                        return;
                    }
                }
                Err(e) => {
                    run.fail(&format!("poplar1/bits={bits}/level={level}/batch_unshard"), &format!("Poplar1(bits={bits}): {e}"), json!({"bits": bits, "batch": b, "level": level}));
                    return;
                }
            }
        }
    });
    // admissible sequences of parameters on the same report (explicit-state over histories): every
    // parameter of an admissible history must verify; the library keeps no state between
    // parameters, so this reduces to "every parameter reachable through some admissible history
    // verifies" — count the histories and check reachability covers all parameters.
    let mut reach = vec![false; params.len()];
    let mut frontier: Vec<Vec<usize>> = vec![vec![]];
    let mut histories = 0u64;
    let mut transitions = 0u64;
    for _depth in 0..bits.min(3) {
        let mut next = vec![];
        for h in &frontier {
            let prev: Vec<Poplar1AggregationParam> = h.iter().map(|i| real[*i].clone()).collect();
            for c in 0..params.len() {
                transitions += 1;
                if Pop::is_agg_param_valid(&real[c], &prev) {
                    reach[c] = true;
                    let mut g = h.clone();
                    g.push(c);
                    next.push(g);
                }
            }
        }
        histories += next.len() as u64;
        if next.len() > 200_000 {
            next.truncate(200_000);
        }
        frontier = next;
    }
    run.count("admissible_histories", histories);
    run.count("history_transitions", transitions);
    if reach.iter().any(|r| !r) {
        run.fail(&format!("poplar1/bits={bits}/unreachable_param"), "some parameter is not reachable through any admissible history", json!({"bits": bits}));
    }
    run.sample(json!({"bits": bits, "inputs": n_inputs, "params": params.len(), "tapes": tapes.len(), "batches": batches.len(), "admissible_histories": histories}));
}

fn deep(run: &Run, bits: usize, levels: &[usize], tape: &Tape, tname: &str) {
    let vdaf = Pop::new(bits);
    let input: Vec<bool> = (0..bits).map(|i| (i * 7 + bits) % 3 != 0).collect();
    let rep = match shard(&vdaf, &input, tape, bits as u64) {
        Ok(r) => r,
        Err(e) => {
            run.fail(&format!("poplar1/bits={bits}/shard"), &format!("Poplar1(bits={bits}): {e}"), json!({"bits": bits}));
            return;
        }
    };
    let vk: [u8; 32] = tape.array(10);
    for &level in levels {
        if level >= bits {
            continue;
        }
        let mut on = input[..=level].to_vec();
        let mut sib = on.clone();
        sib[level] = !sib[level];
        let on_first = on < sib;
        if !on_first {
            std::mem::swap(&mut on, &mut sib);
        }
        run.count("evaluations", 1);
        run.count("deep_cases", 1);
        let ap = match catch(|| Poplar1AggregationParam::try_from_prefixes(vec![IdpfInput::from_bools(&on), IdpfInput::from_bools(&sib)])) {
            Ok(Ok(ap)) => ap,
            other => {
                run.fail(&format!("poplar1/deep/bits={bits}/level={level}/param_refused"), &format!("Poplar1(bits={bits}): the admissible aggregation parameter (level {level}, on-path prefix and its sibling) cannot be constructed: {:?}", other.map(|r| r.map(|_| ()).map_err(|e| e.to_string()))), json!({"bits": bits, "level": level}));
                continue;
            }
        };
        let key = if level >= 21846 { format!("poplar1/level>=21846/bits={bits}") } else { format!("poplar1/deep/bits={bits}/level={level}") };
        match verify(&vdaf, &rep, &vk, &ap) {
            Ok(outs) => match unshard_counts(&vdaf, &ap, &[outs]) {
                Ok(got) => {
                    let want = if on_first { vec![1, 0] } else { vec![0, 1] };
                    if got != want {
                        run.fail(&format!("{key}/count"), &format!("Poplar1(bits={bits}) level {level}: result {:?}, expected {:?}", got, want), json!({"bits": bits, "level": level, "tape": tname}));
                    }
                }
                Err(e) => run.fail(&format!("{key}/unshard"), &format!("Poplar1(bits={bits}) level {level}: {e}"), json!({"bits": bits, "level": level})),
            },
            Err(f) => run.fail(&format!("{key}/rejected"), &format!("Poplar1(bits={bits}): honest report rejected at level {level}: {:?}", f), json!({"bits": bits, "level": level, "tape": tname})),
        }
        run.distinct(fnv(format!("deep/{bits}/{level}/{tname}").as_bytes()));
    }
}

fn heavy_hitters(run: &Run, tape: &Tape) {
    let bits = 3usize;
    let vdaf = Pop::new(bits);
    // report per input value, reused across batches (a batch may contain the same string several
    // times: distinct reports are needed, so shard 3 copies per value)
    let mut reports: Vec<Vec<Report>> = vec![];
    for v in 0..8u64 {
        reports.push((0..3).map(|c| shard(&vdaf, &bits_of(v, bits), tape, 100 + v * 3 + c).unwrap()).collect());
    }
    let vk: [u8; 32] = tape.array(11);
    let mut batches: Vec<Vec<u64>> = vec![];
    for a in 0..8u64 {
        batches.push(vec![a]);
        for b in a..8 {
            batches.push(vec![a, b]);
            for c in b..8 {
                batches.push(vec![a, b, c]);
            }
        }
    }
    // cache of output shares per (value, copy, param encoding)
    let cache: Mutex<HashMap<(u64, usize, Vec<u8>), Vec<Poplar1FieldVec>>> = Mutex::new(HashMap::new());
    par::for_each(batches.len() as u64, |bi| {
        let b = &batches[bi as usize];
        for threshold in 1..=3u64 {
            let mut cands: Vec<Vec<bool>> = vec![vec![false], vec![true]];
            let mut result: Vec<Vec<bool>> = vec![];
            for level in 0..bits {
                if cands.is_empty() {
                    break;
                }
                let ap = param(&cands);
                let apb = ap.get_encoded().unwrap();
                let mut outs = vec![];
                let mut used: HashMap<u64, usize> = HashMap::new();
                for v in b {
                    let copy = *used.entry(*v).and_modify(|c| *c += 1).or_insert(0);
                    let k = (*v, copy, apb.clone());
                    let hit = cache.lock().unwrap().get(&k).cloned();
                    let o = match hit {
                        Some(o) => o,
                        None => match verify(&vdaf, &reports[*v as usize][copy], &vk, &ap) {
                            Ok(o) => {
                                cache.lock().unwrap().insert(k, o.clone());
                                o
                            }
                            Err(f) => {
                                run.fail("poplar1/heavy_hitters/rejected", &format!("heavy hitters: honest report rejected: {:?}", f), json!({"batch": b, "level": level}));
                                return;
                            }
                        },
                    };
                    outs.push(o);
                }
                run.count("evaluations", 1);
                let counts = match unshard_counts(&vdaf, &ap, &outs) {
                    Ok(c) => c,
                    Err(e) => {
                        run.fail("poplar1/heavy_hitters/unshard", &format!("heavy hitters: {e}"), json!({"batch": b}));
                        return;
                    }
                };
                let hot: Vec<Vec<bool>> = cands.iter().zip(&counts).filter(|(_, c)| **c >= threshold).map(|(p, _)| p.clone()).collect();
                if level == bits - 1 {
                    result = hot;
                } else {
                    cands = hot.iter().flat_map(|p| {
                        let mut a = p.clone();
                        a.push(false);
                        let mut c = p.clone();
                        c.push(true);
                        vec![a, c]
                    }).collect();
                }
            }
            let mut want: Vec<Vec<bool>> = (0..8u64).filter(|v| b.iter().filter(|x| *x == v).count() as u64 >= threshold).map(|v| bits_of(v, bits)).collect();
            want.sort();
            result.sort();
            if result != want {
                run.fail("poplar1/heavy_hitters/result", &format!("heavy hitters of batch {:?} with threshold {threshold}: got {:?}, exact counting gives {:?}", b, result, want), json!({"batch": b, "threshold": threshold}));
                return;
            }
            run.count("heavy_hitter_runs", 1);
        }
    });
}

/// Wide parameters: every prefix of a level as candidate (thousands of candidates, so output shares, verifier
/// states and aggregate shares are tens of kilobytes — beyond any 16-bit length), through all wire encodings,
/// two reports, exact counts.
fn wide(run: &Run, bits: usize, level: usize, tape: &Tape, tname: &str) {
    let vdaf = Pop::new(bits);
    let n = 1usize << (level + 1);
    let set: Vec<Vec<bool>> = (0..n as u64).map(|v| bits_of(v, level + 1)).collect();
    let ap = param(&set);
    let inputs = [bits_of(0x2A5F_u64 & ((1u64 << bits) - 1), bits), bits_of((1u64 << bits) - 1, bits)];
    let key = format!("poplar1/wide/bits={bits}/level={level}");
    let case = || json!({"bits": bits, "level": level, "candidates": n, "tape": tname});
    let mut outs = vec![];
    for (k, input) in inputs.iter().enumerate() {
        let rep = match shard(&vdaf, input, tape, 3000 + k as u64) {
            Ok(r) => r,
            Err(e) => {
                run.fail(&format!("{key}/shard"), &format!("Poplar1(bits={bits}): {e}"), case());
                return;
            }
        };
        let vk: [u8; 32] = tape.array(3100);
        run.count("evaluations", 1);
        match verify(&vdaf, &rep, &vk, &ap) {
            Ok(o) => outs.push(o),
            Err(f) => {
                run.fail(&format!("{key}/rejected"), &format!("Poplar1(bits={bits}): honest report rejected at level {level} with all {n} prefixes of that level as candidates (every message and state through its wire encoding): {:?}", f), case());
                return;
            }
        }
    }
    match unshard_counts(&vdaf, &ap, &outs) {
        Ok(got) => {
            let want: Vec<u64> = set.iter().map(|p| inputs.iter().filter(|i| i[..=level] == p[..]).count() as u64).collect();
            if got != want {
                run.fail(&format!("{key}/count"), &format!("Poplar1(bits={bits}): wrong counts with all {n} prefixes of level {level} as candidates"), case());
            }
        }
        Err(e) => run.fail(&format!("{key}/unshard"), &format!("Poplar1(bits={bits}), all {n} prefixes of level {level}: {e}"), case()),
    }
    run.distinct(fnv(format!("wide/{bits}/{level}").as_bytes()));
}

fn main() {
    let run = Run::from_args("C03", Level::Exploration);
    run.rule("bits 1..5: all inputs x every level x every non-empty sorted prefix set (bits<=3; for 4,5 sets of size <=2 plus the full set) x tapes, each verified by both aggregators through all wire encodings; batches = all multisets of size 2 (thorough: 3) + the full set; admissible parameter histories enumerated with is_agg_param_valid; deep levels for bit lengths up to 65536 incl. levels >= 21846; wide parameters (all 4096 leaves of 12-bit inputs, all 8192 nodes of level 12 of 14-bit inputs; thorough more) through all encodings; heavy hitters for bits=3, all batches of <=3 strings, thresholds 1..3 vs exact counting. distinct = distinct (bits, tape, input) reports / deep (bits, level) cases");
    run.assume("sharding randomness, nonce, verify key, ctx from a fixed tape alphabet");
    let q = run.quick();
    let tapes = tape_alphabet(run.seed, if q { 1 } else { 6 });
    small(&run, 1, usize::MAX, &tapes, true);
    small(&run, 2, usize::MAX, &tapes, true);
    small(&run, 3, usize::MAX, &tapes[..if q { 2 } else { tapes.len() }], !q);
    small(&run, 4, 2, &tapes[..if q { 1 } else { 3 }], false);
    if !q {
        small(&run, 5, 2, &tapes[..2], false);
    }
    eprintln!("[{:.1}s] small", run.elapsed());
    heavy_hitters(&run, &tapes[2].1);
    eprintln!("[{:.1}s] heavy hitters", run.elapsed());
    let deep_bits: Vec<usize> = if q { vec![7, 8, 9, 16, 17, 64, 65, 256, 21847, 65536] } else { vec![7, 8, 9, 16, 17, 63, 64, 65, 255, 256, 257, 1000, 21845, 21846, 21847, 21850, 32768, 65535, 65536] };
    let items: Vec<(usize, usize)> = deep_bits.iter().flat_map(|b| (0..if q { 1 } else { 3 }).map(move |t| (*b, t))).collect();
    par::for_each(items.len() as u64, |i| {
        let (bits, t) = items[i as usize];
        let (tname, tape) = &tapes[(t + 2) % tapes.len()];
        let mut levels = vec![0, 1, bits / 2, bits.saturating_sub(2), bits - 1];
        if bits > 21846 {
            levels.extend([21844, 21845, 21846, 21847]);
        }
        levels.sort();
        levels.dedup();
        deep(&run, bits, &levels, tape, tname);
    });
    eprintln!("[{:.1}s] deep", run.elapsed());
    let wides: Vec<(usize, usize)> = if q { vec![(12, 11), (14, 12)] } else { vec![(12, 11), (12, 10), (14, 12), (14, 13), (16, 13)] };
    par::for_each(wides.len() as u64, |i| wide(&run, wides[i as usize].0, wides[i as usize].1, &tapes[2].1, &tapes[2].0));
    eprintln!("[{:.1}s] wide", run.elapsed());
    run.sample(json!({"deep": "bits=65536", "levels": [0, 1, 21845, 21846, 32768, 65534, 65535], "prefixes": "on-path + sibling"}));
    run.exhaustive(true);
    run.note("exhaustive_scope", json!("inputs and aggregation parameters for bits<=3 (all), bits 4..5 (sets of size <=2 + full); tapes are an alphabet; deep levels are a list"));
    run.finish();
}
