//! C08 — Decoders are total: arbitrary bytes give a value or an error, never a crash.
//!
//! Engine: fault enumeration over the catalogue of every (decodable type, decoding parameter) pair
//! (`../codec_catalogue.rs`, shared with C07; here with the wide lattice of admissible Poplar1 bit
//! lengths 10..=64 and 65536, and, under keys `param/poplar1_bits0/...`, the inadmissible but
//! constructible `Poplar1::new(0)`). String sets = C07's (crafted header extremes: aggregation
//! parameter level x count x bodies 0..=40, u8/u16/u32 length prefixes at 0/len/len+-1/max,
//! `output_share_len` at extremes, all tag values; honest encodings and all-zero / all-maximal
//! records with field-slot injections, padding bits, truncations, extensions, substitutions; all
//! strings of length <= 2).
//!
//! Oracle: every call `get_decoded_with_param(param, bytes)` RETURNS `Ok` or `Err`:
//!   * no panic (the profile has overflow checks and debug assertions on);
//!   * no hang: per-call limit of 2 s of process CPU time (watchdog thread; wall-clock backstop 120 s;
//!     a timeout is confirmed by re-running the single case in a fresh process before it is reported);
//!   * no allocation out of proportion: bytes requested from the allocator during the call (sum of
//!     alloc / alloc_zeroed sizes and realloc new sizes) <= 256 * len + (size the decoding parameter
//!     legitimately implies: 4 x the record length + 1 KiB for fixed-length records, 0 for
//!     self-describing formats) + 64 KiB. A counting `#[global_allocator]` enforces the budget
//!     *before* the request reaches the system allocator.
//! The sweep runs in worker subprocesses of this binary (`--worker ...`): a budget violation or a
//! timeout writes `CASE <entry> <case> <reason>` with a raw write(2) and exits with a reserved
//! code; the parent turns "worker died at case k" into a violation carrying (type, parameter, hex
//! bytes), and restarts the worker after case k. A death without attribution is re-run with a
//! per-case trace; if it cannot be attributed to a case it is a machinery failure (exit 2).
#[path = "../codec_catalogue.rs"]
mod catalogue;

use catalogue::{Catalogue, Entry, Limits, Outcome, Profile, Window};
use pvh::engine::{fnv, hex, par, Level, Run};
use serde_json::json;
use std::alloc::{GlobalAlloc, Layout, System};
use std::collections::HashMap;
use std::io::{BufRead, BufReader, Read};
use std::process::{Command, Stdio};
use std::sync::atomic::{AtomicBool, AtomicU64, AtomicUsize, Ordering};
use std::sync::Mutex;
use std::time::Instant;

const EXIT_ALLOC: i32 = 101;
const EXIT_TIMEOUT: i32 = 102;
const CALL_LIMIT_MS: u64 = 2000;
/// deaths after which the rest of an entry is skipped (each hang costs the full time limit)
const DEATHS_PER_ENTRY: usize = 2;

// ------------------------------------------------------------------------------------------------
// counting allocator with a per-call budget

static ARMED: AtomicBool = AtomicBool::new(false);
static USED: AtomicUsize = AtomicUsize::new(0);
static BUDGET: AtomicUsize = AtomicUsize::new(usize::MAX);
static CUR_ENTRY: AtomicU64 = AtomicU64::new(0);
static CUR_CASE: AtomicU64 = AtomicU64::new(0);
/// milliseconds since process start at which the current call began, 0 = no call in progress
static CALL_START: AtomicU64 = AtomicU64::new(0);
/// worst observed USED * 1000 / BUDGET over completed calls
static WORST_PERMILLE: AtomicU64 = AtomicU64::new(0);
static PEAK_USED: AtomicUsize = AtomicUsize::new(0);

#[repr(C)]
struct Timespec {
    sec: i64,
    nsec: i64,
}
extern "C" {
    fn write(fd: i32, buf: *const u8, count: usize) -> isize;
    fn _exit(status: i32) -> !;
    fn clock_gettime(clock: i32, ts: *mut Timespec) -> i32;
}
/// CPU time consumed by this process, in ms: the per-call limit is counted in CPU time so that a busy
/// machine cannot turn a descheduled call into a "hang" (a decoder that loops burns CPU time).
fn cpu_ms() -> u64 {
    const CLOCK_PROCESS_CPUTIME_ID: i32 = 2;
    let mut ts = Timespec { sec: 0, nsec: 0 };
    if unsafe { clock_gettime(CLOCK_PROCESS_CPUTIME_ID, &mut ts) } != 0 {
        return now_ms();
    }
    ts.sec as u64 * 1000 + ts.nsec as u64 / 1_000_000 + 1
}
/// wall-clock backstop, as a multiple of the CPU limit
const WALL_FACTOR: u64 = 60;
static CALL_START_WALL: AtomicU64 = AtomicU64::new(0);

/// Format without allocating and write with write(2).
fn raw_line(fd: i32, parts: &[&[u8]], nums: &[u64]) {
    let mut buf = [0u8; 160];
    let mut n = 0;
    let mut put = |b: &[u8], n: &mut usize| {
        for x in b {
            if *n < 159 {
                buf[*n] = *x;
                *n += 1;
            }
        }
    };
    for (i, p) in parts.iter().enumerate() {
        put(p, &mut n);
        if let Some(v) = nums.get(i) {
            let mut d = [0u8; 20];
            let mut k = 20;
            let mut v = *v;
            loop {
                k -= 1;
                d[k] = b'0' + (v % 10) as u8;
                v /= 10;
                if v == 0 {
                    break;
                }
            }
            put(&d[k..], &mut n);
        }
    }
    buf[n] = b'\n';
    unsafe {
        write(fd, buf.as_ptr(), n + 1);
    }
}

struct Guard;

#[inline]
fn charge(n: usize) {
    if ARMED.load(Ordering::Relaxed) {
        let u = USED.fetch_add(n, Ordering::Relaxed).saturating_add(n);
        if u > BUDGET.load(Ordering::Relaxed) {
            die_alloc(u);
        }
    }
}

#[cold]
fn die_alloc(u: usize) -> ! {
    ARMED.store(false, Ordering::SeqCst);
    raw_line(
        2,
        &[b"CASE ", b" ", b" ALLOC ", b" ", b""],
        &[CUR_ENTRY.load(Ordering::SeqCst), CUR_CASE.load(Ordering::SeqCst), u as u64, BUDGET.load(Ordering::SeqCst) as u64],
    );
    unsafe { _exit(EXIT_ALLOC) }
}

unsafe impl GlobalAlloc for Guard {
    unsafe fn alloc(&self, l: Layout) -> *mut u8 {
        charge(l.size());
        System.alloc(l)
    }
    unsafe fn alloc_zeroed(&self, l: Layout) -> *mut u8 {
        charge(l.size());
        System.alloc_zeroed(l)
    }
    unsafe fn realloc(&self, p: *mut u8, l: Layout, new_size: usize) -> *mut u8 {
        charge(new_size);
        System.realloc(p, l, new_size)
    }
    unsafe fn dealloc(&self, p: *mut u8, l: Layout) {
        System.dealloc(p, l)
    }
}

#[global_allocator]
static GLOBAL: Guard = Guard;

static T0: std::sync::OnceLock<Instant> = std::sync::OnceLock::new();
fn now_ms() -> u64 {
    T0.get().map(|t| t.elapsed().as_millis() as u64).unwrap_or(0) + 1
}

fn window_begin(budget: usize) {
    USED.store(0, Ordering::Relaxed);
    BUDGET.store(budget, Ordering::Relaxed);
    CALL_START_WALL.store(now_ms(), Ordering::SeqCst);
    CALL_START.store(cpu_ms(), Ordering::SeqCst);
    ARMED.store(true, Ordering::SeqCst);
}

fn window_end() {
    ARMED.store(false, Ordering::SeqCst);
    CALL_START.store(0, Ordering::SeqCst);
    let u = USED.load(Ordering::Relaxed);
    let b = BUDGET.load(Ordering::Relaxed).max(1);
    let pm = (u as u128 * 1000 / b as u128) as u64;
    WORST_PERMILLE.fetch_max(pm, Ordering::Relaxed);
    PEAK_USED.fetch_max(u, Ordering::Relaxed);
}

// ------------------------------------------------------------------------------------------------

fn profile(thorough: bool, seed: u64) -> Profile {
    Profile { thorough, wide: true, bits0: true, seed }
}

fn limits(thorough: bool) -> Limits {
    if thorough {
        Limits::thorough()
    } else {
        Limits::quick()
    }
}

/// `--worker <shard> <nshards> <quick|thorough> <seed> <from_item> <from_case> <max_cases (0 = all)> <trace 0|1>`
fn worker_main(args: &[String]) -> ! {
    let num = |i: usize| -> u64 { args.get(i).and_then(|s| s.parse().ok()).unwrap_or_else(|| {
        eprintln!("MACHINERY: bad worker arguments {args:?}");
        std::process::exit(2)
    }) };
    let (shard, nshards) = (num(2) as usize, num(3) as usize);
    let thorough = args[4] == "thorough";
    let (seed, from_item, from_case, max_cases, trace) = (num(5), num(6) as usize, num(7), num(8), num(9) == 1);
    T0.set(Instant::now()).ok();
    pvh::engine::quiet_panics();
    catalogue::set_window(Window { begin: window_begin, end: window_end });
    let cat = catalogue::build(&profile(thorough, seed));
    let lim = limits(thorough);
    // watchdog: a call in progress for more than the limit kills the process with attribution
    std::thread::spawn(|| loop {
        std::thread::sleep(std::time::Duration::from_millis(20));
        let s = CALL_START.load(Ordering::SeqCst);
        let w = CALL_START_WALL.load(Ordering::SeqCst);
        let over = cpu_ms().saturating_sub(s) > CALL_LIMIT_MS || now_ms().saturating_sub(w) > WALL_FACTOR * CALL_LIMIT_MS;
        if s != 0 && over && CALL_START.load(Ordering::SeqCst) == s {
            ARMED.store(false, Ordering::SeqCst);
            raw_line(2, &[b"CASE ", b" ", b" TIMEOUT ", b""], &[CUR_ENTRY.load(Ordering::SeqCst), CUR_CASE.load(Ordering::SeqCst), CALL_LIMIT_MS]);
            unsafe { _exit(EXIT_TIMEOUT) }
        }
    });
    println!("N\t{}", cat.entries.len());
    let mut done_cases = 0u64;
    'items: for item in (shard..cat.entries.len()).step_by(nshards) {
        if item < from_item {
            continue;
        }
        let e = &cat.entries[item];
        let from = if item == from_item { from_case } else { 0 };
        let (mut n, mut acc, mut rej, mut pan) = (0u64, 0u64, 0u64, 0u64);
        let mut kinds: HashMap<String, u64> = HashMap::new();
        let mut stop = false;
        let t_entry = Instant::now();
        WORST_PERMILLE.store(0, Ordering::Relaxed);
        PEAK_USED.store(0, Ordering::Relaxed);
        e.cases(&lim, from, &mut |k, kind, bytes| {
            if stop {
                return;
            }
            CUR_ENTRY.store(item as u64, Ordering::SeqCst);
            CUR_CASE.store(k, Ordering::SeqCst);
            if trace {
                raw_line(2, &[b"T ", b" ", b""], &[item as u64, k]);
            }
            n += 1;
            match e.decode(bytes, false) {
                Outcome::Accepted(_) => acc += 1,
                Outcome::Rejected(_) => rej += 1,
                Outcome::Panic(m) => {
                    pan += 1;
                    if pan <= 3 {
                        println!("F\t{item}\t{k}\t{}", m.replace(['\t', '\n'], " "));
                    }
                }
            }
            *kinds.entry(kind.split('(').next().unwrap_or(kind).to_string()).or_insert(0) += 1;
            done_cases += 1;
            if max_cases != 0 && done_cases >= max_cases {
                stop = true;
            }
        });
        let mut kinds: Vec<String> = kinds.into_iter().map(|(k, v)| format!("{k}={v}")).collect();
        kinds.sort();
        println!("E\t{item}\t{n}\t{acc}\t{rej}\t{pan}\t{}\t{}\t{}\t{}", WORST_PERMILLE.load(Ordering::Relaxed), PEAK_USED.load(Ordering::Relaxed), kinds.join(","), t_entry.elapsed().as_millis());
        if stop {
            break 'items;
        }
    }
    println!("DONE");
    std::process::exit(0)
}

// ------------------------------------------------------------------------------------------------
// parent

#[derive(Default)]
struct ShardResult {
    /// per entry: (cases, accepted, rejected, panics, worst permille, peak bytes, kinds, ms)
    entries: HashMap<usize, (u64, u64, u64, u64, u64, u64, String, u64)>,
    /// (item, case, message)
    panics: Vec<(usize, u64, String)>,
    /// (item, case, reason, detail)
    deaths: Vec<(usize, u64, String, String)>,
    abandoned: Vec<usize>,
    restarts: u64,
    unconfirmed_timeouts: Vec<(usize, u64)>,
}

struct ChildOut {
    code: Option<i32>,
    signal_desc: String,
    stdout: Vec<String>,
    stderr_tail: Vec<String>,
    done: bool,
}

fn run_child(exe: &std::path::Path, shard: usize, nshards: usize, tier: &str, seed: u64, from_item: usize, from_case: u64, max_cases: u64, trace: bool) -> ChildOut {
    let mut child = Command::new(exe)
        .args(["--worker", &shard.to_string(), &nshards.to_string(), tier, &seed.to_string(), &from_item.to_string(), &from_case.to_string(), &max_cases.to_string(), if trace { "1" } else { "0" }])
        .stdin(Stdio::null())
        .stdout(Stdio::piped())
        .stderr(Stdio::piped())
        .spawn()
        .unwrap_or_else(|e| {
            eprintln!("MACHINERY: cannot spawn worker: {e}");
            std::process::exit(2)
        });
    let stderr = child.stderr.take().unwrap();
    let err_thread = std::thread::spawn(move || {
        // keep the last lines only (the trace can be long)
        let mut tail: std::collections::VecDeque<String> = Default::default();
        let mut rd = BufReader::new(stderr);
        let mut line = String::new();
        loop {
            line.clear();
            match rd.read_line(&mut line) {
                Ok(0) | Err(_) => break,
                Ok(_) => {
                    tail.push_back(line.trim_end().to_string());
                    if tail.len() > 40 {
                        tail.pop_front();
                    }
                }
            }
        }
        tail.into_iter().collect::<Vec<String>>()
    });
    let mut out = String::new();
    child.stdout.take().unwrap().read_to_string(&mut out).ok();
    let status = child.wait().expect("harness: wait for worker");
    let stderr_tail = err_thread.join().expect("harness: stderr reader");
    let stdout: Vec<String> = out.lines().map(String::from).collect();
    let done = stdout.last().map(|l| l == "DONE").unwrap_or(false);
    ChildOut { code: status.code(), signal_desc: format!("{status}"), stdout, stderr_tail, done }
}

fn absorb(res: &mut ShardResult, co: &ChildOut) {
    for l in &co.stdout {
        let f: Vec<&str> = l.split('\t').collect();
        match f[0] {
            "E" if f.len() >= 9 => {
                let item: usize = f[1].parse().expect("harness: E line");
                let g = |i: usize| f[i].parse::<u64>().expect("harness: E line");
                let ent = res.entries.entry(item).or_insert((0, 0, 0, 0, 0, 0, String::new(), 0));
                ent.0 += g(2);
                ent.1 += g(3);
                ent.2 += g(4);
                ent.3 += g(5);
                ent.4 = ent.4.max(g(6));
                ent.5 = ent.5.max(g(7));
                if ent.6.is_empty() {
                    ent.6 = f[8].to_string();
                }
                ent.7 += f.get(9).and_then(|x| x.parse::<u64>().ok()).unwrap_or(0);
            }
            "F" if f.len() >= 4 => res.panics.push((f[1].parse().expect("harness: F line"), f[2].parse().expect("harness: F line"), f[3].to_string())),
            _ => {}
        }
    }
}

fn parse_case_line(tail: &[String], prefix: &str) -> Option<(usize, u64, String)> {
    tail.iter().rev().find(|l| l.starts_with(prefix)).and_then(|l| {
        let f: Vec<&str> = l.split(' ').collect();
        Some((f.get(1)?.parse().ok()?, f.get(2)?.parse().ok()?, f[3..].join(" ")))
    })
}

fn machinery(msg: &str, co: &ChildOut) -> ! {
    eprintln!("MACHINERY: {msg}; worker status {}; last stderr lines:", co.signal_desc);
    for l in &co.stderr_tail {
        eprintln!("  {l}");
    }
    std::process::exit(2)
}

/// Supervise one shard to completion.
fn supervise(exe: &std::path::Path, shard: usize, nshards: usize, tier: &str, seed: u64, n_entries: usize) -> ShardResult {
    let mut res = ShardResult::default();
    let (mut from_item, mut from_case) = (0usize, 0u64);
    let mut deaths_in: HashMap<usize, usize> = HashMap::new();
    loop {
        let co = run_child(exe, shard, nshards, tier, seed, from_item, from_case, 0, false);
        absorb(&mut res, &co);
        if co.done && co.code == Some(0) {
            return res;
        }
        if co.code == Some(2) {
            machinery("worker reported a harness failure", &co);
        }
        // a death: attributed by the worker itself (reserved exit codes) or through a traced re-run
        let (item, case, reason) = match co.code {
            Some(EXIT_ALLOC) | Some(EXIT_TIMEOUT) => match parse_case_line(&co.stderr_tail, "CASE ") {
                Some(x) => x,
                None => machinery("worker exited with a reserved code but named no case", &co),
            },
            _ => {
                // resume point of the traced run: after the last completed entry of this shard
                let last_done = res.entries.keys().copied().filter(|i| i % nshards == shard).max();
                let (ti, tc) = match last_done {
                    Some(d) if d >= from_item => (d + 1, 0),
                    _ => (from_item, from_case),
                };
                let tr = run_child(exe, shard, nshards, tier, seed, ti, tc, 0, true);
                if tr.done {
                    machinery("worker died without attribution and the traced re-run completed (nondeterministic death)", &co);
                }
                absorb(&mut res, &tr);
                match (tr.code, parse_case_line(&tr.stderr_tail, "CASE "), parse_case_line(&tr.stderr_tail, "T ")) {
                    (Some(EXIT_ALLOC) | Some(EXIT_TIMEOUT), Some(x), _) => x,
                    (Some(2), _, _) => machinery("traced worker reported a harness failure", &tr),
                    (_, _, Some((i, c, _))) => (i, c, format!("DIED {}", tr.signal_desc)),
                    _ => machinery("worker death cannot be attributed to a case", &tr),
                }
            }
        };
        if item >= n_entries {
            machinery("worker named a case outside the catalogue", &co);
        }
        res.restarts += 1;
        let mut confirmed = true;
        if reason.starts_with("TIMEOUT") && !deaths_in.contains_key(&item) {
            // confirm in a fresh process running exactly this case
            let c2 = run_child(exe, item % nshards, nshards, tier, seed, item, case, 1, false);
            confirmed = c2.code == Some(EXIT_TIMEOUT);
            if !confirmed {
                if c2.code != Some(0) {
                    // it died differently: still a death of this case
                    confirmed = true;
                } else {
                    res.unconfirmed_timeouts.push((item, case));
                }
            }
        }
        if confirmed {
            let d = deaths_in.entry(item).or_insert(0);
            *d += 1;
            res.deaths.push((item, case, reason.split(' ').next().unwrap_or("").to_string(), reason.clone()));
            if *d >= DEATHS_PER_ENTRY {
                res.abandoned.push(item);
                from_item = item + 1;
                from_case = 0;
                continue;
            }
        }
        from_item = item;
        from_case = case + 1;
    }
}

fn fail_key(e: &Entry, reason: &str, bytes: &[u8]) -> String {
    if e.ty == "Poplar1AggregationParam" && bytes.len() >= 2 && bytes[0] == 0xff && bytes[1] == 0xff {
        return format!("poplar1/agg_param/level=65535/{reason}");
    }
    format!("{}/{reason}", e.key())
}

fn main() {
    let args: Vec<String> = std::env::args().collect();
    if args.get(1).map(|s| s == "--worker").unwrap_or(false) {
        worker_main(&args);
    }
    let run = Run::from_args("C08", Level::FaultEnumeration);
    let thorough = !run.quick();
    let tier = if thorough { "thorough" } else { "quick" };
    let lim = limits(thorough);
    let cat: Catalogue = catalogue::build(&profile(thorough, run.seed));
    run.rule(
        "every (decodable type, admissible decoding parameter) pair (C07's catalogue + Poplar1 bits 10..=64 and 65536 with synthesised \
         records; `Poplar1::new(0)` separately under param/poplar1_bits0/...) x {crafted header extremes: aggregation-parameter level in \
         {0,7,8,0xFFFE,0xFFFF} x count in {0,1,2,2^16,2^32-1} x bodies 0..=40, u8/u16/u32 length prefixes at 0/len/len+-1/max, \
         output_share_len in {0,1,k,k+1,2^16,2^31-1,2^31,2^32-1}, all tag values; honest / all-zero / all-maximal records with \
         field-slot injections, padding bits, truncations, extensions by 1-2 bytes, single-byte substitutions; all strings of length \
         <= 2}; each call in a worker subprocess under an allocation budget (256*len + implied + 64 KiB) and a 2 s watchdog",
    );
    run.assume("allocation is measured as bytes requested during the call (alloc + alloc_zeroed sizes + realloc new sizes), not peak residency");
    run.assume("after 2 deaths inside one entry the remaining strings of that entry are not run (each hang costs the full time limit); the entry is listed under abandoned_entries");
    let exe = std::env::current_exe().expect("harness: current_exe");
    let nshards = par::threads().clamp(1, 32);
    let results: Mutex<Vec<ShardResult>> = Mutex::new(vec![]);
    std::thread::scope(|s| {
        for shard in 0..nshards {
            let (exe, results, n) = (&exe, &results, cat.entries.len());
            let seed = run.seed;
            s.spawn(move || {
                let r = supervise(exe, shard, nshards, tier, seed, n);
                results.lock().unwrap().push(r);
            });
        }
    });
    let results = results.into_inner().unwrap();
    let (mut cases, mut acc, mut rej, mut pan) = (0u64, 0u64, 0u64, 0u64);
    let mut worst: (u64, usize) = (0, 0);
    let covered;
    let mut restarts = 0u64;
    let mut slow: Vec<(u64, usize, u64)> = vec![];
    let mut abandoned = vec![];
    let mut unconfirmed = vec![];
    // at most 12 reports per (reason, type): a systematic defect is one finding, not hundreds
    let mut reported: HashMap<String, u32> = HashMap::new();
    let mut capped = 0u64;
    let mut allow = |reason: &str, ty: &str| -> bool {
        let c = reported.entry(format!("{reason}/{ty}")).or_insert(0);
        *c += 1;
        if *c > 12 {
            capped += 1;
        }
        *c <= 12
    };
    for r in &results {
        restarts += r.restarts;
        for (item, (n, a, rj, p, pm, _peak, kinds, ms)) in &r.entries {
            slow.push((*ms, *item, *n));
            cases += n;
            acc += a;
            rej += rj;
            pan += p;
            if *pm > worst.0 {
                worst = (*pm, *item);
            }
            let key = cat.entries[*item].key();
            for k in kinds.split(',') {
                run.distinct(fnv(format!("{key}|{}", k.split('=').next().unwrap_or("")).as_bytes()));
            }
        }
        for (item, case, msg) in &r.panics {
            let e = &cat.entries[*item];
            if !allow("panic", &e.ty) {
                continue;
            }
            let (kind, bytes) = e.case_bytes(&lim, *case).expect("harness: case of a reported panic does not exist");
            run.fail(
                &fail_key(e, "panic", &bytes),
                &format!("{} | {}: decoder panicked on {} bytes ({kind}): {msg} [bytes {}]", e.ty, e.param, bytes.len(), if bytes.len() <= 96 { hex(&bytes) } else { format!("{}...", hex(&bytes[..96])) }),
                json!({"type": e.ty, "param": e.param, "kind": kind, "case": case, "bytes": hex(&bytes), "panic": msg}),
            );
        }
        for (item, case, reason, detail) in &r.deaths {
            let e = &cat.entries[*item];
            if !allow(reason, &e.ty) {
                continue;
            }
            let (kind, bytes) = e.case_bytes(&lim, *case).expect("harness: case of a reported death does not exist");
            let what = match reason.as_str() {
                "ALLOC" => format!("decoder requested more memory than the budget {} bytes allows for a {}-byte input ({detail})", e.budget(bytes.len()), bytes.len()),
                "TIMEOUT" => format!("decoder did not return within {CALL_LIMIT_MS} ms on a {}-byte input (the first timeout of an entry is confirmed in a fresh process)", bytes.len()),
                _ => format!("decoder killed the process on a {}-byte input ({detail})", bytes.len()),
            };
            run.fail(
                &fail_key(e, &reason.to_lowercase(), &bytes),
                &format!("{} | {}: {what} ({kind}) [bytes {}]", e.ty, e.param, if bytes.len() <= 96 { hex(&bytes) } else { format!("{}...", hex(&bytes[..96])) }),
                json!({"type": e.ty, "param": e.param, "kind": kind, "case": case, "bytes": hex(&bytes), "death": detail}),
            );
        }
        for a in &r.abandoned {
            abandoned.push(cat.entries[*a].key());
        }
        for (i, c) in &r.unconfirmed_timeouts {
            unconfirmed.push(json!({"entry": cat.entries[*i].key(), "case": c}));
        }
    }
    let mut seen: std::collections::HashSet<usize> = Default::default();
    for r in &results {
        seen.extend(r.entries.keys().copied());
        seen.extend(r.abandoned.iter().copied());
    }
    covered = seen.len();
    if covered != cat.entries.len() {
        eprintln!("MACHINERY: workers covered {covered} of {} entries", cat.entries.len());
        std::process::exit(2);
    }
    run.count("evaluations", cases);
    run.count("accepted", acc);
    run.count("rejected", rej);
    run.count("panics", pan);
    run.count("entries", cat.entries.len() as u64);
    run.count("worker_restarts", restarts);
    run.count("failures_beyond_report_cap", capped);
    run.note("workers", json!(nshards));
    run.note("abandoned_entries", json!(abandoned));
    run.note("timeouts_not_confirmed_on_retry (ignored)", json!(unconfirmed));
    run.note(
        "allocation_closest_to_budget",
        json!({"permille_of_budget": worst.0, "entry": cat.entries.get(worst.1).map(|e| e.key())}),
    );
    slow.sort();
    slow.reverse();
    run.note("slowest_entries", json!(slow.iter().take(8).map(|(ms, i, n)| json!({"entry": cat.entries[*i].key(), "ms": ms, "cases": n})).collect::<Vec<_>>()));
    run.note("catalogue_notes", json!(cat.notes));
    for e in cat.entries.iter().step_by((cat.entries.len() / 10).max(1)) {
        run.sample(json!({"type": e.ty, "param": e.param, "implied_bytes": e.implied, "honest_encodings": e.honest.len(), "crafted": e.extras.len()}));
    }
    run.exhaustive(false);
    run.finish();
}
