//! C02 — Prio3 robustness: invalid or tampered reports never yield output shares.
//!
//! Engine: fault enumeration in three layers.
//!  (a) FLP level, small fields, exhaustive (shared with C05): every invalid input x every
//!      randomness, exact acceptance counts vs the soundness bound; every adversarial proof for
//!      Count/GF(17).
//!  (b) Prio3 level: invalid encodings with honestly computed proofs, sharded by `Prio3<Raw<T>>`
//!      for honest `Prio3<T>` aggregators; the decision is compared with the one the specification
//!      prescribes for the randomness derived by a harness-side transcription of the draft.
//!  (c) tamper enumeration after honest sharding: every byte of every message x alteration alphabet,
//!      pairs of alterations, dropped/duplicated/reordered/substituted verifier shares.
use prio::codec::{Decode, Encode, ParameterizedDecode};
use prio::field::verif::{FieldV12289, FieldV17, FieldV97};
use prio::field::{Field128, Field64};
use prio::flp::Type;
use prio::vdaf::prio3::{Prio3, Prio3InputShare};
use prio::vdaf::test_utils::TestVectorClient;
use prio::vdaf::xof::XofTurboShake128;
use pvh::engine::tape::{tape_alphabet, Tape};
use pvh::engine::{fnv, hex, par, Level, Run};
use pvh::kit::flpexh::{adversarial_count, vf, ForgedGadget, SmallCfg, SmallExh};
use pvh::kit::flpkit::{build, Spec, Visit};
use pvh::kit::ints::{addmod, nth_vector, pow_u64, IntConv, KitField};
use pvh::kit::prio3spec::{derive, predicted_decision, query_rands, Params, Raw};
use pvh::kit::vdafkit::{verify_report, Failure, Stage, Transcript, VerifyOpts};
use serde_json::json;
use std::collections::BTreeMap;
use std::sync::Mutex;

type P3<T> = Prio3<T, XofTurboShake128, 32>;

fn ctx_for(i: usize) -> Vec<u8> {
    match i % 3 {
        0 => b"c02".to_vec(),
        1 => vec![],
        _ => (0..70).map(|k| (k * 5 + 1) as u8).collect(),
    }
}

/// Invalid encodings derived from valid ones: non-bits at boundary positions, affine-only
/// near-misses, wrong weights / norms.
fn invalid_menu(spec: &Spec, p: u128, all_positions: bool) -> Vec<Vec<u128>> {
    let n = spec.input_len();
    let mut out: Vec<Vec<u128>> = vec![];
    let c = spec.chunk().max(1);
    let mut positions: Vec<usize> = if all_positions || n <= 12 { (0..n).collect() } else { vec![0, 1, c - 1, c.min(n - 1), n / 2, n - 2, n - 1] };
    positions.retain(|i| *i < n);
    positions.dedup();
    for v in spec.valid_examples() {
        for &i in &positions {
            for bad in [2 % p, p - 1, p / 2, 3 % p] {
                let mut w = v.clone();
                w[i] = bad;
                out.push(w);
            }
            // flip the bit (breaks weight / norm checks for the affine-checked types)
            let mut w = v.clone();
            w[i] = if w[i] == 0 { 1 } else if w[i] == 1 { 0 } else { 3 % p };
            out.push(w);
            // affine-preserving pair: +1 here, -1 at the next position
            let j = (i + 1) % n;
            if j != i {
                let mut w = v.clone();
                w[i] = addmod(w[i], 1, p);
                w[j] = addmod(w[j], p - 1, p);
                out.push(w);
            }
        }
    }
    out.push(vec![0; n]);
    out.push(vec![1; n]);
    out.push(vec![p - 1; n]);
    out.retain(|x| !spec.is_valid(x, p));
    out.sort();
    out.dedup();
    out
}

struct Tally {
    by_stage: BTreeMap<String, u64>,
    legit_false_accepts: u64,
    transcription_mismatch: u64,
}

struct Layer<'a> {
    run: &'a Run,
    aggs: Vec<u8>,
    proofs: Vec<u8>,
    n_keys: usize,
    /// small field: acceptances of invalid inputs are possible and predicted exactly
    small: bool,
    /// enumerate all of F^n as inputs (tiny instances only)
    all_inputs: bool,
    tamper: TamperLevel,
    tally: &'a Mutex<Tally>,
}

#[derive(Clone, Copy, PartialEq)]
enum TamperLevel {
    None,
    Light,
    Full,
}

fn stage_name(s: &Stage) -> String {
    match s {
        Stage::DecodePublicShare => "decode_public_share".into(),
        Stage::DecodeInputShare(_) => "decode_input_share".into(),
        Stage::VerifyInit(_) => "verify_init".into(),
        Stage::CodecVerifyState(..) => "codec_state".into(),
        Stage::CodecVerifierShare(..) => "decode_verifier_share".into(),
        Stage::SharesToMessage(_) => "verifier_shares_to_message".into(),
        Stage::CodecVerifierMessage(..) => "decode_verifier_message".into(),
        Stage::VerifyNext(..) => "verify_next".into(),
        Stage::CodecOutputShare(_) => "codec_output".into(),
        Stage::Protocol(_) => "protocol".into(),
        Stage::Panic(w) => format!("PANIC:{w}"),
    }
}

fn out_sum<F: KitField>(outs: &[Vec<u8>], len: usize) -> Vec<u128>
where
    F::Integer: IntConv,
{
    let p = F::p();
    let mut s = vec![0u128; len];
    for o in outs {
        for (k, ch) in o.chunks(F::ENCODED_SIZE).enumerate() {
            let e = F::get_decoded(ch).unwrap();
            s[k] = addmod(s[k], e.val(), p);
        }
    }
    s
}

impl<'a, F: KitField> Visit<F> for Layer<'a>
where
    F::Integer: IntConv,
{
    type Out = ();
    fn visit<T: Type<Field = F> + Send + Sync + 'static>(self, spec: &Spec, t: T) {
        let run = self.run;
        let p = F::p();
        let name = format!("{}@GF({})", spec.name(), p);
        let alg = spec.alg_id();
        let jr = t.joint_rand_len() > 0;
        let tapes = tape_alphabet(run.seed ^ fnv(name.as_bytes()), self.n_keys.saturating_sub(3));
        // ---------------- (b) invalid (and control: valid) encodings with honest proofs
        let mut inputs: Vec<Vec<u128>> = if self.all_inputs {
            let n = pow_u64(p as u64, spec.input_len()).unwrap();
            (0..n).map(|i| nth_vector(i, spec.input_len(), p as u64)).collect()
        } else {
            let mut v = spec.valid_examples();
            v.extend(invalid_menu(spec, p, false));
            v
        };
        inputs.dedup();
        let mut items = vec![];
        for &na in &self.aggs {
            for &np in &self.proofs {
                for xi in 0..inputs.len() {
                    items.push((na, np, xi));
                }
            }
        }
        par::for_each(items.len() as u64, |ix| {
            let (na, np, xi) = items[ix as usize];
            let x = &inputs[xi];
            let valid = spec.is_valid(x, p);
            let xf: Vec<F> = vf(x);
            let honest: P3<T> = Prio3::new(na, np, alg, t.clone()).unwrap();
            let rawv: P3<Raw<T>> = Prio3::new(na, np, alg, Raw(t.clone())).unwrap();
            let params = Params { alg, num_aggregators: na, num_proofs: np };
            for (ki, (tname, tape)) in tapes.iter().enumerate().take(self.n_keys) {
                let ctx = ctx_for(ki + xi);
                let nonce: [u8; 16] = tape.array(10 + xi as u64);
                let vk: [u8; 32] = tape.array(20 + xi as u64 * 3 + ki as u64);
                let random = tape.bytes(30 + xi as u64, if jr { 2 * na as usize * 32 } else { na as usize * 32 });
                let (ps, shares) = match rawv.shard_with_random(&ctx, &xf, &nonce, &random) {
                    Ok(v) => v,
                    Err(e) => {
                        run.fail(&format!("b/{name}/shard"), &format!("{name}: Raw sharding failed: {e}"), json!({"spec": spec.name()}));
                        return;
                    }
                };
                run.count("evaluations", 1);
                // transcription conformance (binds the harness model to the code)
                let d = derive(&t, &params, &ctx, &nonce, &random, &xf);
                let mut conform = true;
                let want_ps: Vec<u8> = d.joint_rand_parts.iter().flat_map(|s| s.to_vec()).collect();
                if ps.get_encoded().unwrap() != want_ps {
                    conform = false;
                }
                if let Prio3InputShare::Leader { measurement_share, .. } = &shares[0] {
                    if measurement_share != &d.meas_shares[0] {
                        conform = false;
                    }
                }
                let predicted = if conform {
                    let qr: Vec<F> = query_rands(&params, &ctx, &vk, &nonce, t.query_rand_len() * np as usize);
                    Some(predicted_decision(&t, &params, &d, &qr, &xf).map_err(|e| e.to_string()))
                } else {
                    self.tally.lock().unwrap().transcription_mismatch += 1;
                    None
                };
                let res = verify_report::<P3<T>, 32>(&honest, &vk, &ctx, &(), &nonce, &ps, &shares, &VerifyOpts::wire());
                let case = || json!({"spec": spec.name(), "p": p.to_string(), "aggs": na, "proofs": np, "x": x.iter().map(|v| v.to_string()).collect::<Vec<_>>(), "tape": tname, "key_index": ki, "layer": "b"});
                match res {
                    Ok((_outs, tr)) => {
                        let sum = out_sum::<F>(&tr.output_shares, t.output_len());
                        let want = spec.truncate(x, p);
                        if sum != want {
                            run.fail(&format!("b/{name}/output_sum"), &format!("{name}: output shares sum to {:?}, truncation of the sharded encoding is {:?}", sum, want), case());
                        }
                        match &predicted {
                            Some(Ok(true)) => {
                                if !valid {
                                    if self.small {
                                        self.tally.lock().unwrap().legit_false_accepts += 1;
                                    } else {
                                        run.fail(&format!("b/{name}/accepted_invalid"), &format!("{name}: INVALID encoding {:?} with an honest proof was accepted by all {na} aggregators (deployed field: the specified circuit vanishing has probability ~2^-60)", x), case());
                                    }
                                }
                            }
                            Some(Ok(false)) => run.fail(&format!("b/{name}/accepted_against_flp"), &format!("{name}: {} encoding {:?} completed verification everywhere although the FLP rejects it for the derived randomness", if valid { "valid" } else { "INVALID" }, x), case()),
                            Some(Err(e)) => run.fail(&format!("b/{name}/accepted_refused_randomness"), &format!("{name}: report completed although the derived query randomness must be refused ({e})"), case()),
                            None => {
                                if !valid && !spec.valid_output(&sum, p) {
                                    run.fail(&format!("b/{name}/accepted_invalid"), &format!("{name}: INVALID encoding {:?} accepted; outputs sum to the invalid aggregate {:?}", x, sum), case());
                                }
                            }
                        }
                        *self.tally.lock().unwrap().by_stage.entry("accepted".into()).or_insert(0) += 1;
                    }
                    Err(Failure { stage, msg }) => {
                        if let Stage::Panic(w) = &stage {
                            run.fail(&format!("b/{name}/panic"), &format!("{name}: panic in {w}: {msg}"), case());
                        }
                        if valid {
                            // a valid report may only fail through the specified refusal
                            let legit = matches!(&predicted, Some(Err(_)));
                            if !legit {
                                run.fail(&format!("b/{name}/valid_rejected"), &format!("{name}: VALID encoding {:?} rejected at {:?}: {msg}", x, stage), case());
                            }
                        }
                        *self.tally.lock().unwrap().by_stage.entry(stage_name(&stage)).or_insert(0) += 1;
                    }
                }
                run.distinct(fnv(format!("b/{name}/{na}/{np}/{:?}/{ki}", x).as_bytes()));
            }
        });

        // ---------------- (c) tampering after honest sharding
        if self.tamper == TamperLevel::None {
            return;
        }
        let full = self.tamper == TamperLevel::Full;
        let combos: Vec<(u8, u8)> = self.aggs.iter().flat_map(|a| self.proofs.iter().map(move |p| (*a, *p))).collect();
        for &(na, np) in &combos {
            let honest: P3<T> = Prio3::new(na, np, alg, t.clone()).unwrap();
            let rawv: P3<Raw<T>> = Prio3::new(na, np, alg, Raw(t.clone())).unwrap();
            let valids = spec.valid_examples();
            for (vi, x) in valids.iter().enumerate().take(if full { 2 } else { 1 }) {
                let xf: Vec<F> = vf(x);
                let (_tn, tape) = &tapes[(vi + 3) % tapes.len()];
                let ctx = ctx_for(vi);
                let nonce: [u8; 16] = tape.array(77);
                let vk: [u8; 32] = tape.array(78);
                let random = tape.bytes(79, if jr { 2 * na as usize * 32 } else { na as usize * 32 });
                let (ps, shares) = rawv.shard_with_random(&ctx, &xf, &nonce, &random).unwrap();
                let base = verify_report::<P3<T>, 32>(&honest, &vk, &ctx, &(), &nonce, &ps, &shares, &VerifyOpts::wire());
                let tr: Transcript = match base {
                    Ok((_, tr)) => tr,
                    Err(f) => {
                        if self.small {
                            continue; // refused randomness for this key: pick another report
                        }
                        run.fail(&format!("c/{name}/baseline"), &format!("{name}: untampered honest report failed: {:?}", f), json!({"spec": spec.name()}));
                        continue;
                    }
                };
                let want = spec.truncate(x, p);
                // message sites
                let mut sites: Vec<(&'static str, usize, usize, usize)> = vec![]; // (kind, round, agg, len)
                sites.push(("public_share", 0, 0, tr.public_share.len()));
                for (i, b) in tr.input_shares.iter().enumerate() {
                    sites.push(("input_share", 0, i, b.len()));
                }
                for (i, b) in tr.verifier_shares[0].iter().enumerate() {
                    sites.push(("verifier_share", 0, i, b.len()));
                }
                sites.push(("verifier_message", 0, 0, tr.verifier_messages[0].len()));
                // single alterations
                let mut alts: Vec<(usize, usize, u8)> = vec![]; // (site, pos, new byte)
                for (si, (kind, round, agg, len)) in sites.iter().enumerate() {
                    let orig: &Vec<u8> = match *kind {
                        "public_share" => &tr.public_share,
                        "input_share" => &tr.input_shares[*agg],
                        "verifier_share" => &tr.verifier_shares[*round][*agg],
                        _ => &tr.verifier_messages[*round],
                    };
                    for pos in 0..*len {
                        let b = orig[pos];
                        let mut vals: Vec<u8> = if F::ENCODED_SIZE == 1 && full {
                            (0..=255u8).collect()
                        } else if full {
                            let mut v: Vec<u8> = (0..8).map(|k| b ^ (1 << k)).collect();
                            v.extend([b.wrapping_add(1), b.wrapping_sub(1), 0, 0xff]);
                            v
                        } else {
                            vec![b ^ 1, b ^ 0x80, b.wrapping_add(1), 0]
                        };
                        vals.retain(|v| *v != b);
                        vals.sort();
                        vals.dedup();
                        for v in vals {
                            alts.push((si, pos, v));
                        }
                    }
                }
                let accepted_bad = Mutex::new(0u64);
                let finished = Mutex::new(0u64);
                let run_alt = |edits: &[(usize, usize, u8)]| -> Result<Vec<u128>, Failure> {
                    let tam = |kind: &str, round: usize, agg: usize, bytes: &[u8]| -> Option<Vec<u8>> {
                        let mut out: Option<Vec<u8>> = None;
                        for (si, pos, v) in edits {
                            let (k, r, a, _) = sites[*si];
                            if k == kind && r == round && (a == agg || kind == "public_share" || kind == "verifier_message") {
                                let o = out.get_or_insert_with(|| bytes.to_vec());
                                if *pos < o.len() {
                                    o[*pos] = *v;
                                }
                            }
                        }
                        out
                    };
                    verify_report::<P3<T>, 32>(&honest, &vk, &ctx, &(), &nonce, &ps, &shares, &VerifyOpts::tamper(&tam)).map(|(_, tr2)| out_sum::<F>(&tr2.output_shares, t.output_len()))
                };
                let judge = |edits: &[(usize, usize, u8)], res: Result<Vec<u128>, Failure>, single: bool| {
                    run.count("evaluations", 1);
                    run.count("tamper_cases", 1);
                    let desc = || edits.iter().map(|(si, pos, v)| format!("{}[agg {}] byte {} := {:#04x}", sites[*si].0, sites[*si].2, pos, v)).collect::<Vec<_>>().join(" + ");
                    let case = || json!({"spec": spec.name(), "p": p.to_string(), "aggs": na, "proofs": np, "layer": "c", "edits": edits.iter().map(|(si, pos, v)| json!({"msg": sites[*si].0, "agg": sites[*si].2, "pos": pos, "byte": v})).collect::<Vec<_>>()});
                    match res {
                        Ok(sum) => {
                            *finished.lock().unwrap() += 1;
                            if !spec.valid_output(&sum, p) {
                                if self.small {
                                    *accepted_bad.lock().unwrap() += 1;
                                } else {
                                    run.fail(&format!("c/{name}/invalid_output/{}", sites[edits[0].0].0), &format!("{name}: after tampering ({}) all aggregators finished and their output shares sum to {:?}, which is not the truncation of a valid encoding", desc(), sum), case());
                                }
                            } else if single && !self.small {
                                // deployed field, byte-level single alteration: completing everywhere has negligible probability
                                run.fail(&format!("c/{name}/tamper_undetected/{}", sites[edits[0].0].0), &format!("{name}: tampering ({}) was not detected by any aggregator (outputs {:?}, honest {:?})", desc(), sum, want), case());
                            }
                        }
                        Err(Failure { stage, msg }) => {
                            if let Stage::Panic(w) = &stage {
                                run.fail(&format!("c/{name}/panic/{w}"), &format!("{name}: tampering ({}) made {w} panic: {msg}", desc()), case());
                            }
                            *self.tally.lock().unwrap().by_stage.entry(format!("tamper:{}", stage_name(&stage))).or_insert(0) += 1;
                        }
                    }
                };
                par::for_each(alts.len() as u64, |ai| {
                    let e = [alts[ai as usize]];
                    judge(&e, run_alt(&e), true);
                });
                run.distinct_many(alts.iter().map(|(si, pos, v)| fnv(format!("c/{name}/{na}/{vi}/{si}/{pos}/{v}").as_bytes())));
                // length alterations of every message: bytes appended (1, one field element, one 32-byte seed; zeros,
                // 0xA5 or a copy of the message's own tail) or removed from the end — an altered message must not
                // complete verification everywhere
                {
                    let esz = F::ENCODED_SIZE;
                    let mut lalts: Vec<(usize, String, i64, u8)> = vec![]; // (site, label, +append/-truncate length, fill: 0, 0xA5, 1 = own tail)
                    for (si, (_, _, _, len)) in sites.iter().enumerate() {
                        for k in [1usize, esz, 32] {
                            for fill in [0u8, 0xA5, 1] {
                                if fill == 1 && *len < k {
                                    continue;
                                }
                                lalts.push((si, format!("append {k} bytes ({})", ["zeros", "own tail", "0xA5"][match fill { 0 => 0, 1 => 1, _ => 2 }]), k as i64, fill));
                            }
                            if *len >= k {
                                lalts.push((si, format!("drop the last {k} bytes"), -(k as i64), 0));
                            }
                        }
                    }
                    par::for_each(lalts.len() as u64, |li| {
                        let (si, label, delta, fill) = &lalts[li as usize];
                        let (k, r, a, _) = sites[*si];
                        let tam = |kind: &str, round: usize, agg: usize, bytes: &[u8]| -> Option<Vec<u8>> {
                            if kind == k && round == r && (a == agg || kind == "public_share" || kind == "verifier_message") {
                                let mut o = bytes.to_vec();
                                if *delta < 0 {
                                    o.truncate(o.len().saturating_sub((-*delta) as usize));
                                } else {
                                    let n = *delta as usize;
                                    let ext: Vec<u8> = match fill { 1 => o[o.len().saturating_sub(n)..].to_vec(), f => vec![*f; n] };
                                    o.extend(ext);
                                }
                                Some(o)
                            } else {
                                None
                            }
                        };
                        run.count("evaluations", 1);
                        run.count("length_alterations", 1);
                        let case = || json!({"spec": spec.name(), "p": p.to_string(), "aggs": na, "proofs": np, "layer": "c-length", "message": k, "agg": a, "alteration": label});
                        match verify_report::<P3<T>, 32>(&honest, &vk, &ctx, &(), &nonce, &ps, &shares, &VerifyOpts::tamper(&tam)) {
                            Ok(_) => run.fail(&format!("c/{name}/length_alteration_undetected/{k}"), &format!("{name}: {k}[agg {a}] altered in transit ({label}) and verification still completed at all {na} aggregators"), case()),
                            Err(Failure { stage, msg }) => {
                                if let Stage::Panic(w) = &stage {
                                    run.fail(&format!("c/{name}/panic/{w}"), &format!("{name}: {k}[agg {a}] {label} made {w} panic: {msg}"), case());
                                }
                            }
                        }
                    });
                }
                // pairs of alterations (thorough): one from each of two different messages
                if full {
                    let stride = (alts.len() / 300).max(1);
                    let sub: Vec<(usize, usize, u8)> = alts.iter().step_by(stride).cloned().collect();
                    let mut pairs = vec![];
                    for i in 0..sub.len() {
                        for j in i + 1..sub.len() {
                            if sub[i].0 != sub[j].0 {
                                pairs.push((sub[i], sub[j]));
                            }
                        }
                    }
                    par::for_each(pairs.len() as u64, |pi| {
                        let e = [pairs[pi as usize].0, pairs[pi as usize].1];
                        judge(&e, run_alt(&e), false);
                    });
                    run.count("tamper_pairs", pairs.len() as u64);
                }
                // small fields: acceptances with invalid outputs are bounded by the soundness error
                if self.small {
                    let bad = *accepted_bad.lock().unwrap();
                    let n = alts.len() as f64;
                    let e = spec.soundness_bound(p) * n;
                    if (bad as f64) > e + 6.0 * e.sqrt() + 10.0 {
                        run.fail(&format!("c/{name}/small_field_tamper_rate"), &format!("{name}: {bad} of {} single alterations finished with an invalid aggregate; soundness allows about {:.1}", alts.len(), e), json!({"spec": spec.name(), "p": p.to_string()}));
                    }
                    run.count("small_field_tamper_invalid_accepts_within_bound", bad);
                }
                // list-level manipulation of verifier shares
                let n = na as usize;
                let mut list_ops: Vec<(String, Box<dyn Fn(Vec<Vec<u8>>) -> Vec<Vec<u8>> + Sync>)> = vec![];
                for i in 0..n {
                    list_ops.push((format!("drop[{i}]"), Box::new(move |mut l| {
                        l.remove(i);
                        l
                    })));
                    list_ops.push((format!("duplicate[{i}]"), Box::new(move |mut l| {
                        let c = l[i].clone();
                        l.insert(i, c);
                        l
                    })));
                    for j in 0..n {
                        if i != j {
                            list_ops.push((format!("replace[{i}<-{j}]"), Box::new(move |mut l| {
                                l[i] = l[j].clone();
                                l
                            })));
                            if i < j {
                                list_ops.push((format!("swap[{i},{j}]"), Box::new(move |mut l| {
                                    l.swap(i, j);
                                    l
                                })));
                            }
                        }
                    }
                    list_ops.push((format!("truncate_share[{i}]"), Box::new(move |mut l| {
                        let k = l[i].len() - F::ENCODED_SIZE;
                        l[i].truncate(k);
                        l
                    })));
                    list_ops.push((format!("zero_share[{i}]"), Box::new(move |mut l| {
                        // all-zero verifier part, joint-rand part kept
                        let keep = if jr { 32 } else { 0 };
                        let k = l[i].len() - keep;
                        for b in l[i][..k].iter_mut() {
                            *b = 0;
                        }
                        l
                    })));
                }
                list_ops.push(("empty".into(), Box::new(|_| vec![])));
                // neutral count changes: an extra all-zero verifier share; two shares merged into their sum
                list_ops.push(("duplicate_append_zero".into(), Box::new(move |mut l| {
                    let keep = if jr { 32 } else { 0 };
                    let mut z = l[0].clone();
                    let k = z.len() - keep;
                    for b in z[..k].iter_mut() {
                        *b = 0;
                    }
                    l.push(z);
                    l
                })));
                if n >= 2 {
                    list_ops.push(("drop_by_merging[0,1]".into(), Box::new(move |mut l| {
                        let keep = if jr { 32 } else { 0 };
                        let k = l[0].len() - keep;
                        let b1 = l.remove(1);
                        let mut merged = vec![];
                        for (c0, c1) in l[0][..k].chunks(F::ENCODED_SIZE).zip(b1[..k].chunks(F::ENCODED_SIZE)) {
                            let s = F::get_decoded(c0).unwrap() + F::get_decoded(c1).unwrap();
                            merged.extend(s.get_encoded().unwrap());
                        }
                        merged.extend_from_slice(&l[0][k..]);
                        l[0] = merged;
                        l
                    })));
                }
                for (opname, op) in &list_ops {
                    let hook = |_round: usize, l: Vec<Vec<u8>>| op(l);
                    let opts = VerifyOpts { wire: true, tamper: None, shares_hook: Some(&hook) };
                    let res = verify_report::<P3<T>, 32>(&honest, &vk, &ctx, &(), &nonce, &ps, &shares, &opts);
                    run.count("evaluations", 1);
                    run.count("list_ops", 1);
                    let case = json!({"spec": spec.name(), "p": p.to_string(), "aggs": na, "layer": "c-list", "op": opname});
                    match res {
                        Ok((_, tr2)) => {
                            let sum = out_sum::<F>(&tr2.output_shares, t.output_len());
                            // "equivalently" form: finishing is fine iff the outputs are those of the valid report
                            let count_changed = opname.starts_with("drop") || opname.starts_with("duplicate") || opname == "empty";
                            if count_changed && spec.valid_output(&sum, p) {
                                // the statement's "equivalently" form holds; refusing a wrong share *count*
                                // is C16's claim and is decided there
                                run.count("wrong_share_count_accepted_with_valid_output", 1);
                            } else if !spec.valid_output(&sum, p) {
                                run.fail(&format!("c/{name}/list_invalid_output"), &format!("{name}: verifier shares {opname}: finished with invalid aggregate {:?}", sum), case);
                            } else if !self.small && sum == want && (opname.starts_with("replace") || opname.starts_with("truncate") || opname.starts_with("zero")) {
                                run.fail(&format!("c/{name}/list_undetected/{}", opname.split('[').next().unwrap()), &format!("{name}: verifier shares {opname} not detected"), case);
                            }
                        }
                        Err(Failure { stage, msg }) => {
                            if let Stage::Panic(w) = &stage {
                                run.fail(&format!("c/{name}/list_panic/{}", opname.split('[').next().unwrap()), &format!("{name}: verifier shares {opname} made {w} panic: {msg}"), case);
                            }
                        }
                    }
                }
                run.sample(json!({"layer": "c", "instance": name, "aggregators": na, "single_alterations": alts.len(), "finished": *finished.lock().unwrap(), "list_ops": list_ops.len(), "honest_output": want.iter().map(|v| v.to_string()).collect::<Vec<_>>()}));
            }
        }
    }
}

/// (d) The library's named constructors (serial and multithreaded): a measurement OUTSIDE the range the
/// caller configured is offered to the constructor-built client; whenever sharding succeeds and all
/// constructor-built aggregators finish, the unsharded single-report result must be a valid measurement for
/// the REQUESTED parameters (reference predicate on plain integers). Parameters are pairwise distinct, so
/// an instance built with transposed or otherwise wrong arguments admits something the request forbids.
fn ctor_layer(run: &Run, tape: &Tape) {
    use prio::vdaf::{Aggregator, Client, Collector};
    fn go<V, R: std::fmt::Debug>(run: &Run, tape: &Tape, name: &str, vdaf: Result<V, prio::vdaf::VdafError>, meas: Vec<V::Measurement>, valid: impl Fn(&R) -> bool)
    where
        V: Client<16> + Aggregator<32, 16, AggregationParam = ()> + Collector<AggregateResult = R>,
        V::Measurement: std::fmt::Debug,
        V::VerifyState: Encode + for<'a> ParameterizedDecode<(&'a V, usize)>,
    {
        let vdaf = match vdaf {
            Ok(v) => v,
            Err(e) => {
                run.fail(&format!("ctor/{name}/new"), &format!("{name} refused admissible parameters: {e}"), json!({"ctor": name}));
                return;
            }
        };
        for (mi, m) in meas.iter().enumerate() {
            run.count("evaluations", 1);
            run.count("constructor_out_of_range_measurements", 1);
            let nonce: [u8; 16] = tape.array(600 + mi as u64);
            let vk: [u8; 32] = tape.array(601);
            let sharded = match pvh::engine::catch(|| vdaf.shard(b"c02 ctor", m, &nonce)) {
                Ok(Ok(x)) => x,
                Ok(Err(_)) => continue, // refused at the client: nothing reaches the aggregators
                Err(_) => continue,     // a panic here is C16's subject
            };
            let Ok((outs, _)) = verify_report::<V, 32>(&vdaf, &vk, b"c02 ctor", &(), &nonce, &sharded.0, &sharded.1, &VerifyOpts::wire()) else { continue };
            let n = outs.len();
            let mut aggs = vec![];
            for a in 0..n {
                match vdaf.aggregate(&(), [outs[a].clone()]) {
                    Ok(s) => aggs.push(s),
                    Err(_) => break,
                }
            }
            if aggs.len() != n {
                continue;
            }
            if let Ok(Ok(r)) = pvh::engine::catch(|| vdaf.unshard(&(), aggs, 1)) {
                if !valid(&r) {
                    run.fail(&format!("ctor/{name}/out_of_range_accepted"), &format!("{name}: the out-of-range measurement {:?} was sharded, verified by all {n} aggregators and aggregated to {:?}, which is not a valid measurement for the requested parameters", m, r), json!({"ctor": name, "measurement": format!("{:?}", m)}));
                    return;
                }
            }
        }
        run.distinct(fnv(format!("ctor/{name}").as_bytes()));
    }
    for na in [2u8, 3] {
        go(run, tape, &format!("new_sum({na},max=5)"), Prio3::new_sum(na, 5), vec![6u64, 7, 8, 255, u64::MAX], |r: &u64| *r <= 5);
        go(run, tape, &format!("new_average({na},max=5)"), Prio3::new_average(na, 5), vec![6u128, 7, 8, 1 << 70], |r: &f64| *r <= 5.0);
        let sv = |r: &Vec<u128>| r.len() == 4 && r.iter().all(|x| *x <= 2);
        let svm: Vec<Vec<u128>> = vec![vec![3, 0, 0, 0], vec![0, 0, 0, 3], vec![2, 2, 2, 4], vec![7, 7, 7, 7], vec![1, 1, 1], vec![1, 1, 1, 1, 1], vec![u128::MAX, 0, 0, 0]];
        go(run, tape, &format!("new_sum_vec({na},max=2,len=4,chunk=3)"), Prio3::new_sum_vec(na, 2, 4, 3), svm.clone(), sv);
        go(run, tape, &format!("new_sum_vec_multithreaded({na},max=2,len=4,chunk=3)"), Prio3::new_sum_vec_multithreaded(na, 2, 4, 3), svm, sv);
        let hv = |r: &Vec<u128>| r.len() == 5 && r.iter().all(|x| *x <= 1) && r.iter().sum::<u128>() == 1;
        let hm: Vec<usize> = vec![5, 6, 7, 8, 255, usize::MAX];
        go(run, tape, &format!("new_histogram({na},len=5,chunk=2)"), Prio3::new_histogram(na, 5, 2), hm.clone(), hv);
        go(run, tape, &format!("new_histogram_multithreaded({na},len=5,chunk=2)"), Prio3::new_histogram_multithreaded(na, 5, 2), hm, hv);
        // 8 buckets, at most 2 set, chunk length 3 (and 5): weights 3..8 are out of range
        let mv = |r: &Vec<u128>| r.len() == 8 && r.iter().all(|x| *x <= 1) && r.iter().sum::<u128>() <= 2;
        let mm: Vec<Vec<bool>> = (3..=8usize).map(|w| (0..8).map(|i| i < w).collect()).chain([(0..8).map(|i| i >= 5).collect(), vec![true; 7], vec![true; 9]]).collect();
        for chunk in [3usize, 5] {
            go(run, tape, &format!("new_multihot_count_vec({na},len=8,max_weight=2,chunk={chunk})"), Prio3::new_multihot_count_vec(na, 8, 2, chunk), mm.clone(), mv);
            go(run, tape, &format!("new_multihot_count_vec_multithreaded({na},len=8,max_weight=2,chunk={chunk})"), Prio3::new_multihot_count_vec_multithreaded(na, 8, 2, chunk), mm.clone(), mv);
        }
        let lv = |r: &Vec<u128>| r.len() == 4 && r.iter().sum::<u128>() <= 6;
        let lm: Vec<Vec<u128>> = vec![vec![6, 1, 0, 0], vec![2, 2, 2, 1], vec![7, 0, 0, 0], vec![6, 6, 6, 6], vec![0, 0, 0, 8], vec![3, 3, 3], vec![1, 1, 1, 1, 3]];
        go(run, tape, &format!("new_l1_bound_sum({na},max=6,len=4,chunk=5)"), Prio3::new_l1_bound_sum(na, 6, 4, 5), lm, lv);
    }
}

fn main() {
    let run = Run::from_args("C02", Level::FaultEnumeration);
    run.rule("(a) small-field FLP: every invalid input x every randomness (exact counts vs soundness bound), every adversarial proof for Count/GF(17); (b) Prio3: invalid-encoding menu (non-bits at boundary positions, bit flips, affine-preserving pairs, constants; all of F^n for tiny instances) with honest proofs x aggregators x proofs x key/nonce tapes, decision compared with the specification's for the derived randomness; (c) every byte of every message x alteration alphabet, pairs, verifier-share list manipulations; (d) every named constructor (serial and multithreaded, pairwise distinct parameters) x out-of-range measurements: whatever is sharded, verified and aggregated must be valid for the requested parameters. distinct = distinct (instance, input, key) reports in (b) and distinct alterations in (c); non-trivial = the report was decoded and reached verify_init");
    run.assume("deployed fields: an invalid encoding / a single-byte alteration passing the proof system has probability ~2^-57 per case and is reported as a violation");
    run.assume("(b) uses the library FLP on the whole input as predictor; the FLP itself is decided by C05");
    let q = run.quick();
    let tally = Mutex::new(Tally { by_stage: BTreeMap::new(), legit_false_accepts: 0, transcription_mismatch: 0 });

    // ---- (a)
    let c = |i, j, p, qv| SmallCfg { cap_inputs: i, cap_joint: j, cap_prove: p, cap_query: qv };
    let a_list: Vec<(Spec, SmallCfg)> = if q {
        vec![(Spec::Count, c(17, 1, 289, 1)), (Spec::Sum { max: 2 }, c(289, 1, 3, 36)), (Spec::SumVec { max: 1, len: 2, chunk: 2 }, c(289, 17, 3, 1)), (Spec::Histogram { len: 2, chunk: 2 }, c(289, 17, 1, 36)), (Spec::L1 { max: 1, len: 1, chunk: 2 }, c(289, 17, 1, 36))]
    } else {
        vec![(Spec::Count, c(17, 1, 289, 1)), (Spec::Sum { max: 3 }, c(289, 1, 17, 289)), (Spec::SumVec { max: 1, len: 3, chunk: 2 }, c(4913, 289, 1, 1)), (Spec::Histogram { len: 3, chunk: 2 }, c(4913, 289, 1, 36)), (Spec::Multihot { len: 2, max_weight: 1, chunk: 2 }, c(4913, 289, 1, 36)), (Spec::L1 { max: 1, len: 1, chunk: 2 }, c(289, 17, 3, 289))]
    };
    for (spec, cfg) in a_list {
        build::<FieldV17, _>(&spec, SmallExh { run: &run, cfg, thin_r: true }).unwrap();
    }
    adversarial_count(&run, !q);
    // forged gadget polynomials, one gadget at a time, incl. a two-gadget circuit (multi-gadget decide path)
    build::<FieldV17, _>(&Spec::TwoGadget, ForgedGadget { run: &run, all_inputs: !q }).unwrap();
    build::<FieldV17, _>(&Spec::Count, ForgedGadget { run: &run, all_inputs: true }).unwrap();
    build::<FieldV17, _>(&Spec::Sum { max: 2 }, ForgedGadget { run: &run, all_inputs: !q }).unwrap();
    build::<FieldV17, _>(&Spec::Histogram { len: 2, chunk: 2 }, ForgedGadget { run: &run, all_inputs: !q }).unwrap();
    build::<FieldV17, _>(&Spec::TwoGadget, SmallExh { run: &run, cfg: c(289, 1, 3, 36), thin_r: true }).unwrap();
    eprintln!("[{:.1}s] layer (a)", run.elapsed());

    // ---- (b)+(c) deployed fields
    let nk = if q { 8 } else { 32 };
    let tl = TamperLevel::Full;
    let l = |aggs: Vec<u8>, proofs: Vec<u8>, tamper, n_keys| Layer { run: &run, aggs, proofs, n_keys, small: false, all_inputs: false, tamper, tally: &tally };
    build::<Field64, _>(&Spec::Count, l(vec![2, 3], vec![1, 2], tl, nk)).unwrap();
    build::<Field64, _>(&Spec::Sum { max: 5 }, l(vec![2], vec![1], tl, nk)).unwrap();
    // bound of full field width (64 digits over Field64)
    build::<Field64, _>(&Spec::Sum { max: 1 << 63 }, l(vec![2], vec![1], TamperLevel::None, 2)).unwrap();
    build::<Field128, _>(&Spec::SumVec { max: 3, len: 3, chunk: 4 }, l(vec![2, 3], vec![1], tl, nk)).unwrap();
    build::<Field128, _>(&Spec::Histogram { len: 4, chunk: 3 }, l(vec![2, 3], vec![1, 2], tl, nk)).unwrap();
    build::<Field128, _>(&Spec::Multihot { len: 3, max_weight: 2, chunk: 2 }, l(vec![2], vec![1], tl, nk)).unwrap();
    // the number of buckets is a multiple of the chunk length, the encoded length (buckets + weight bits) is not
    build::<Field128, _>(&Spec::Multihot { len: 4, max_weight: 2, chunk: 4 }, l(vec![2], vec![1], TamperLevel::Light, nk)).unwrap();
    build::<Field128, _>(&Spec::Multihot { len: 3, max_weight: 1, chunk: 3 }, l(vec![2], vec![1], TamperLevel::Light, nk)).unwrap();
    build::<Field128, _>(&Spec::L1 { max: 3, len: 3, chunk: 2 }, l(vec![2], vec![1], TamperLevel::Light, nk)).unwrap();
    build::<Field128, _>(&Spec::L1 { max: 3, len: 2, chunk: 3 }, l(vec![2], vec![1], tl, nk)).unwrap();
    // exactly one joint-randomness element (the whole encoding fits one chunk)
    build::<Field128, _>(&Spec::Histogram { len: 3, chunk: 4 }, l(vec![2, 3], vec![1, 2], tl, nk)).unwrap();
    build::<Field128, _>(&Spec::SumVec { max: 3, len: 2, chunk: 8 }, l(vec![3], vec![1], tl, nk)).unwrap();
    // a two-gadget circuit through Prio3 (multi-gadget decide path)
    build::<Field128, _>(&Spec::TwoGadget, l(vec![2], vec![1, 2], tl, nk)).unwrap();
    build::<Field64, _>(&Spec::Deg3 { len: 2 }, l(vec![2], vec![1], TamperLevel::Light, nk)).unwrap();
    if !q {
        build::<Field64, _>(&Spec::Sum { max: 255 }, l(vec![2, 5], vec![1, 3], TamperLevel::Light, nk)).unwrap();
        build::<Field128, _>(&Spec::SumVec { max: 255, len: 4, chunk: 5 }, l(vec![2, 4], vec![1, 2], TamperLevel::Light, nk)).unwrap();
        build::<Field128, _>(&Spec::Histogram { len: 20, chunk: 6 }, l(vec![2, 3], vec![1], TamperLevel::Light, nk)).unwrap();
        build::<Field128, _>(&Spec::Multihot { len: 8, max_weight: 3, chunk: 4 }, l(vec![2, 3], vec![1], TamperLevel::Light, nk)).unwrap();
        build::<Field128, _>(&Spec::L1 { max: 7, len: 4, chunk: 3 }, l(vec![2, 3], vec![1], TamperLevel::Light, nk)).unwrap();
        build::<Field64, _>(&Spec::Histogram { len: 5, chunk: 2 }, l(vec![2], vec![1], TamperLevel::Light, nk)).unwrap();
    }
    eprintln!("[{:.1}s] layers (b)(c) deployed", run.elapsed());
    // ---- (b) small fields, all inputs; (c) small field with the counting rule
    let ls = |aggs: Vec<u8>, proofs: Vec<u8>, tamper, n_keys, all| Layer { run: &run, aggs, proofs, n_keys, small: true, all_inputs: all, tamper, tally: &tally };
    let nks = if q { 8 } else { 40 };
    build::<FieldV17, _>(&Spec::Count, ls(vec![2, 3], vec![1, 2], TamperLevel::None, nks, true)).unwrap();
    build::<FieldV17, _>(&Spec::Sum { max: 2 }, ls(vec![2], vec![1], TamperLevel::None, nks, true)).unwrap();
    build::<FieldV17, _>(&Spec::Histogram { len: 2, chunk: 2 }, ls(vec![2, 3], vec![1], TamperLevel::None, nks, true)).unwrap();
    build::<FieldV97, _>(&Spec::Count, ls(vec![2], vec![1, 2], if q { TamperLevel::Light } else { TamperLevel::Full }, nks, true)).unwrap();
    build::<FieldV97, _>(&Spec::SumVec { max: 1, len: 2, chunk: 2 }, ls(vec![2], vec![1], TamperLevel::None, if q { 2 } else { 8 }, true)).unwrap();
    build::<FieldV12289, _>(&Spec::Histogram { len: 3, chunk: 2 }, ls(vec![2, 3], vec![1], TamperLevel::Light, nks, false)).unwrap();
    build::<FieldV12289, _>(&Spec::L1 { max: 2, len: 2, chunk: 2 }, ls(vec![2], vec![1, 2], TamperLevel::None, nks, false)).unwrap();
    eprintln!("[{:.1}s] small fields", run.elapsed());
    ctor_layer(&run, &Tape::Seeded(run.seed ^ 0xC702));
    eprintln!("[{:.1}s] named constructors", run.elapsed());
    let t = tally.lock().unwrap();
    run.note("outcomes_by_stage", json!(t.by_stage));
    run.note("small_field_false_accepts_predicted_by_spec", json!(t.legit_false_accepts));
    run.note("transcription_mismatches", json!(t.transcription_mismatch));
    if t.transcription_mismatch > 0 {
        run.assume("harness transcription of the draft-18 derivations disagreed with the library for some reports; those were judged by the valid-output oracle only");
    }
    run.sample(json!({"layer": "b", "instance": "Histogram { len: 4, chunk: 3 }@Field128", "x": ["2", "340282366920938462946865773367900766208", "0", "0"], "note": "affine-preserving near miss (sums to 1, not bits) with honest proof"}));
    let _ = hex(&[]);
    let _: Option<Tape> = None;
    run.exhaustive(false);
    run.finish();
}
