//! C16 — fallible public operations reject bad arguments with errors, never panics.
//!
//! Engine: fault enumeration. Every `pub fn .. -> Result<..>` of prio::vdaf::{prio3, poplar1,
//! prio2}, prio::flp::types, prio::dp and prio::idpf (constructors and protocol operations) is
//! called on an ARGUMENT LATTICE (integer edges 0,1,2,3, 2^k-1/2^k/2^k+1, p-1/p/p+1, MAX-1/MAX; all
//! 256 values of `num_aggregators`/`num_proofs`; measurements in range / boundary / boundary+1 /
//! MAX / wrong length; aggregator ids; shares of the wrong role, length, count; objects of a
//! different instance of the same Rust type), in products of up to three parameters.
//!
//! Oracle: the call returns (Ok or Err); it never panics (overflow checks are on), aborts, hangs
//! or allocates more than 2 GiB. Where the property is explicit the outcome is pinned: clearly
//! out-of-domain arguments (zero parameters, measurements out of range, wrong lengths / roles /
//! counts, identifiers out of range) must be `Err`; valid arguments must be `Ok`; a constructor
//! that answers `Ok` must yield an instance whose length accessors do not overflow and which
//! carries one honest report end to end (when the instance fits the work budget).
//!
//! The sweep runs in worker subprocesses of this binary (`--worker w n from tier`), each with a
//! counting global allocator and a watchdog thread, so that an abort / OOM / hang kills only the
//! worker; the parent turns "worker died in case k" into a violation and restarts after k. A
//! worker death that cannot be attributed to a case is a machinery failure (exit 2). The per-call
//! time limit is counted in process CPU time (10 s by default, more for the few big instances) with
//! a 30x wall-clock backstop, so a loaded machine cannot fake a hang.
//!
//! Keys: `<call site>/<argument class>[@<instance>][/<follow-up step>]`, e.g.
//! `prio2/new/input_len=MAX`, `flp/Histogram/new/Field64,length=3,chunk_length=2^63-1/proof_len`,
//! `prio3/verifier_shares_to_message/count=256(zero-padded)@Count<Field64>,n=2`. Panics are grouped
//! by (call site, step, source location) and reported once, for the failing case closest to the
//! ordinary argument values (the other failing classes are listed in the replay file), so the keys
//! do not depend on the tier. Acceptances the property text leaves debatable (unshard with the
//! wrong number of aggregate shares, Prio2 share shape vs. role, noise on a mis-sized aggregate
//! share) and panics of infallible helpers (`optimal_chunk_length`) are recorded in the evidence
//! (`accepted_debatable_out_of_domain`), not as violations.
//!
//! `C16_SELFTEST=1` adds a machinery self-test family (abort / hang / 3 GiB allocation in a
//! worker), `C16_TIMING=1` prints per-family times.
#![allow(clippy::type_complexity, clippy::too_many_arguments, dead_code)]
use prio::codec::{Decode, Encode, ParameterizedDecode};
use prio::dp::distributions::{DiscreteGaussian, DiscreteLaplace, PureDpDiscreteLaplace, ZCdpDiscreteGaussian};
use prio::dp::{DifferentialPrivacyStrategy, PureDpBudget, Rational, ZCdpBudget};
use prio::field::{Field128, Field255, Field64, FieldElement, FieldElementWithInteger, FieldPrio2};
use prio::flp::gadgets::{Mul, ParallelSum, ParallelSumMultithreaded};
use prio::flp::types::{Average, Count, Histogram, L1BoundSum, MultihotCountVec, Sum, SumVec};
use prio::flp::{Type, TypeWithNoise};
use prio::idpf::{HashMapCache, Idpf, IdpfCache, IdpfInput, IdpfOutputShare, IdpfPublicShare, NoCache, RingBufferCache};
use prio::vdaf::poplar1::{Poplar1, Poplar1AggregationParam, Poplar1FieldVec, Poplar1IdpfValue, Poplar1InputShare, Poplar1PublicShare, Poplar1VerifierMessage, Poplar1VerifierState};
use prio::vdaf::prio2::Prio2;
use prio::vdaf::prio3::{optimal_chunk_length, Prio3, Prio3InputShare, Prio3PublicShare, Prio3VerifierMessage, Prio3VerifierShare, Prio3VerifyState};
use prio::vdaf::test_utils::TestVectorClient;
use prio::vdaf::xof::{Seed, XofTurboShake128};
use prio::vdaf::{AggregateShare, Aggregator, AggregatorWithNoise, Client, Collector, OutputShare, Share, VdafError, VerifyTransition};
use pvh::engine::tape::{ScriptRng, Tape};
use pvh::engine::{fnv, splitmix, Level, Run};
use pvh::kit::ints::{IntConv, KitField};
use serde_json::{json, Value};
use std::alloc::{GlobalAlloc, Layout, System};
use std::collections::{BTreeMap, HashMap};
use std::fmt::Display;
use std::io::{BufRead, BufReader};
use std::sync::atomic::{AtomicBool, AtomicI64, AtomicU64, Ordering};
use std::cell::OnceCell;
use std::rc::Rc;
use std::sync::{Arc, Mutex, OnceLock};

// =============================================================================================
// counting allocator, watchdog, raw output (worker side)
// =============================================================================================
const ALLOC_LIMIT: i64 = 2 << 30; // 2 GiB per library call
const EXIT_ALLOC: i32 = 98;
const EXIT_HANG: i32 = 97;

static IN_CALL: AtomicBool = AtomicBool::new(false);
static LIVE: AtomicI64 = AtomicI64::new(0);
static PEAK: AtomicI64 = AtomicI64::new(0);
static CUR_CASE: AtomicU64 = AtomicU64::new(u64::MAX);
/// absolute deadline of the running library call in ms of process CPU time (0 = none)
static DEADLINE_MS: AtomicU64 = AtomicU64::new(0);
static IS_WORKER: AtomicBool = AtomicBool::new(false);

#[repr(C)]
struct Timespec {
    sec: i64,
    nsec: i64,
}
extern "C" {
    fn write(fd: i32, buf: *const u8, n: usize) -> isize;
    fn _exit(code: i32) -> !;
    fn clock_gettime(clock: i32, ts: *mut Timespec) -> i32;
}
/// CPU time consumed by this process (all threads), in ms. The per-call limit is counted in CPU
/// time so that a busy machine cannot turn a slow call into a "hang".
fn cpu_ms() -> u64 {
    const CLOCK_PROCESS_CPUTIME_ID: i32 = 2;
    let mut ts = Timespec { sec: 0, nsec: 0 };
    if unsafe { clock_gettime(CLOCK_PROCESS_CPUTIME_ID, &mut ts) } != 0 {
        return now_ms();
    }
    ts.sec as u64 * 1000 + ts.nsec as u64 / 1_000_000 + 1
}
/// wall-clock backstop: this many times the CPU limit
const WALL_FACTOR: u64 = 30;
static WALL_DEADLINE_MS: AtomicU64 = AtomicU64::new(0);

fn raw_out(s: &[u8]) {
    let mut off = 0;
    while off < s.len() {
        let r = unsafe { write(1, s.as_ptr().add(off), s.len() - off) };
        if r <= 0 {
            unsafe { _exit(3) }
        }
        off += r as usize;
    }
}

/// Format `prefix <case> <n>\n` without allocating and terminate the process.
fn die_raw(prefix: u8, n: u64, code: i32) -> ! {
    let mut buf = [0u8; 64];
    let mut pos = 0;
    buf[pos] = prefix;
    pos += 1;
    for v in [CUR_CASE.load(Ordering::SeqCst), n] {
        buf[pos] = b' ';
        pos += 1;
        let mut digits = [0u8; 20];
        let mut k = 0;
        let mut x = v;
        loop {
            digits[k] = b'0' + (x % 10) as u8;
            k += 1;
            x /= 10;
            if x == 0 {
                break;
            }
        }
        while k > 0 {
            k -= 1;
            buf[pos] = digits[k];
            pos += 1;
        }
    }
    buf[pos] = b'\n';
    pos += 1;
    raw_out(&buf[..pos]);
    unsafe { _exit(code) }
}

struct Counting;
unsafe impl GlobalAlloc for Counting {
    unsafe fn alloc(&self, l: Layout) -> *mut u8 {
        track(l.size() as i64);
        System.alloc(l)
    }
    unsafe fn alloc_zeroed(&self, l: Layout) -> *mut u8 {
        track(l.size() as i64);
        System.alloc_zeroed(l)
    }
    unsafe fn dealloc(&self, p: *mut u8, l: Layout) {
        if IN_CALL.load(Ordering::Relaxed) {
            LIVE.fetch_sub(l.size() as i64, Ordering::Relaxed);
        }
        System.dealloc(p, l)
    }
    unsafe fn realloc(&self, p: *mut u8, l: Layout, new: usize) -> *mut u8 {
        track(new as i64 - l.size() as i64);
        System.realloc(p, l, new)
    }
}
#[inline]
fn track(delta: i64) {
    if IN_CALL.load(Ordering::Relaxed) {
        let live = LIVE.fetch_add(delta, Ordering::Relaxed) + delta;
        if live > ALLOC_LIMIT || delta > ALLOC_LIMIT {
            if IS_WORKER.load(Ordering::Relaxed) {
                die_raw(b'A', live.max(delta) as u64, EXIT_ALLOC);
            }
        }
        PEAK.fetch_max(live, Ordering::Relaxed);
    }
}
#[global_allocator]
static GLOBAL: Counting = Counting;

fn now_ms() -> u64 {
    static T0: OnceLock<std::time::Instant> = OnceLock::new();
    T0.get_or_init(std::time::Instant::now).elapsed().as_millis() as u64 + 1
}

static PANIC_INFO: Mutex<Option<(String, String)>> = Mutex::new(None);

fn worker_hooks() {
    IS_WORKER.store(true, Ordering::SeqCst);
    now_ms();
    std::panic::set_hook(Box::new(|info| {
        let msg = if let Some(s) = info.payload().downcast_ref::<&str>() {
            s.to_string()
        } else if let Some(s) = info.payload().downcast_ref::<String>() {
            s.clone()
        } else {
            "non-string panic".to_string()
        };
        let loc = info.location().map(|l| format!("{}:{}", l.file(), l.line())).unwrap_or_default();
        if !IN_CALL.load(Ordering::SeqCst) {
            eprintln!("MACHINERY: harness panic in worker (case {}): {msg} @ {loc}", CUR_CASE.load(Ordering::SeqCst));
            unsafe { _exit(2) }
        }
        let mut g = PANIC_INFO.lock().unwrap_or_else(|e| e.into_inner());
        if g.is_none() {
            *g = Some((msg, loc));
        }
    }));
    std::thread::spawn(|| loop {
        std::thread::sleep(std::time::Duration::from_millis(50));
        let d = DEADLINE_MS.load(Ordering::SeqCst);
        let w = WALL_DEADLINE_MS.load(Ordering::SeqCst);
        if (d != 0 && cpu_ms() > d) || (w != 0 && now_ms() > w) {
            die_raw(b'T', cpu_ms().saturating_sub(d), EXIT_HANG);
        }
    });
}

// =============================================================================================
// cases
// =============================================================================================
#[derive(Clone, Copy, PartialEq, Eq, Debug)]
enum Exp {
    /// Ok or Err, but it must return
    Any,
    /// the property names this argument class as out-of-domain: Ok is a violation
    MustErr,
    /// valid arguments: Err is a violation
    MustOk,
    /// debatable out-of-domain class: an Ok is recorded as a note, not a violation
    ShouldErr,
}

#[derive(Clone, Debug)]
struct Finding {
    step: String,
    kind: String,
    what: String,
    loc: String,
}

/// Per-case context (worker side).
struct Cx {
    findings: Vec<Finding>,
    notes: Vec<String>,
    calls: u64,
    outcome: String,
    limit_ms: u64,
    peak: i64,
}

enum Res<T> {
    Ok(T),
    Err(String),
    Panic,
}

impl Cx {
    fn new() -> Cx {
        Cx { findings: vec![], notes: vec![], calls: 0, outcome: String::new(), limit_ms: 10000, peak: 0 }
    }
    fn raw_call<T>(&mut self, step: &str, f: impl FnOnce() -> T) -> Option<T> {
        self.calls += 1;
        *PANIC_INFO.lock().unwrap_or_else(|e| e.into_inner()) = None;
        LIVE.store(0, Ordering::SeqCst);
        PEAK.store(0, Ordering::SeqCst);
        WALL_DEADLINE_MS.store(now_ms() + WALL_FACTOR * self.limit_ms, Ordering::SeqCst);
        DEADLINE_MS.store(cpu_ms() + self.limit_ms, Ordering::SeqCst);
        IN_CALL.store(true, Ordering::SeqCst);
        let r = std::panic::catch_unwind(std::panic::AssertUnwindSafe(f));
        IN_CALL.store(false, Ordering::SeqCst);
        DEADLINE_MS.store(0, Ordering::SeqCst);
        WALL_DEADLINE_MS.store(0, Ordering::SeqCst);
        self.peak = self.peak.max(PEAK.load(Ordering::SeqCst));
        match r {
            Ok(v) => Some(v),
            Err(_) => {
                let (msg, loc) = PANIC_INFO.lock().unwrap_or_else(|e| e.into_inner()).take().unwrap_or(("?".into(), "?".into()));
                self.findings.push(Finding { step: step.into(), kind: "panic".into(), what: format!("panicked: {msg}"), loc });
                None
            }
        }
    }
    /// A library call that is not `Result`-returning but must not panic (length accessors of an
    /// accepted instance, infallible constructors).
    fn total<T>(&mut self, step: &str, f: impl FnOnce() -> T) -> Option<T> {
        self.raw_call(step, f)
    }
    /// A `Result`-returning library call with an expectation.
    fn call<T, E: Display>(&mut self, step: &str, exp: Exp, f: impl FnOnce() -> Result<T, E>) -> Res<T> {
        let r = self.raw_call(step, f);
        let (res, oc) = match r {
            None => (Res::Panic, "panic"),
            Some(Ok(v)) => {
                match exp {
                    Exp::MustErr => self.findings.push(Finding { step: step.into(), kind: "accepted".into(), what: "returned Ok for an out-of-domain argument".into(), loc: String::new() }),
                    Exp::ShouldErr => self.notes.push(step.to_string()),
                    _ => {}
                }
                (Res::Ok(v), "ok")
            }
            Some(Err(e)) => {
                let e = e.to_string();
                if exp == Exp::MustOk {
                    self.findings.push(Finding { step: step.into(), kind: "rejected".into(), what: format!("returned Err for valid arguments: {e}"), loc: String::new() });
                }
                (Res::Err(e), "err")
            }
        };
        if step.is_empty() || self.outcome.is_empty() {
            self.outcome = oc.to_string();
        }
        res
    }
    fn ok<T, E: Display>(&mut self, step: &str, exp: Exp, f: impl FnOnce() -> Result<T, E>) -> Option<T> {
        match self.call(step, exp, f) {
            Res::Ok(v) => Some(v),
            _ => None,
        }
    }
    fn wrong(&mut self, step: &str, what: String) {
        self.findings.push(Finding { step: step.into(), kind: "wrong".into(), what, loc: String::new() });
    }
    fn skip(&mut self, why: &str) {
        if self.outcome.is_empty() {
            self.outcome = format!("skip:{why}");
        }
    }
}

struct Prepared {
    site: String,
    class: String,
    args: Value,
    run: Box<dyn FnOnce(&mut Cx)>,
}
fn prep(site: &str, class: String, args: Value, run: impl FnOnce(&mut Cx) + 'static) -> Prepared {
    Prepared { site: site.to_string(), class, args, run: Box::new(run) }
}

struct Family {
    name: String,
    tuples: Vec<Vec<u16>>,
    /// the tuple of "ordinary" argument values (empty: all zeros): a finding is reported for the
    /// failing case closest to it, which makes keys independent of the enumeration order / tier
    default: Vec<u16>,
    make: Box<dyn Fn(&[u16]) -> Prepared>,
}
fn fam(name: &str, tuples: Vec<Vec<u16>>, make: impl Fn(&[u16]) -> Prepared + 'static) -> Family {
    Family { name: name.to_string(), tuples, default: vec![], make: Box::new(make) }
}

/// full product of the given dimensions
fn product(dims: &[usize]) -> Vec<Vec<u16>> {
    let mut out = vec![vec![]];
    for &d in dims {
        let mut next = Vec::with_capacity(out.len() * d);
        for t in &out {
            for i in 0..d {
                let mut t2 = t.clone();
                t2.push(i as u16);
                next.push(t2);
            }
        }
        out = next;
    }
    out
}
/// all tuples that differ from `default` in at most `k` coordinates (simplest first)
fn upto(dims: &[usize], default: &[u16], k: usize) -> Vec<Vec<u16>> {
    fn rec(dims: &[usize], default: &[u16], k: usize, pos: usize, cur: &mut Vec<u16>, out: &mut Vec<Vec<u16>>) {
        if pos == dims.len() {
            out.push(cur.clone());
            return;
        }
        cur.push(default[pos]);
        rec(dims, default, k, pos + 1, cur, out);
        cur.pop();
        if k > 0 {
            for i in 0..dims[pos] {
                if i as u16 != default[pos] {
                    cur.push(i as u16);
                    rec(dims, default, k - 1, pos + 1, cur, out);
                    cur.pop();
                }
            }
        }
    }
    let mut out = vec![];
    rec(dims, default, k, 0, &mut vec![], &mut out);
    let nd = |t: &Vec<u16>| t.iter().zip(default).filter(|(a, b)| a != b).count();
    out.sort_by_key(nd);
    out
}

// =============================================================================================
// lattices
// =============================================================================================
type Lat = Vec<(String, u128)>;

fn lat(width: u32, p: Option<u128>, full: bool, extra: &[(&str, u128)]) -> Lat {
    let max: u128 = if width == 128 { u128::MAX } else { (1u128 << width) - 1 };
    let mut v: Lat = vec![];
    let mut push = |l: String, x: u128| {
        if x <= max && !v.iter().any(|(_, y)| *y == x) {
            v.push((l, x));
        }
    };
    for i in 0..4u128 {
        push(i.to_string(), i);
    }
    let ks: &[u32] = if full { &[7, 8, 15, 16, 31, 32, 62, 63, 64, 127] } else { &[8, 16, 32, 63] };
    for &k in ks {
        if k >= width {
            continue;
        }
        let b = 1u128 << k;
        if full || k != 63 {
            push(format!("2^{k}-1"), b - 1);
        }
        push(format!("2^{k}"), b);
        if full || k == 8 {
            push(format!("2^{k}+1"), b + 1);
        }
    }
    for (l, x) in extra {
        push(l.to_string(), *x);
    }
    if let Some(p) = p {
        push("p-1".into(), p - 1);
        push("p".into(), p);
        if full {
            push("p+1".into(), p + 1);
        }
    }
    push("MAX-1".into(), max - 1);
    push("MAX".into(), max);
    v
}
fn lat_usize(full: bool) -> Lat {
    if full {
        lat(64, None, true, &[("2^32-2", (1 << 32) - 2), ("2^40", 1 << 40), ("2^48", 1 << 48), ("2^56", 1 << 56), ("MAX/3", (u64::MAX / 3) as u128)])
    } else {
        lat(64, None, false, &[("2^32-2", (1 << 32) - 2)])
    }
}
fn p_of<F: KitField>() -> u128
where
    F::Integer: IntConv,
{
    F::p()
}
fn lat_int<F: KitField>(full: bool) -> Lat
where
    F::Integer: IntConv,
{
    lat((F::ENCODED_SIZE * 8) as u32, Some(p_of::<F>()), full, &[])
}
fn fint<F: KitField>(x: u128) -> F::Integer
where
    F::Integer: IntConv,
{
    <F::Integer as IntConv>::from_u128(x)
}
fn bits_of(x: u128) -> u128 {
    (128 - x.leading_zeros()) as u128
}
fn npo2(x: u128) -> u128 {
    x.checked_next_power_of_two().unwrap_or(u128::MAX)
}
fn fname<F: KitField>() -> &'static str
where
    F::Integer: IntConv,
{
    match F::ENCODED_SIZE {
        4 => "FieldPrio2",
        8 => "Field64",
        16 => "Field128",
        _ => "F?",
    }
}
fn rnd_vec<F: KitField>(len: usize, st: &mut u64) -> Vec<F>
where
    F::Integer: IntConv,
{
    let p = F::p();
    (0..len)
        .map(|_| {
            let hi = splitmix(st) as u128;
            let lo = splitmix(st) as u128;
            F::fe(((hi << 64) | lo) % p)
        })
        .collect()
}
fn fit_len<X: Clone>(v: &[X], len: usize, fill: X) -> Vec<X> {
    let mut o: Vec<X> = v.iter().take(len).cloned().collect();
    while o.len() < len {
        o.push(fill.clone());
    }
    o
}
/// length lattice around a correct length: labels relative to `len`
fn len_lattice(len: usize) -> Vec<(String, usize)> {
    let mut v: Vec<(String, usize)> = vec![("len".into(), len)];
    for (l, x) in [("0", Some(0)), ("len-1", len.checked_sub(1)), ("len+1", Some(len + 1))] {
        if let Some(x) = x {
            if !v.iter().any(|(_, y)| *y == x) {
                v.push((l.into(), x));
            }
        }
    }
    v
}


// =============================================================================================
// prio::dp
// =============================================================================================
fn rat_lattice() -> Vec<(String, u128, u128)> {
    let m = u128::MAX;
    vec![
        ("1/1".into(), 1, 1),
        ("0/1".into(), 0, 1),
        ("1/0".into(), 1, 0),
        ("0/0".into(), 0, 0),
        ("1/2".into(), 1, 2),
        ("3/1".into(), 3, 1),
        ("1/1000".into(), 1, 1000),
        ("2^64/1".into(), 1 << 64, 1),
        ("1/2^64".into(), 1, 1 << 64),
        ("MAX/1".into(), m, 1),
        ("1/MAX".into(), 1, m),
        ("MAX/MAX".into(), m, m),
        ("MAX/(MAX-1)".into(), m, m - 1),
        ("0/MAX".into(), 0, m),
    ]
}
fn f32_lattice() -> Vec<(String, f32, Exp)> {
    vec![
        ("0.0".into(), 0.0, Exp::MustOk),
        ("-0.0".into(), -0.0, Exp::Any),
        ("1.0".into(), 1.0, Exp::MustOk),
        ("0.1".into(), 0.1, Exp::MustOk),
        ("-1.0".into(), -1.0, Exp::MustErr),
        ("MIN_POSITIVE".into(), f32::MIN_POSITIVE, Exp::MustOk),
        ("min_subnormal".into(), f32::from_bits(1), Exp::MustOk),
        ("-min_subnormal".into(), -f32::from_bits(1), Exp::MustErr),
        ("EPSILON".into(), f32::EPSILON, Exp::MustOk),
        ("MAX".into(), f32::MAX, Exp::MustOk),
        ("MIN".into(), f32::MIN, Exp::MustErr),
        ("NaN".into(), f32::NAN, Exp::MustErr),
        ("-NaN".into(), -f32::NAN, Exp::MustErr),
        ("inf".into(), f32::INFINITY, Exp::MustErr),
        ("-inf".into(), f32::NEG_INFINITY, Exp::MustErr),
        ("2^31".into(), 2147483648.0, Exp::MustOk),
        ("2^64".into(), 18446744073709551616.0, Exp::MustOk),
        ("2^127".into(), f32::from_bits(0x7F00_0000), Exp::MustOk),
    ]
}

fn dp_rng(seed: u64, salt: u64) -> ScriptRng {
    ScriptRng::new(vec![], Tape::Seeded(seed ^ salt.wrapping_mul(0x9E37_79B9_7F4A_7C15)))
}

fn dp_families(quick: bool, seed: u64) -> Vec<Family> {
    let mut fams = vec![];
    // Rational::from_unsigned over the u128 lattice (numerator x denominator) and narrower types
    let l128 = Arc::new(lat(128, None, true, &[]));
    {
        let l = l128.clone();
        fams.push(fam("dp/Rational/from_unsigned", product(&[l.len(), l.len()]), move |t| {
            let (ln, n) = l[t[0] as usize].clone();
            let (ld, d) = l[t[1] as usize].clone();
            prep("dp/Rational/from_unsigned<u128>", format!("n={ln},d={ld}"), json!({"n": n.to_string(), "d": d.to_string()}), move |cx| {
                let exp = if d == 0 { Exp::MustErr } else { Exp::MustOk };
                if let Some(r) = cx.ok("", exp, || Rational::from_unsigned(n, d)) {
                    let _ = cx.total("to_f64", || r.to_f64());
                }
            })
        }));
    }
    for (w, name) in [(8u32, "u8"), (32, "u32"), (64, "u64")] {
        let l = Arc::new(lat(w, None, false, &[]));
        let l2 = l.clone();
        fams.push(fam(&format!("dp/Rational/from_unsigned<{name}>"), product(&[l.len(), l.len()]), move |t| {
            let (ln, n) = l2[t[0] as usize].clone();
            let (ld, d) = l2[t[1] as usize].clone();
            let site = format!("dp/Rational/from_unsigned<{name}>");
            prep(&site, format!("n={ln},d={ld}"), json!({"n": n.to_string(), "d": d.to_string()}), move |cx| {
                let exp = if d == 0 { Exp::MustErr } else { Exp::MustOk };
                match w {
                    8 => drop(cx.call("", exp, || Rational::from_unsigned(n as u8, d as u8))),
                    32 => drop(cx.call("", exp, || Rational::from_unsigned(n as u32, d as u32))),
                    _ => drop(cx.call("", exp, || Rational::from_unsigned(n as u64, d as u64))),
                }
            })
        }));
    }
    // Rational::try_from(f32)
    {
        let l = Arc::new(f32_lattice());
        fams.push(fam("dp/Rational/try_from(f32)", product(&[l.len()]), move |t| {
            let (lab, x, exp) = l[t[0] as usize].clone();
            prep("dp/Rational/try_from(f32)", format!("value={lab}"), json!({"bits": x.to_bits()}), move |cx| {
                if let Some(r) = cx.ok("", exp, || Rational::try_from(x)) {
                    let _ = cx.total("to_f64", || r.to_f64());
                }
            })
        }));
    }
    // budgets, distributions, strategies on the rational lattice
    let rl = Arc::new(rat_lattice());
    {
        let rl = rl.clone();
        fams.push(fam("dp/budgets+distributions/new", product(&[4, rl.len()]), move |t| {
            let which = t[0];
            let (lab, n, d) = rl[t[1] as usize].clone();
            let site = ["dp/ZCdpBudget/new", "dp/PureDpBudget/new", "dp/DiscreteLaplace/new", "dp/DiscreteGaussian/new"][which as usize];
            prep(site, format!("value={lab}"), json!({"n": n.to_string(), "d": d.to_string()}), move |cx| {
                let Some(r) = cx.ok("rational", Exp::Any, || Rational::from_unsigned(n, d)) else {
                    cx.outcome = "skip:no_rational".into();
                    return;
                };
                cx.outcome.clear();
                let zero = n == 0;
                match which {
                    0 => drop(cx.call("", if zero { Exp::MustErr } else { Exp::MustOk }, || ZCdpBudget::new(r))),
                    1 => drop(cx.call("", if zero { Exp::MustErr } else { Exp::MustOk }, || PureDpBudget::new(r))),
                    2 => {
                        if let Some(dist) = cx.ok("", if zero { Exp::MustErr } else { Exp::MustOk }, || DiscreteLaplace::new(r)) {
                            let mut rng = dp_rng(seed, 1);
                            let _ = cx.total("sample", || rand::distr::Distribution::sample(&dist, &mut rng));
                        }
                    }
                    _ => {
                        if let Some(dist) = cx.ok("", Exp::MustOk, || DiscreteGaussian::new(r)) {
                            let mut rng = dp_rng(seed, 2);
                            let _ = cx.total("sample", || rand::distr::Distribution::sample(&dist, &mut rng));
                        }
                    }
                }
            })
        }));
    }
    {
        // create_distribution: epsilon x sensitivity
        let rl = rl.clone();
        fams.push(fam("dp/create_distribution", product(&[2, rl.len(), rl.len()]), move |t| {
            let which = t[0];
            let (le, en, ed) = rl[t[1] as usize].clone();
            let (ls, sn, sd) = rl[t[2] as usize].clone();
            let site = ["dp/PureDpDiscreteLaplace/create_distribution", "dp/ZCdpDiscreteGaussian/create_distribution"][which as usize];
            prep(site, format!("epsilon={le},sensitivity={ls}"), json!({"epsilon": [en.to_string(), ed.to_string()], "sensitivity": [sn.to_string(), sd.to_string()]}), move |cx| {
                let (Some(eps), Some(sens)) = (cx.ok("rational", Exp::Any, || Rational::from_unsigned(en, ed)), cx.ok("rational", Exp::Any, || Rational::from_unsigned(sn, sd))) else {
                    cx.outcome = "skip:no_rational".into();
                    return;
                };
                cx.outcome.clear();
                if which == 0 {
                    let Some(b) = cx.ok("budget", Exp::Any, || PureDpBudget::new(eps)) else {
                        cx.outcome = "skip:no_budget".into();
                        return;
                    };
                    cx.outcome.clear();
                    let s = PureDpDiscreteLaplace::from_budget(b);
                    if let Some(dist) = cx.ok("", if sn == 0 { Exp::MustErr } else { Exp::MustOk }, || s.create_distribution(sens)) {
                        let mut rng = dp_rng(seed, 3);
                        let _ = cx.total("sample", || rand::distr::Distribution::sample(&dist, &mut rng));
                    }
                } else {
                    let Some(b) = cx.ok("budget", Exp::Any, || ZCdpBudget::new(eps)) else {
                        cx.outcome = "skip:no_budget".into();
                        return;
                    };
                    cx.outcome.clear();
                    let s = ZCdpDiscreteGaussian::from_budget(b);
                    if let Some(dist) = cx.ok("", Exp::MustOk, || s.create_distribution(sens)) {
                        let mut rng = dp_rng(seed, 4);
                        let _ = cx.total("sample", || rand::distr::Distribution::sample(&dist, &mut rng));
                    }
                }
            })
        }));
    }
    {
        // budgets through serde (the deserializers wrap the constructors)
        let docs: Vec<(&str, Value, Exp)> = vec![
            ("1/1", json!({"epsilon": [[1], [1]]}), Exp::MustOk),
            ("0/1", json!({"epsilon": [[0], [1]]}), Exp::MustErr),
            ("1/0", json!({"epsilon": [[1], [0]]}), Exp::MustErr),
            ("0/0", json!({"epsilon": [[0], [0]]}), Exp::MustErr),
            ("empty/empty", json!({"epsilon": [[], []]}), Exp::MustErr),
            ("2/2(unreduced)", json!({"epsilon": [[2], [2]]}), Exp::Any),
            ("big/1", json!({"epsilon": [[4294967295u32, 4294967295u32, 4294967295u32, 4294967295u32, 1], [1]]}), Exp::MustOk),
            ("1/[0,0]", json!({"epsilon": [[1], [0, 0]]}), Exp::MustErr),
            ("missing", json!({}), Exp::MustErr),
        ];
        let docs = Arc::new(docs);
        fams.push(fam("dp/budgets/deserialize", product(&[2, docs.len()]), move |t| {
            let which = t[0];
            let (lab, doc, exp) = docs[t[1] as usize].clone();
            let site = ["dp/ZCdpBudget/deserialize", "dp/PureDpBudget/deserialize"][which as usize];
            prep(site, format!("epsilon={lab}"), doc.clone(), move |cx| {
                if which == 0 {
                    drop(cx.call("", exp, || serde_json::from_value::<ZCdpBudget>(doc)));
                } else {
                    drop(cx.call("", exp, || serde_json::from_value::<PureDpBudget>(doc)));
                }
            })
        }));
    }
    let _ = quick;
    fams
}

// =============================================================================================
// prio::flp::types
// =============================================================================================
/// A constructed type instance with its measurement menu and the harness's own knowledge of its
/// parameters (lengths are recomputed here in u128 from the parameters, never taken from the
/// library, so that the work / allocation prediction cannot be fooled by an overflowing accessor).
struct TypeCase<T: Type> {
    name: String,
    typ: T,
    /// (label, measurement, expectation for encode_measurement / shard)
    meas: Vec<(String, T::Measurement, Exp)>,
    /// a valid measurement and the Debug rendering of the aggregate of that single measurement
    valid: T::Measurement,
    expected: String,
    /// predicted lengths
    input_len: u128,
    output_len: u128,
    /// predicted number of field elements touched by one prove/query
    work: u128,
}

#[derive(Clone, Debug)]
enum Spec {
    Count,
    Sum(u128),
    Average(u128),
    SumVec(u128, usize, usize),
    Histogram(usize, usize),
    Multihot(usize, usize, usize),
    L1(u128, usize, usize),
}
impl Spec {
    fn label(&self) -> String {
        fn v(x: u128) -> String {
            if x >= 1 << 32 {
                format!("2^{}{}", 127 - x.leading_zeros(), if x.is_power_of_two() { "" } else { "+" })
            } else {
                x.to_string()
            }
        }
        match self {
            Spec::Count => "Count".into(),
            Spec::Sum(m) => format!("Sum(max={})", v(*m)),
            Spec::Average(m) => format!("Average(max={})", v(*m)),
            Spec::SumVec(m, l, c) => format!("SumVec(max={},len={l},chunk={c})", v(*m)),
            Spec::Histogram(l, c) => format!("Histogram(length={l},chunk={c})"),
            Spec::Multihot(l, w, c) => format!("MultihotCountVec(buckets={l},max_weight={w},chunk={c})"),
            Spec::L1(m, l, c) => format!("L1BoundSum(max={},len={l},chunk={c})", v(*m)),
        }
    }
}

fn chunked_work(input_len: u128, chunk: u128) -> u128 {
    let calls = input_len.div_ceil(chunk.max(1));
    let p = npo2(calls + 1);
    // wire values (2*chunk polynomials of length p), gadget polynomial (2p), input, proof; the
    // verifier's reconstruction of the gadget polynomial is quadratic in the number of calls
    // (measured: ~65 ns * calls^2 in Field64, i.e. ~3 units)
    input_len.saturating_add(chunk.saturating_mul(2).saturating_mul(p).saturating_mul(3)).saturating_add(p.saturating_mul(4)).saturating_add(calls.saturating_mul(calls).saturating_mul(3))
}

/// integer measurement menu for a range [0, max] in a field with modulus p and integer width w
fn int_menu(max: u128, p: u128, width: u32) -> Vec<(String, u128, Exp)> {
    let tmax = if width == 128 { u128::MAX } else { (1u128 << width) - 1 };
    let mut v: Vec<(String, u128, Exp)> = vec![];
    let mut push = |l: &str, x: Option<u128>| {
        if let Some(x) = x {
            if x <= tmax && !v.iter().any(|(_, y, _)| *y == x) {
                v.push((l.to_string(), x, if x <= max { Exp::MustOk } else { Exp::MustErr }));
            }
        }
    };
    push("0", Some(0));
    push("1", Some(1));
    push("max-1", max.checked_sub(1));
    push("max", Some(max));
    push("max+1", max.checked_add(1));
    let b = bits_of(max);
    if b < 128 {
        push("2^bits-1", Some((1u128 << b) - 1));
        push("2^bits", Some(1u128 << b));
    }
    push("p-1", Some(p - 1));
    push("p", Some(p));
    push("MAX", Some(tmax));
    v
}

/// Predicted (input_len, output_len, work) of an instance, from its parameters alone.
fn dims(spec: &Spec) -> (u128, u128, u128) {
    match spec {
        Spec::Count => (1, 1, 64),
        Spec::Sum(m) | Spec::Average(m) => (bits_of(*m), 1, 8 * npo2(bits_of(*m) + 1)),
        Spec::SumVec(m, l, c) => {
            let il = bits_of(*m).saturating_mul(*l as u128);
            (il, *l as u128, chunked_work(il, *c as u128))
        }
        Spec::L1(m, l, c) => {
            let il = bits_of(*m).saturating_mul(*l as u128 + 1);
            (il, *l as u128, chunked_work(il, *c as u128))
        }
        Spec::Histogram(l, c) => (*l as u128, *l as u128, chunked_work(*l as u128, *c as u128)),
        Spec::Multihot(l, w, c) => {
            let il = *l as u128 + bits_of(*w as u128);
            (il, *l as u128, chunked_work(il, *c as u128))
        }
    }
}

struct Menu<T: Type> {
    meas: Vec<(String, T::Measurement, Exp)>,
    valid: T::Measurement,
    expected: String,
}

trait Build<F: KitField>: Sized + Type<Field = F>
where
    F::Integer: IntConv,
{
    /// the library constructor, nothing else
    fn construct(spec: &Spec) -> Result<Self, String>;
    /// harness-side measurement menu (only called for instances within the work budget)
    fn menu(spec: &Spec) -> Menu<Self>;
    fn build(spec: &Spec) -> Result<TypeCase<Self>, String> {
        let typ = Self::construct(spec)?;
        Ok(assemble(spec, typ))
    }
}
fn assemble<F: KitField, T: Build<F>>(spec: &Spec, typ: T) -> TypeCase<T>
where
    F::Integer: IntConv,
{
    let Menu { meas, valid, expected } = T::menu(spec);
    let (input_len, output_len, work) = dims(spec);
    TypeCase { name: spec.label(), typ, meas, valid, expected, input_len, output_len, work }
}
fn werr<T, E: Display>(r: Result<T, E>) -> Result<T, String> {
    r.map_err(|e| e.to_string())
}

impl<F: KitField> Build<F> for Count<F>
where
    F::Integer: IntConv,
{
    fn construct(_: &Spec) -> Result<Self, String> {
        Ok(Count::new())
    }
    fn menu(_: &Spec) -> Menu<Self> {
        Menu { meas: vec![("false".into(), false, Exp::MustOk), ("true".into(), true, Exp::MustOk)], valid: true, expected: format!("{:?}", fint::<F>(1)) }
    }
}
impl<F: KitField> Build<F> for Sum<F>
where
    F::Integer: IntConv,
{
    fn construct(spec: &Spec) -> Result<Self, String> {
        let Spec::Sum(max) = spec else { unreachable!() };
        werr(Sum::new(fint::<F>(*max)))
    }
    fn menu(spec: &Spec) -> Menu<Self> {
        let Spec::Sum(max) = spec else { unreachable!() };
        let w = (F::ENCODED_SIZE * 8) as u32;
        let meas = int_menu(*max, F::p(), w).into_iter().map(|(l, x, e)| (l, fint::<F>(x), e)).collect();
        Menu { meas, valid: fint::<F>(*max), expected: format!("{:?}", fint::<F>(*max)) }
    }
}
impl<F: KitField> Build<F> for Average<F>
where
    F::Integer: IntConv,
{
    fn construct(spec: &Spec) -> Result<Self, String> {
        let Spec::Average(max) = spec else { unreachable!() };
        werr(Average::new(fint::<F>(*max)))
    }
    fn menu(spec: &Spec) -> Menu<Self> {
        let Spec::Average(max) = spec else { unreachable!() };
        let w = (F::ENCODED_SIZE * 8) as u32;
        let meas = int_menu(*max, F::p(), w).into_iter().map(|(l, x, e)| (l, fint::<F>(x), e)).collect();
        // the aggregate is decoded through u64: pick the largest valid measurement that fits
        let v = (*max).min(u64::MAX as u128);
        Menu { meas, valid: fint::<F>(v), expected: format!("{:?}", (v as u64) as f64 / 1.0f64) }
    }
}
fn vec_menu<F: KitField>(max: u128, len: usize, l1: bool) -> Vec<(String, Vec<F::Integer>, Exp)>
where
    F::Integer: IntConv,
{
    let w = (F::ENCODED_SIZE * 8) as u32;
    let tmax = if w == 128 { u128::MAX } else { (1u128 << w) - 1 };
    let z = fint::<F>(0);
    let mut v: Vec<(String, Vec<F::Integer>, Exp)> = vec![];
    v.push(("zeros".into(), vec![z; len], Exp::MustOk));
    let mut one_max = vec![z; len];
    one_max[0] = fint::<F>(max);
    v.push(("first=max".into(), one_max.clone(), Exp::MustOk));
    if !l1 {
        v.push(("all=max".into(), vec![fint::<F>(max); len], Exp::MustOk));
    } else if len >= 2 {
        // L1 norm max+1
        let mut m = one_max.clone();
        m[len - 1] = fint::<F>(1);
        v.push(("norm=max+1".into(), m, Exp::MustErr));
        v.push(("all=max".into(), vec![fint::<F>(max); len], Exp::MustErr));
        v.push(("all=MAX".into(), vec![fint::<F>(tmax); len], Exp::MustErr));
    }
    for (l, x) in [("max+1", max + 1), ("p-1", F::p() - 1), ("p", F::p()), ("MAX", tmax)] {
        if x > max && x <= tmax {
            let mut m = vec![z; len];
            m[len - 1] = fint::<F>(x);
            v.push((format!("last={l}"), m, Exp::MustErr));
        }
    }
    for (l, n) in len_lattice(len).into_iter().skip(1) {
        v.push((format!("len={l}"), vec![z; n], Exp::MustErr));
    }
    v
}
impl<F: KitField, S: prio::flp::gadgets::ParallelSumGadget<F, Mul> + Eq + 'static> Build<F> for SumVec<F, S>
where
    F::Integer: IntConv,
{
    fn construct(spec: &Spec) -> Result<Self, String> {
        let Spec::SumVec(max, len, chunk) = spec else { unreachable!() };
        werr(SumVec::new(fint::<F>(*max), *len, *chunk))
    }
    fn menu(spec: &Spec) -> Menu<Self> {
        let Spec::SumVec(max, len, _) = spec else { unreachable!() };
        let meas = vec_menu::<F>(*max, *len, false);
        let valid = meas[1].1.clone();
        Menu { meas, expected: format!("{:?}", valid), valid }
    }
}
impl<F: KitField, S: prio::flp::gadgets::ParallelSumGadget<F, Mul> + Eq + 'static> Build<F> for L1BoundSum<F, S>
where
    F::Integer: IntConv,
{
    fn construct(spec: &Spec) -> Result<Self, String> {
        let Spec::L1(max, len, chunk) = spec else { unreachable!() };
        werr(L1BoundSum::new(fint::<F>(*max), *len, *chunk))
    }
    fn menu(spec: &Spec) -> Menu<Self> {
        let Spec::L1(max, len, _) = spec else { unreachable!() };
        let meas = vec_menu::<F>(*max, *len, true);
        let valid = meas[1].1.clone();
        Menu { meas, expected: format!("{:?}", valid), valid }
    }
}
impl<F: KitField, S: prio::flp::gadgets::ParallelSumGadget<F, Mul> + Eq + 'static> Build<F> for Histogram<F, S>
where
    F::Integer: IntConv,
{
    fn construct(spec: &Spec) -> Result<Self, String> {
        let Spec::Histogram(len, chunk) = spec else { unreachable!() };
        werr(Histogram::new(*len, *chunk))
    }
    fn menu(spec: &Spec) -> Menu<Self> {
        let Spec::Histogram(len, _) = spec else { unreachable!() };
        let mut meas: Vec<(String, usize, Exp)> = vec![];
        for (l, x) in [("0", Some(0usize)), ("1", Some(1)), ("length-1", len.checked_sub(1)), ("length", Some(*len)), ("length+1", len.checked_add(1)), ("2^32-1", Some(u32::MAX as usize)), ("MAX", Some(usize::MAX))] {
            if let Some(x) = x {
                if !meas.iter().any(|(_, y, _)| *y == x) {
                    meas.push((format!("bucket={l}"), x, if x < *len { Exp::MustOk } else { Exp::MustErr }));
                }
            }
        }
        let valid = len - 1;
        let mut e = vec![fint::<F>(0); *len];
        e[valid] = fint::<F>(1);
        Menu { meas, valid, expected: format!("{:?}", e) }
    }
}
impl<F: KitField, S: prio::flp::gadgets::ParallelSumGadget<F, Mul> + Eq + 'static> Build<F> for MultihotCountVec<F, S>
where
    F::Integer: IntConv,
{
    fn construct(spec: &Spec) -> Result<Self, String> {
        let Spec::Multihot(len, weight, chunk) = spec else { unreachable!() };
        werr(MultihotCountVec::new(*len, *weight, *chunk))
    }
    fn menu(spec: &Spec) -> Menu<Self> {
        let Spec::Multihot(len, weight, _) = spec else { unreachable!() };
        let hot = |k: usize, n: usize| -> Vec<bool> { (0..n).map(|i| i < k).collect() };
        let mut meas: Vec<(String, Vec<bool>, Exp)> = vec![("weight=0".into(), hot(0, *len), Exp::MustOk)];
        let wv = (*weight).min(*len);
        meas.push(("weight=min(max_weight,len)".into(), hot(wv, *len), Exp::MustOk));
        if *weight < *len {
            meas.push(("weight=max_weight+1".into(), hot(*weight + 1, *len), Exp::MustErr));
            meas.push(("weight=len".into(), hot(*len, *len), Exp::MustErr));
        }
        for (l, n) in len_lattice(*len).into_iter().skip(1) {
            meas.push((format!("len={l}"), hot(0, n), Exp::MustErr));
        }
        let valid = meas[1].1.clone();
        let expected = format!("{:?}", valid.iter().map(|b| fint::<F>(*b as u128)).collect::<Vec<_>>());
        Menu { meas, valid, expected }
    }
}

type PS<F> = ParallelSum<F, Mul>;
type PSM<F> = ParallelSumMultithreaded<F, Mul>;

trait TypeVisitor<F: KitField>
where
    F::Integer: IntConv,
{
    type Out;
    fn visit<T: Build<F> + 'static>(self) -> Self::Out;
}
/// Call the visitor with the concrete type of `spec` over field `F`.
fn dispatch<F: KitField, V: TypeVisitor<F>>(spec: &Spec, multithreaded: bool, v: V) -> V::Out
where
    F::Integer: IntConv,
{
    match (spec, multithreaded) {
        (Spec::Count, _) => v.visit::<Count<F>>(),
        (Spec::Sum(..), _) => v.visit::<Sum<F>>(),
        (Spec::Average(..), _) => v.visit::<Average<F>>(),
        (Spec::SumVec(..), false) => v.visit::<SumVec<F, PS<F>>>(),
        (Spec::SumVec(..), true) => v.visit::<SumVec<F, PSM<F>>>(),
        (Spec::Histogram(..), false) => v.visit::<Histogram<F, PS<F>>>(),
        (Spec::Histogram(..), true) => v.visit::<Histogram<F, PSM<F>>>(),
        (Spec::Multihot(..), false) => v.visit::<MultihotCountVec<F, PS<F>>>(),
        (Spec::Multihot(..), true) => v.visit::<MultihotCountVec<F, PSM<F>>>(),
        (Spec::L1(..), false) => v.visit::<L1BoundSum<F, PS<F>>>(),
        (Spec::L1(..), true) => v.visit::<L1BoundSum<F, PSM<F>>>(),
    }
}

/// Restricted dispatchers (only the instantiations a field is used with: keeps the build small).
trait FieldSel: KitField
where
    Self::Integer: IntConv,
{
    fn ops_dispatch<V: TypeVisitor<Self>>(spec: &Spec, mt: bool, v: V) -> V::Out;
    fn p3_dispatch<V: TypeVisitor<Self>>(spec: &Spec, mt: bool, v: V) -> V::Out;
}
impl FieldSel for Field64 {
    fn ops_dispatch<V: TypeVisitor<Self>>(spec: &Spec, mt: bool, v: V) -> V::Out {
        type F = Field64;
        match (spec, mt) {
            (Spec::Count, _) => v.visit::<Count<F>>(),
            (Spec::Sum(..), _) => v.visit::<Sum<F>>(),
            (Spec::Average(..), _) => v.visit::<Average<F>>(),
            (Spec::SumVec(..), false) => v.visit::<SumVec<F, PS<F>>>(),
            (Spec::Histogram(..), false) => v.visit::<Histogram<F, PS<F>>>(),
            (Spec::Multihot(..), false) => v.visit::<MultihotCountVec<F, PS<F>>>(),
            (Spec::L1(..), false) => v.visit::<L1BoundSum<F, PS<F>>>(),
            _ => panic!("no multithreaded operation families over Field64"),
        }
    }
    fn p3_dispatch<V: TypeVisitor<Self>>(spec: &Spec, mt: bool, v: V) -> V::Out {
        type F = Field64;
        match (spec, mt) {
            (Spec::Count, _) => v.visit::<Count<F>>(),
            (Spec::Sum(..), _) => v.visit::<Sum<F>>(),
            (Spec::SumVec(..), false) => v.visit::<SumVec<F, PS<F>>>(),
            (Spec::Histogram(..), false) => v.visit::<Histogram<F, PS<F>>>(),
            _ => panic!("Prio3 instance not used over Field64"),
        }
    }
}
impl FieldSel for Field128 {
    fn ops_dispatch<V: TypeVisitor<Self>>(spec: &Spec, mt: bool, v: V) -> V::Out {
        dispatch::<Field128, V>(spec, mt, v)
    }
    fn p3_dispatch<V: TypeVisitor<Self>>(spec: &Spec, mt: bool, v: V) -> V::Out {
        type F = Field128;
        match (spec, mt) {
            (Spec::Average(..), _) => v.visit::<Average<F>>(),
            (Spec::SumVec(..), false) => v.visit::<SumVec<F, PS<F>>>(),
            (Spec::SumVec(..), true) => v.visit::<SumVec<F, PSM<F>>>(),
            (Spec::Histogram(..), false) => v.visit::<Histogram<F, PS<F>>>(),
            (Spec::Histogram(..), true) => v.visit::<Histogram<F, PSM<F>>>(),
            (Spec::Multihot(..), false) => v.visit::<MultihotCountVec<F, PS<F>>>(),
            (Spec::Multihot(..), true) => v.visit::<MultihotCountVec<F, PSM<F>>>(),
            (Spec::L1(..), false) => v.visit::<L1BoundSum<F, PS<F>>>(),
            _ => panic!("Prio3 instance not used over Field128"),
        }
    }
}
impl FieldSel for FieldPrio2 {
    fn ops_dispatch<V: TypeVisitor<Self>>(spec: &Spec, mt: bool, v: V) -> V::Out {
        type F = FieldPrio2;
        match (spec, mt) {
            (Spec::Count, _) => v.visit::<Count<F>>(),
            (Spec::SumVec(..), false) => v.visit::<SumVec<F, PS<F>>>(),
            (Spec::Histogram(..), false) => v.visit::<Histogram<F, PS<F>>>(),
            _ => panic!("operation family not used over FieldPrio2"),
        }
    }
    fn p3_dispatch<V: TypeVisitor<Self>>(_: &Spec, _: bool, _: V) -> V::Out {
        panic!("no Prio3 instances over FieldPrio2")
    }
}

/// Length accessors of an accepted instance: none may overflow, and they must agree with the
/// lengths predicted from the parameters.
fn accessors<T: Type>(cx: &mut Cx, t: &T, input_len: u128, output_len: u128) -> bool {
    let mut ok = true;
    let mut vals = vec![];
    for (name, f) in [
        ("input_len", (&|| t.input_len()) as &dyn Fn() -> usize),
        ("output_len", &|| t.output_len()),
        ("proof_len", &|| t.proof_len()),
        ("verifier_len", &|| t.verifier_len()),
        ("prove_rand_len", &|| t.prove_rand_len()),
        ("query_rand_len", &|| t.query_rand_len()),
        ("joint_rand_len", &|| t.joint_rand_len()),
    ] {
        match cx.total(name, f) {
            Some(v) => vals.push(v),
            None => ok = false,
        }
    }
    if ok {
        if vals[0] as u128 != input_len {
            cx.wrong("input_len", format!("input_len() = {} but the parameters give {}", vals[0], input_len));
            ok = false;
        }
        if vals[1] as u128 != output_len {
            cx.wrong("output_len", format!("output_len() = {} but the parameters give {}", vals[1], output_len));
            ok = false;
        }
    }
    ok
}

/// One honest FLP round on an accepted instance.
fn flp_round<F: KitField, T: Type<Field = F>>(cx: &mut Cx, tc: &TypeCase<T>, seed: u64)
where
    F::Integer: IntConv,
{
    let t = &tc.typ;
    let mut st = seed ^ fnv(tc.name.as_bytes());
    let Some(inp) = cx.ok("encode_measurement", Exp::MustOk, || t.encode_measurement(&tc.valid)) else { return };
    let pr: Vec<F> = rnd_vec(t.prove_rand_len(), &mut st);
    let jr: Vec<F> = rnd_vec(t.joint_rand_len(), &mut st);
    let qr: Vec<F> = rnd_vec(t.query_rand_len(), &mut st);
    let Some(proof) = cx.ok("prove", Exp::MustOk, || t.prove(&inp, &pr, &jr)) else { return };
    if proof.len() != t.proof_len() {
        cx.wrong("prove", format!("proof has {} elements, proof_len() = {}", proof.len(), t.proof_len()));
    }
    let Some(ver) = cx.ok("query", Exp::MustOk, || t.query(&inp, &proof, &qr, &jr, 1)) else { return };
    match cx.ok("decide", Exp::MustOk, || t.decide(&ver)) {
        Some(true) => {}
        Some(false) => cx.wrong("decide", "honest proof of a valid measurement rejected".into()),
        None => return,
    }
    let Some(out) = cx.ok("truncate", Exp::MustOk, || t.truncate(inp.clone())) else { return };
    if let Some(res) = cx.ok("decode_result", Exp::MustOk, || t.decode_result(&out, 1)) {
        if format!("{:?}", res) != tc.expected {
            cx.wrong("decode_result", format!("round trip of the measurement gives {:.200}, expected {:.200}", format!("{:?}", res), tc.expected));
        }
    }
}

fn spec_args(spec: &Spec) -> Value {
    match spec {
        Spec::Count => json!({}),
        Spec::Sum(m) | Spec::Average(m) => json!({"max_measurement": m.to_string()}),
        Spec::SumVec(m, l, c) => json!({"max_measurement": m.to_string(), "len": l, "chunk_length": c}),
        Spec::Histogram(l, c) => json!({"length": l, "chunk_length": c}),
        Spec::Multihot(l, w, c) => json!({"num_buckets": l, "max_weight": w, "chunk_length": c}),
        Spec::L1(m, l, c) => json!({"max_value": m.to_string(), "measurement_len": l, "chunk_length": c}),
    }
}

/// Expectation for a constructor from the documented domain.
fn ctor_exp(spec: &Spec, p: u128) -> Exp {
    let bad_int = |m: u128| m == 0 || m >= p;
    match spec {
        Spec::Count => Exp::MustOk,
        Spec::Sum(m) | Spec::Average(m) => {
            if bad_int(*m) {
                Exp::MustErr
            } else {
                Exp::MustOk
            }
        }
        Spec::SumVec(m, l, c) | Spec::L1(m, l, c) => {
            if bad_int(*m) || *l == 0 || *c == 0 {
                Exp::MustErr
            } else {
                Exp::Any
            }
        }
        Spec::Histogram(l, c) => {
            if *l == 0 || *c == 0 || *l >= u32::MAX as usize {
                Exp::MustErr
            } else {
                Exp::Any
            }
        }
        Spec::Multihot(l, w, c) => {
            if *l == 0 || *c == 0 || *w == 0 || *l >= u32::MAX as usize || *w as u128 >= p {
                Exp::MustErr
            } else {
                Exp::Any
            }
        }
    }
}

/// Constructor sweep of one type over one field: `new(params)`; an accepted instance must have
/// sane length accessors and carry one honest FLP round when it fits the work budget.
fn flp_ctor_family<F: KitField>(kind: &'static str, multithreaded: bool, tuples: Vec<Vec<u16>>, li: Arc<Lat>, lu: Arc<Lat>, cap: u128, seed: u64) -> Family
where
    F::Integer: IntConv,
{
    let fam_name = format!("flp/{kind}<{}>/new{}", fname::<F>(), if multithreaded { "(multithreaded)" } else { "" });
    let site = format!("flp/{kind}/new");
    let default: Vec<u16> = match kind {
        "Sum" | "Average" => vec![pos_of(&li, 3)],
        "Histogram" => vec![pos_of(&lu, 3), pos_of(&lu, 2)],
        "SumVec" | "L1BoundSum" => vec![pos_of(&li, 3), pos_of(&lu, 3), pos_of(&lu, 2)],
        _ => vec![pos_of(&lu, 3), pos_of(&lu, 2), pos_of(&lu, 2)],
    };
    let mut f = fam(&fam_name, tuples, move |t| {
        let i = |k: usize| li[t[k] as usize].clone();
        let u = |k: usize| lu[t[k] as usize].clone();
        let (spec, class) = match kind {
            "Sum" => (Spec::Sum(i(0).1), format!("max_measurement={}", i(0).0)),
            "Average" => (Spec::Average(i(0).1), format!("max_measurement={}", i(0).0)),
            "SumVec" => (Spec::SumVec(i(0).1, u(1).1 as usize, u(2).1 as usize), format!("max_measurement={},len={},chunk_length={}", i(0).0, u(1).0, u(2).0)),
            "L1BoundSum" => (Spec::L1(i(0).1, u(1).1 as usize, u(2).1 as usize), format!("max_value={},measurement_len={},chunk_length={}", i(0).0, u(1).0, u(2).0)),
            "Histogram" => (Spec::Histogram(u(0).1 as usize, u(1).1 as usize), format!("length={},chunk_length={}", u(0).0, u(1).0)),
            "MultihotCountVec" => (Spec::Multihot(u(0).1 as usize, u(1).1 as usize, u(2).1 as usize), format!("num_buckets={},max_weight={},chunk_length={}", u(0).0, u(1).0, u(2).0)),
            _ => unreachable!(),
        };
        let class = format!("{}{},{}", fname::<F>(), if multithreaded { ",multithreaded" } else { "" }, class);
        let exp = ctor_exp(&spec, F::p());
        prep(&site, class, spec_args(&spec), move |cx| dispatch::<F, _>(&spec.clone(), multithreaded, CtorVisit { cx, spec, exp, cap, seed }))
    });
    f.default = default;
    f
}
struct CtorVisit<'a> {
    cx: &'a mut Cx,
    spec: Spec,
    exp: Exp,
    cap: u128,
    seed: u64,
}
impl<'a, F: KitField> TypeVisitor<F> for CtorVisit<'a>
where
    F::Integer: IntConv,
{
    type Out = ();
    fn visit<T: Build<F> + 'static>(self) {
        let CtorVisit { cx, spec, exp, cap, seed } = self;
        if let Some(typ) = cx.ok("", exp, || <T as Build<F>>::construct(&spec)) {
            let (il, ol, work) = dims(&spec);
            if accessors(cx, &typ, il, ol) {
                if work <= cap {
                    let tc = assemble(&spec, typ);
                    flp_round::<F, T>(cx, &tc, seed);
                } else {
                    cx.outcome = "ok:round_skipped_too_big".into();
                }
            }
        }
    }
}

/// tuples for a constructor with `dims` parameters: quick = core^k product + full singles + full
/// pairs (others at a valid default); thorough = full product.
fn ctor_tuples(full_dims: &[usize], core_idx: &[Vec<u16>], defaults: &[u16], quick: bool) -> Vec<Vec<u16>> {
    if !quick || full_dims.len() <= 2 {
        return product(full_dims);
    }
    let mut out = upto(full_dims, defaults, 2);
    let mut seen: std::collections::HashSet<Vec<u16>> = out.iter().cloned().collect();
    let dims: Vec<usize> = core_idx.iter().map(|c| c.len()).collect();
    for t in product(&dims) {
        let tt: Vec<u16> = t.iter().enumerate().map(|(k, &i)| core_idx[k][i as usize]).collect();
        if seen.insert(tt.clone()) {
            out.push(tt);
        }
    }
    out
}
/// positions in the full lattice of the core lattice's values, and of a default value
fn core_positions(full: &Lat, core: &Lat) -> Vec<u16> {
    core.iter().map(|(_, v)| full.iter().position(|(_, w)| w == v).expect("core value missing from full lattice") as u16).collect()
}
fn pos_of(full: &Lat, v: u128) -> u16 {
    full.iter().position(|(_, w)| *w == v).expect("default missing from lattice") as u16
}

// ---------------------------------------------------------------------------------------------
// operation lattices on fixed instances
fn op_specs<F: KitField>() -> Vec<Spec>
where
    F::Integer: IntConv,
{
    let p = F::p();
    let mut v = vec![Spec::Count];
    for m in [1, 2, 3, 255, 256, p - 1] {
        v.push(Spec::Sum(m));
    }
    for m in [1, 255, p - 1] {
        v.push(Spec::Average(m));
    }
    if p > 1 << 65 {
        v.push(Spec::Average(1 << 64));
    }
    for (m, l, c) in [(1, 1, 1), (1, 3, 2), (3, 3, 2), (255, 2, 3), (1, 4, 5), (p - 1, 1, 1), (1, 300, 17)] {
        v.push(Spec::SumVec(m, l, c));
    }
    for (l, c) in [(1, 1), (2, 1), (3, 2), (4, 2), (4, 5), (256, 16)] {
        v.push(Spec::Histogram(l, c));
    }
    for (l, w, c) in [(1, 1, 1), (3, 2, 2), (4, 4, 3), (4, 7, 2), (256, 255, 16)] {
        v.push(Spec::Multihot(l, w, c));
    }
    for (m, l, c) in [(1, 1, 1), (7, 4, 3), (255, 2, 2), (p - 1, 1, 1)] {
        v.push(Spec::L1(m, l, c));
    }
    v
}

fn num_shares_lattice(p: u128) -> Vec<(String, usize)> {
    let mut v: Vec<(String, usize)> = vec![("1".into(), 1), ("0".into(), 0), ("2".into(), 2), ("3".into(), 3), ("254".into(), 254), ("255".into(), 255), ("256".into(), 256), ("257".into(), 257), ("2^32".into(), 1 << 32)];
    for (l, x) in [("p-1", p - 1), ("p", p), ("p+1", p + 1)] {
        if x <= usize::MAX as u128 {
            v.push((l.into(), x as usize));
        }
    }
    v.push(("MAX".into(), usize::MAX));
    v
}

/// The seven operations of one fixed instance.
fn flp_op_families<F: FieldSel>(seed: u64, multithreaded: bool) -> Vec<Family>
where
    F::Integer: IntConv,
{
    let mut fams = vec![];
    let ns = Rc::new(num_shares_lattice(F::p()));
    let nm: Rc<Vec<(String, usize)>> = Rc::new(vec![("1".into(), 1), ("0".into(), 0), ("2".into(), 2), ("2^32".into(), 1 << 32), ("MAX".into(), usize::MAX)]);
    for spec in op_specs::<F>() {
        if F::ENCODED_SIZE == 4 && !matches!(spec, Spec::Count | Spec::Histogram(3, 2) | Spec::SumVec(3, 3, 2)) {
            continue;
        }
        if multithreaded && !matches!(spec, Spec::SumVec(..) | Spec::Histogram(..) | Spec::Multihot(..) | Spec::L1(..)) {
            continue;
        }
        let inst = format!("{}<{}{}>", spec.label(), fname::<F>(), if multithreaded { ",multithreaded" } else { "" });
        F::ops_dispatch(&spec.clone(), multithreaded, OpsVisit { spec, inst, seed, ns: ns.clone(), nm: nm.clone(), fams: &mut fams });
    }
    fams
}
struct OpsVisit<'a> {
    spec: Spec,
    inst: String,
    seed: u64,
    ns: Rc<Vec<(String, usize)>>,
    nm: Rc<Vec<(String, usize)>>,
    fams: &'a mut Vec<Family>,
}
impl<'a, F: KitField> TypeVisitor<F> for OpsVisit<'a>
where
    F::Integer: IntConv,
{
    type Out = ();
    fn visit<T: Build<F> + 'static>(self) {
        let OpsVisit { spec, inst, seed, ns, nm, fams } = self;
        // built here once to learn the menu sizes (constructor of a small valid instance)
        let tc0 = match <T as Build<F>>::build(&spec) {
            Ok(tc) => tc,
            Err(e) => {
                // the constructor sweep reports a rejected valid instance; nothing to enumerate here
                if !IS_WORKER.load(Ordering::Relaxed) {
                    eprintln!("note: operation instance {inst} is rejected by its constructor ({e}); its operation families are skipped");
                }
                return;
            }
        };
        let n_meas = tc0.meas.len();
        let cell: Rc<OnceCell<TypeCase<T>>> = Rc::new(OnceCell::new());
        let build = {
            let spec = spec.clone();
            move || <T as Build<F>>::build(&spec).expect("built before")
        };
        // encode_measurement (+ truncate for accepted measurements)
        {
            let (cell, build, inst) = (cell.clone(), build.clone(), inst.clone());
            let labels: Vec<String> = tc0.meas.iter().map(|m| m.0.clone()).collect();
            fams.push(fam(&format!("flp/{inst}/encode_measurement"), product(&[n_meas]), move |t| {
                let k = t[0] as usize;
                let (cell, build) = (cell.clone(), build.clone());
                prep("flp/encode_measurement", format!("{}@{inst}", labels[k]), json!({"measurement_class": labels[k]}), move |cx| {
                    let tc = cell.get_or_init(build);
                    let (_, m, exp) = &tc.meas[k];
                    if let Some(enc) = cx.ok("", *exp, || tc.typ.encode_measurement(m)) {
                        if enc.len() as u128 != tc.input_len {
                            cx.wrong("", format!("encoded measurement has {} elements, input_len is {}", enc.len(), tc.input_len));
                        }
                        if *exp == Exp::MustOk {
                            let _ = cx.ok("truncate", Exp::MustOk, || tc.typ.truncate(enc));
                        }
                    }
                })
            }));
        }
        // truncate / decode_result / decide: length menus
        {
            let (cell, build, inst) = (cell.clone(), build.clone(), inst.clone());
            let nm = nm.clone();
            let il = len_lattice(tc0.input_len as usize);
            let ol = len_lattice(tc0.output_len as usize);
            let vl = len_lattice(tc0.typ.verifier_len());
            let mut tuples = vec![];
            for i in 0..il.len() {
                for v in 0..3 {
                    tuples.push(vec![0u16, i as u16, v, 0]);
                }
            }
            for i in 0..ol.len() {
                for v in 0..3 {
                    for m in 0..nm.len() {
                        tuples.push(vec![1u16, i as u16, v, m as u16]);
                    }
                }
            }
            for i in 0..vl.len() {
                for v in 0..3 {
                    tuples.push(vec![2u16, i as u16, v, 0]);
                }
            }
            fams.push(fam(&format!("flp/{inst}/truncate+decode_result+decide"), tuples, move |t| {
                let (op, li, vi, mi) = (t[0], t[1] as usize, t[2], t[3] as usize);
                let lat = [&il, &ol, &vl][op as usize];
                let (ll, len) = lat[li].clone();
                let vlab = ["zeros", "ones", "p-1"][vi as usize];
                let (ml, nmeas) = nm[mi].clone();
                let site = ["flp/truncate", "flp/decode_result", "flp/decide"][op as usize];
                let class = if op == 1 { format!("len={ll},values={vlab},num_measurements={ml}@{inst}") } else { format!("len={ll},values={vlab}@{inst}") };
                let (cell, build) = (cell.clone(), build.clone());
                prep(site, class, json!({"len": len, "values": vlab, "num_measurements": nmeas}), move |cx| {
                    let tc = cell.get_or_init(build);
                    let x = match vi {
                        0 => F::zero(),
                        1 => F::one(),
                        _ => -F::one(),
                    };
                    let data = vec![x; len];
                    let exp = if ll == "len" { Exp::Any } else { Exp::MustErr };
                    match op {
                        0 => drop(cx.call("", exp, || tc.typ.truncate(data))),
                        1 => drop(cx.call("", exp, || tc.typ.decode_result(&data, nmeas))),
                        _ => drop(cx.call("", exp, || tc.typ.decide(&data))),
                    }
                })
            }));
        }
        // prove / query / valid: lengths (up to 3 wrong at a time) x num_shares
        {
            let (cell, build, inst) = (cell.clone(), build.clone(), inst.clone());
            let ns = ns.clone();
            let t0 = &tc0.typ;
            let lats: Rc<Vec<Vec<(String, usize)>>> = Rc::new(vec![len_lattice(tc0.input_len as usize), len_lattice(t0.proof_len()), len_lattice(t0.prove_rand_len()), len_lattice(t0.query_rand_len()), len_lattice(t0.joint_rand_len())]);
            let d = |k: usize| lats[k].len();
            let mut tuples: Vec<Vec<u16>> = vec![];
            // prove: input, prove_rand, joint_rand
            for t in product(&[d(0), d(2), d(4)]) {
                tuples.push(vec![0, t[0], 0, t[1], 0, t[2], 0]);
            }
            // query: input, proof, query_rand, joint_rand, num_shares (<= 3 departures)
            for t in upto(&[d(0), d(1), d(3), d(4), ns.len()], &[0, 0, 0, 0, 0], 3) {
                tuples.push(vec![1, t[0], t[1], 0, t[2], t[3], t[4]]);
            }
            // valid: input, joint_rand, num_shares
            for t in product(&[d(0), d(4), ns.len()]) {
                tuples.push(vec![2, t[0], 0, 0, 0, t[1], t[2]]);
            }
            fams.push(fam(&format!("flp/{inst}/prove+query+valid"), tuples, move |t| {
                let op = t[0];
                let pick = |k: usize| lats[k][t[k + 1] as usize].clone();
                let (inp, prf, prr, qrr, jrr) = (pick(0), pick(1), pick(2), pick(3), pick(4));
                let (nl, nsh) = ns[t[6] as usize].clone();
                let site = ["flp/prove", "flp/query", "flp/valid"][op as usize];
                let class = match op {
                    0 => format!("input={},prove_rand={},joint_rand={}@{inst}", inp.0, prr.0, jrr.0),
                    1 => format!("input={},proof={},query_rand={},joint_rand={},num_shares={nl}@{inst}", inp.0, prf.0, qrr.0, jrr.0),
                    _ => format!("input={},joint_rand={},num_shares={nl}@{inst}", inp.0, jrr.0),
                };
                let (cell, build, inst) = (cell.clone(), build.clone(), inst.clone());
                prep(site, class, json!({"input_len": inp.1, "proof_len": prf.1, "prove_rand_len": prr.1, "query_rand_len": qrr.1, "joint_rand_len": jrr.1, "num_shares": nsh}), move |cx| {
                    let tc = cell.get_or_init(build);
                    let ty = &tc.typ;
                    let mut st = seed ^ fnv(inst.as_bytes());
                    // honest material, then resized
                    let Some(enc) = cx.ok("setup/encode_measurement", Exp::MustOk, || ty.encode_measurement(&tc.valid)) else { return };
                    let pr: Vec<F> = rnd_vec(ty.prove_rand_len(), &mut st);
                    let jr: Vec<F> = rnd_vec(ty.joint_rand_len(), &mut st);
                    let qr: Vec<F> = rnd_vec(ty.query_rand_len(), &mut st);
                    cx.outcome.clear();
                    let x = fit_len(&enc, inp.1, F::zero());
                    let jr2 = fit_len(&jr, jrr.1, F::one());
                    let all_len = |ls: &[&str]| ls.iter().all(|l| *l == "len");
                    match op {
                        0 => {
                            let pr2 = fit_len(&pr, prr.1, F::one());
                            let exp = if all_len(&[&inp.0, &prr.0, &jrr.0]) { Exp::MustOk } else { Exp::MustErr };
                            drop(cx.call("", exp, || ty.prove(&x, &pr2, &jr2)));
                        }
                        1 => {
                            let Some(proof) = cx.ok("setup/prove", Exp::MustOk, || ty.prove(&enc, &pr, &jr)) else { return };
                            cx.outcome.clear();
                            let proof2 = fit_len(&proof, prf.1, F::zero());
                            let qr2 = fit_len(&qr, qrr.1, F::one() + F::one());
                            let lens_ok = all_len(&[&inp.0, &prf.0, &qrr.0, &jrr.0]);
                            let exp = if !lens_ok {
                                Exp::MustErr
                            } else if nl == "1" {
                                Exp::MustOk
                            } else {
                                Exp::Any
                            };
                            drop(cx.call("", exp, || ty.query(&x, &proof2, &qr2, &jr2, nsh)));
                        }
                        _ => {
                            let exp = if !all_len(&[&inp.0, &jrr.0]) {
                                Exp::MustErr
                            } else if nl == "1" {
                                Exp::MustOk
                            } else {
                                Exp::Any
                            };
                            let mut g = ty.gadget();
                            drop(cx.call("", exp, || ty.valid(&mut g, &x, &jr2, nsh)));
                        }
                    }
                })
            }));
        }
        // query: gadget query point inside the wire-polynomial domain (an out-of-domain argument that
        // would reveal a wire value) for each gadget position, right lengths everywhere else
        {
            let (cell, build, inst) = (cell.clone(), build.clone(), inst.clone());
            let t0 = &tc0.typ;
            let ngad = t0.gadget().len();
            let tuples: Vec<Vec<u16>> = product(&[ngad.max(1), 6]);
            fams.push(fam(&format!("flp/{inst}/query_root_of_unity"), tuples, move |t| {
                let (gi, ki) = (t[0] as usize, t[1] as usize);
                let klab = ["1", "-1", "w", "w^2", "w^-1", "w^(P/2+1)"][ki];
                let (cell, build, inst) = (cell.clone(), build.clone(), inst.clone());
                prep("flp/query", format!("gadget_point[{gi}]={klab}@{inst}"), json!({"gadget": gi, "point": klab}), move |cx| {
                    let tc = cell.get_or_init(build);
                    let ty = &tc.typ;
                    let gadgets = ty.gadget();
                    if gi >= gadgets.len() {
                        cx.skip("no such gadget");
                        return;
                    }
                    let mut st = seed ^ fnv(inst.as_bytes()) ^ 0x5151;
                    let Some(enc) = cx.ok("setup/encode_measurement", Exp::MustOk, || ty.encode_measurement(&tc.valid)) else { return };
                    let pr: Vec<F> = rnd_vec(ty.prove_rand_len(), &mut st);
                    let jr: Vec<F> = rnd_vec(ty.joint_rand_len(), &mut st);
                    let mut qr: Vec<F> = rnd_vec(ty.query_rand_len(), &mut st);
                    let Some(proof) = cx.ok("setup/prove", Exp::MustOk, || ty.prove(&enc, &pr, &jr)) else { return };
                    cx.outcome.clear();
                    // wire-polynomial domain of this gadget: P = next_power_of_two(1 + calls); w = principal P-th root
                    let pp = (1 + gadgets[gi].calls()).next_power_of_two();
                    let w = F::root(pp.trailing_zeros() as usize).expect("root of unity of the wire domain");
                    let pw = |e: usize| (0..e).fold(F::one(), |a, _| a * w);
                    let point = match ki {
                        0 => F::one(),
                        1 => -F::one(),
                        2 => w,
                        3 => pw(2),
                        4 => pw(pp - 1),
                        _ => pw(pp / 2 + 1),
                    };
                    // -1 lies in the domain only when P >= 2
                    let in_domain = (0..pp).any(|e| pw(e) == point);
                    let off = ty.query_rand_len() - gadgets.len();
                    qr[off + gi] = point;
                    let exp = if in_domain { Exp::MustErr } else { Exp::Any };
                    drop(cx.call("", exp, || ty.query(&enc, &proof, &qr, &jr, 1)));
                })
            }));
        }
    }
}

fn flp_families(quick: bool, seed: u64) -> Vec<Family> {
    let mut fams = vec![];
    let cap: u128 = if quick { 1 << 13 } else { 1 << 19 };
    let lu_full = Arc::new(lat_usize(true));
    let lu_core = lat_usize(false);
    let cu = core_positions(&lu_full, &lu_core);
    macro_rules! field {
        ($F:ty) => {{
            let li_full = Arc::new(lat_int::<$F>(true));
            let li_core = lat_int::<$F>(false);
            let ci = core_positions(&li_full, &li_core);
            let (ni, nu) = (li_full.len(), lu_full.len());
            let (di, du1, du2) = (pos_of(&li_full, 3), pos_of(&lu_full, 3), pos_of(&lu_full, 2));
            fams.push(flp_ctor_family::<$F>("Sum", false, product(&[ni]), li_full.clone(), lu_full.clone(), cap, seed));
            fams.push(flp_ctor_family::<$F>("Average", false, product(&[ni]), li_full.clone(), lu_full.clone(), cap, seed));
            fams.push(flp_ctor_family::<$F>("Histogram", false, product(&[nu, nu]), li_full.clone(), lu_full.clone(), cap, seed));
            let t3i = ctor_tuples(&[ni, nu, nu], &[ci.clone(), cu.clone(), cu.clone()], &[di, du1, du2], quick);
            let t3u = ctor_tuples(&[nu, nu, nu], &[cu.clone(), cu.clone(), cu.clone()], &[du1, du2, du2], quick);
            fams.push(flp_ctor_family::<$F>("SumVec", false, t3i.clone(), li_full.clone(), lu_full.clone(), cap, seed));
            fams.push(flp_ctor_family::<$F>("L1BoundSum", false, t3i.clone(), li_full.clone(), lu_full.clone(), cap, seed));
            fams.push(flp_ctor_family::<$F>("MultihotCountVec", false, t3u.clone(), li_full.clone(), lu_full.clone(), cap, seed));
            // multithreaded gadget: core lattice products
            let dims_i: Vec<Vec<u16>> = vec![ci.clone(), cu.clone(), cu.clone()];
            let core3 = |d: &Vec<Vec<u16>>| -> Vec<Vec<u16>> { product(&[d[0].len(), d[1].len(), d[2].len()]).into_iter().map(|t| vec![d[0][t[0] as usize], d[1][t[1] as usize], d[2][t[2] as usize]]).collect() };
            let core2: Vec<Vec<u16>> = product(&[cu.len(), cu.len()]).into_iter().map(|t| vec![cu[t[0] as usize], cu[t[1] as usize]]).collect();
            fams.push(flp_ctor_family::<$F>("Histogram", true, core2, li_full.clone(), lu_full.clone(), cap, seed));
            fams.push(flp_ctor_family::<$F>("SumVec", true, core3(&dims_i), li_full.clone(), lu_full.clone(), cap, seed));
            fams.push(flp_ctor_family::<$F>("L1BoundSum", true, core3(&dims_i), li_full.clone(), lu_full.clone(), cap, seed));
            fams.push(flp_ctor_family::<$F>("MultihotCountVec", true, core3(&vec![cu.clone(), cu.clone(), cu.clone()]), li_full.clone(), lu_full.clone(), cap, seed));
            fams.extend(flp_op_families::<$F>(seed, false));
        }};
    }
    field!(Field64);
    field!(Field128);
    fams.extend(flp_op_families::<Field128>(seed, true));
    // the small 32-bit field of Prio2: num_shares >= p is representable in usize
    fams.extend(flp_op_families::<FieldPrio2>(seed, false));
    fams
}

// =============================================================================================
// prio::vdaf::prio3
// =============================================================================================
type P3<T> = Prio3<T, XofTurboShake128, 32>;
type IS<F> = Prio3InputShare<F, 32>;
type PSh = Prio3PublicShare<32>;
type ST<F> = Prio3VerifyState<F, 32>;
type VS<F> = Prio3VerifierShare<F, 32>;
type Msg = Prio3VerifierMessage<32>;

const VK: [u8; 32] = [7u8; 32];
const NONCE: [u8; 16] = [9u8; 16];
const CTX: &[u8] = b"c16 ctx";

#[derive(Clone)]
struct Honest<F: KitField>
where
    F::Integer: IntConv,
{
    ps: PSh,
    shares: Vec<IS<F>>,
    states: Vec<ST<F>>,
    vshares: Vec<VS<F>>,
    msg: Msg,
    outs: Vec<OutputShare<F>>,
    aggs: Vec<AggregateShare<F>>,
}

/// One honest report through all stages; every stage must succeed and the result must be the
/// measurement's own aggregate.
fn p3_run<F: KitField, T: Type<Field = F>>(cx: &mut Cx, pre: &str, vdaf: &P3<T>, n: usize, meas: &T::Measurement, expected: &str, deterministic: Option<(bool, u64)>) -> Option<Honest<F>>
where
    F::Integer: IntConv,
{
    let s = |x: &str| format!("{pre}{x}");
    let (ps, shares) = match deterministic {
        Some((jr, seed)) => {
            let mut st = seed;
            let rnd: Vec<u8> = (0..n * 32 * if jr { 2 } else { 1 }).map(|_| splitmix(&mut st) as u8).collect();
            cx.ok(&s("shard"), Exp::MustOk, || vdaf.shard_with_random(CTX, meas, &NONCE, &rnd))?
        }
        None => cx.ok(&s("shard"), Exp::MustOk, || vdaf.shard(CTX, meas, &NONCE))?,
    };
    if shares.len() != n {
        cx.wrong(&s("shard"), format!("{} input shares for {} aggregators", shares.len(), n));
        return None;
    }
    let mut states = vec![];
    let mut vshares = vec![];
    for (i, sh) in shares.iter().enumerate() {
        let (st, vs) = cx.ok(&s("verify_init"), Exp::MustOk, || vdaf.verify_init(&VK, CTX, i, &(), &NONCE, &ps, sh))?;
        states.push(st);
        vshares.push(vs);
    }
    let msg = cx.ok(&s("verifier_shares_to_message"), Exp::MustOk, || vdaf.verifier_shares_to_message(CTX, &(), vshares.clone()))?;
    let mut outs = vec![];
    for st in states.iter() {
        match cx.ok(&s("verify_next"), Exp::MustOk, || vdaf.verify_next(CTX, st.clone(), msg.clone()))? {
            VerifyTransition::Finish(o) => outs.push(o),
            VerifyTransition::Continue(..) => {
                cx.wrong(&s("verify_next"), "Prio3 asked for a second round".into());
                return None;
            }
        }
    }
    let mut aggs = vec![];
    for o in outs.iter() {
        aggs.push(cx.ok(&s("aggregate"), Exp::MustOk, || vdaf.aggregate(&(), [o.clone()]))?);
    }
    let res = cx.ok(&s("unshard"), Exp::MustOk, || vdaf.unshard(&(), aggs.clone(), 1))?;
    if format!("{:?}", res) != expected {
        cx.wrong(&s("unshard"), format!("aggregate of one measurement is {:.200}, expected {:.200}", format!("{:?}", res), expected));
    }
    Some(Honest { ps, shares, states, vshares, msg, outs, aggs })
}

// ---------------------------------------------------------------------------------------------
// constructors
fn nagg_lattice() -> Lat {
    [0u128, 1, 2, 3, 127, 128, 253, 254, 255].iter().map(|x| (x.to_string(), *x)).collect()
}

/// tuples over parameter lattices given as (full lattice, core positions, default position):
/// every single parameter over its full lattice, plus all departures of up to `k` parameters on the
/// core lattices.
fn param_tuples(params: &[(usize, Vec<u16>, u16)], k: usize) -> Vec<Vec<u16>> {
    let defaults: Vec<u16> = params.iter().map(|p| p.2).collect();
    let mut out: Vec<Vec<u16>> = vec![];
    let mut seen = std::collections::HashSet::new();
    let mut push = |t: Vec<u16>, out: &mut Vec<Vec<u16>>| {
        if seen.insert(t.clone()) {
            out.push(t);
        }
    };
    push(defaults.clone(), &mut out);
    for (pi, p) in params.iter().enumerate() {
        for i in 0..p.0 {
            let mut t = defaults.clone();
            t[pi] = i as u16;
            push(t, &mut out);
        }
    }
    // departures on the core lattices: core index c of parameter pi, with the default mapped in
    let dims: Vec<usize> = params.iter().map(|p| p.1.len() + 1).collect();
    let dflt: Vec<u16> = params.iter().map(|p| p.1.len() as u16).collect();
    for t in upto(&dims, &dflt, k) {
        let tt: Vec<u16> = t.iter().enumerate().map(|(pi, &c)| if c as usize == params[pi].1.len() { params[pi].2 } else { params[pi].1[c as usize] }).collect();
        push(tt, &mut out);
    }
    out
}

struct P3CtorVisit<'a> {
    cx: &'a mut Cx,
    spec: Spec,
    n: u8,
    np: u8,
    alg: u32,
    ctor: &'static str,
    exp: Exp,
    cap: u128,
}
impl<'a, F: KitField> TypeVisitor<F> for P3CtorVisit<'a>
where
    F::Integer: IntConv,
{
    type Out = ();
    fn visit<T: Build<F> + 'static>(self) {
        let P3CtorVisit { cx, spec, n, np, alg, ctor, exp, cap } = self;
        // `ctor` selects the public constructor; the generic path needs the type first
        let vdaf: Option<P3<T>> = if ctor == "new" {
            let Some(typ) = cx.ok("type", Exp::Any, || <T as Build<F>>::construct(&spec)) else {
                cx.outcome = "skip:type_rejected".into();
                return;
            };
            cx.outcome.clear();
            cx.ok("", exp, || Prio3::new(n, np, alg, typ))
        } else {
            cx.ok("", exp, || named_ctor::<F, T>(ctor, &spec, n))
        };
        let Some(vdaf) = vdaf else { return };
        let (il, ol, work) = dims(&spec);
        if let Some(l) = cx.total("output_len", || vdaf.output_len()) {
            if l as u128 != ol {
                cx.wrong("output_len", format!("output_len() = {l}, parameters give {ol}"));
            }
        }
        if cx.total("verifier_len", || vdaf.verifier_len()).is_none() {
            return;
        }
        let _ = il;
        if work.saturating_mul(n as u128).saturating_mul(np as u128) <= cap {
            let tc = {
                // the FLP constructor again (cheap) to get the menus with an owned type
                let typ = <T as Build<F>>::construct(&spec).expect("constructed above");
                assemble(&spec, typ)
            };
            p3_run::<F, T>(cx, "e2e/", &vdaf, n as usize, &tc.valid, &tc.expected, None);
        } else {
            cx.outcome = "ok:e2e_skipped_too_big".into();
        }
    }
}

/// The named public constructors, reached through `Any` downcasts of the concrete alias types.
fn named_ctor<F: KitField, T: Build<F> + 'static>(ctor: &str, spec: &Spec, n: u8) -> Result<P3<T>, VdafError>
where
    F::Integer: IntConv,
{
    use std::any::Any;
    fn cast<A: 'static, B: 'static>(a: A) -> B {
        let b: Box<dyn Any> = Box::new(a);
        *b.downcast::<B>().unwrap_or_else(|_| panic!("constructor / type mismatch in the harness"))
    }
    match (ctor, spec) {
        ("new_count", Spec::Count) => Prio3::new_count(n).map(cast),
        ("new_sum", Spec::Sum(m)) => Prio3::new_sum(n, *m as u64).map(cast),
        ("new_average", Spec::Average(m)) => Prio3::new_average(n, *m).map(cast),
        ("new_sum_vec", Spec::SumVec(m, l, c)) => Prio3::new_sum_vec(n, *m, *l, *c).map(cast),
        ("new_sum_vec_multithreaded", Spec::SumVec(m, l, c)) => Prio3::new_sum_vec_multithreaded(n, *m, *l, *c).map(cast),
        ("new_histogram", Spec::Histogram(l, c)) => Prio3::new_histogram(n, *l, *c).map(cast),
        ("new_histogram_multithreaded", Spec::Histogram(l, c)) => Prio3::new_histogram_multithreaded(n, *l, *c).map(cast),
        ("new_multihot_count_vec", Spec::Multihot(l, w, c)) => Prio3::new_multihot_count_vec(n, *l, *w, *c).map(cast),
        ("new_multihot_count_vec_multithreaded", Spec::Multihot(l, w, c)) => Prio3::new_multihot_count_vec_multithreaded(n, *l, *w, *c).map(cast),
        ("new_l1_bound_sum", Spec::L1(m, l, c)) => Prio3::new_l1_bound_sum(n, *m, *l, *c).map(cast),
        _ => panic!("unknown constructor {ctor}"),
    }
}

fn p3_ctor_families(quick: bool, _seed: u64) -> Vec<Family> {
    let mut fams = vec![];
    let cap: u128 = if quick { 1 << 15 } else { 1 << 19 };
    let k = if quick { 2 } else { 3 };
    let all256: Arc<Lat> = Arc::new((0..256u128).map(|x| (x.to_string(), x)).collect());
    let nl = nagg_lattice();
    let ncore = core_positions(&all256, &nl);
    let lu_full = Arc::new(lat_usize(true));
    let cu = core_positions(&lu_full, &lat_usize(false));
    let l64 = Arc::new(lat_int::<Field64>(true));
    let c64 = core_positions(&l64, &lat_int::<Field64>(false));
    let l128 = Arc::new(lat_int::<Field128>(true));
    let c128 = core_positions(&l128, &lat_int::<Field128>(false));
    let n_param = (256usize, ncore.clone(), 2u16);
    let u_param = |d: u128| (lu_full.len(), cu.clone(), pos_of(&lu_full, d));
    // (constructor, field is 64?, multithreaded, parameter lattices after n)
    struct C {
        ctor: &'static str,
        f64: bool,
        mt: bool,
        kind: &'static str,
    }
    let ctors = [
        C { ctor: "new_count", f64: true, mt: false, kind: "Count" },
        C { ctor: "new_sum", f64: true, mt: false, kind: "Sum" },
        C { ctor: "new_average", f64: false, mt: false, kind: "Average" },
        C { ctor: "new_sum_vec", f64: false, mt: false, kind: "SumVec" },
        C { ctor: "new_sum_vec_multithreaded", f64: false, mt: true, kind: "SumVec" },
        C { ctor: "new_histogram", f64: false, mt: false, kind: "Histogram" },
        C { ctor: "new_histogram_multithreaded", f64: false, mt: true, kind: "Histogram" },
        C { ctor: "new_multihot_count_vec", f64: false, mt: false, kind: "MultihotCountVec" },
        C { ctor: "new_multihot_count_vec_multithreaded", f64: false, mt: true, kind: "MultihotCountVec" },
        C { ctor: "new_l1_bound_sum", f64: false, mt: false, kind: "L1BoundSum" },
    ];
    for c in ctors {
        let (li, ci) = if c.f64 { (l64.clone(), c64.clone()) } else { (l128.clone(), c128.clone()) };
        let i_param = (li.len(), ci.clone(), pos_of(&li, 3));
        let params: Vec<(usize, Vec<u16>, u16)> = match c.kind {
            "Count" => vec![n_param.clone()],
            "Sum" | "Average" => vec![n_param.clone(), i_param],
            "SumVec" | "L1BoundSum" => vec![n_param.clone(), i_param, u_param(3), u_param(2)],
            "Histogram" => vec![n_param.clone(), u_param(3), u_param(2)],
            _ => vec![n_param.clone(), u_param(3), u_param(2), u_param(2)],
        };
        let tuples = param_tuples(&params, k);
        let default: Vec<u16> = params.iter().map(|p| p.2).collect();
        let (all256, lu, li) = (all256.clone(), lu_full.clone(), li.clone());
        let (ctor, kind, mt, is64) = (c.ctor, c.kind, c.mt, c.f64);
        let site = format!("prio3/{ctor}");
        let mut f = fam(&site.clone(), tuples, move |t| {
            let n = all256[t[0] as usize].1 as u8;
            let i = |k: usize| li[t[k] as usize].clone();
            let u = |k: usize| lu[t[k] as usize].clone();
            let (spec, class) = match kind {
                "Count" => (Spec::Count, String::new()),
                "Sum" => (Spec::Sum(i(1).1), format!(",max_measurement={}", i(1).0)),
                "Average" => (Spec::Average(i(1).1), format!(",max_measurement={}", i(1).0)),
                "SumVec" => (Spec::SumVec(i(1).1, u(2).1 as usize, u(3).1 as usize), format!(",max_measurement={},len={},chunk_length={}", i(1).0, u(2).0, u(3).0)),
                "L1BoundSum" => (Spec::L1(i(1).1, u(2).1 as usize, u(3).1 as usize), format!(",max_value={},len={},chunk_length={}", i(1).0, u(2).0, u(3).0)),
                "Histogram" => (Spec::Histogram(u(1).1 as usize, u(2).1 as usize), format!(",length={},chunk_length={}", u(1).0, u(2).0)),
                _ => (Spec::Multihot(u(1).1 as usize, u(2).1 as usize, u(3).1 as usize), format!(",num_buckets={},max_weight={},chunk_length={}", u(1).0, u(2).0, u(3).0)),
            };
            let p = if is64 { Field64::p() } else { Field128::p() };
            let texp = ctor_exp(&spec, p);
            let exp = if n == 0 || n == 255 || texp == Exp::MustErr {
                Exp::MustErr
            } else {
                texp
            };
            let mut args = spec_args(&spec);
            args["num_aggregators"] = json!(n);
            prep(&site, format!("num_aggregators={n}{class}"), args, move |cx| {
                let v = P3CtorVisit { cx, spec: spec.clone(), n, np: 1, alg: 0, ctor, exp, cap };
                if is64 {
                    Field64::p3_dispatch(&spec, mt, v)
                } else {
                    Field128::p3_dispatch(&spec, mt, v)
                }
            })
        });
        f.default = default;
        fams.push(f);
    }
    // Prio3::new(num_aggregators, num_proofs, algorithm_id, typ): all 256 x 256, algorithm ids
    let algs: Arc<Lat> = Arc::new(lat(32, None, false, &[("0xFFFF0000", 0xFFFF_0000)]));
    for (kind, spec, is64) in [("Count", Spec::Count, true), ("Sum", Spec::Sum(255), true), ("Histogram", Spec::Histogram(4, 2), false), ("Average", Spec::Average(255), false)] {
        let mut tuples = vec![];
        if kind == "Count" {
            tuples = product(&[256, 256, 1]);
        }
        let mut seen: std::collections::HashSet<Vec<u16>> = tuples.iter().cloned().collect();
        for t in product(&[ncore.len(), ncore.len(), algs.len()]) {
            let tt = vec![ncore[t[0] as usize], ncore[t[1] as usize], t[2]];
            if seen.insert(tt.clone()) {
                tuples.push(tt);
            }
        }
        let algs = algs.clone();
        let site = format!("prio3/new<{kind}>");
        let mut f = fam(&site.clone(), tuples, move |t| {
            let (n, np) = (t[0] as u8, t[1] as u8);
            let (al, alg) = algs[t[2] as usize].clone();
            let exp = if n == 0 || n == 255 || np == 0 { Exp::MustErr } else { Exp::MustOk };
            let spec = spec.clone();
            prep("prio3/new", format!("num_aggregators={n},num_proofs={np},algorithm_id={al},typ={}", spec.label()), json!({"num_aggregators": n, "num_proofs": np, "algorithm_id": alg as u32}), move |cx| {
                let v = P3CtorVisit { cx, spec: spec.clone(), n, np, alg: alg as u32, ctor: "new", exp, cap };
                if is64 {
                    Field64::p3_dispatch(&spec, false, v)
                } else {
                    Field128::p3_dispatch(&spec, false, v)
                }
            })
        });
        f.default = vec![2, 1, 0];
        fams.push(f);
    }
    // optimal_chunk_length: not Result-returning; recorded as a note only
    {
        let lu = lu_full.clone();
        fams.push(fam("prio3/optimal_chunk_length", product(&[lu.len()]), move |t| {
            let (l, x) = lu[t[0] as usize].clone();
            prep("prio3/optimal_chunk_length", format!("measurement_length={l}"), json!({"measurement_length": x.to_string()}), move |cx| {
                let before = cx.findings.len();
                match cx.total("", || optimal_chunk_length(x as usize)) {
                    Some(c) => {
                        cx.outcome = "ok".into();
                        if c == 0 {
                            cx.notes.push("returned chunk length 0".into());
                        }
                    }
                    None => {
                        // infallible signature: outside the property's quantifier, keep as a note
                        let f = cx.findings.split_off(before);
                        cx.outcome = "ok:total_fn_panicked".into();
                        for x in f {
                            cx.notes.push(format!("{} at {}", x.what, x.loc));
                        }
                    }
                }
            })
        }));
    }
    fams
}

// ---------------------------------------------------------------------------------------------
// protocol operations on a pool of fixed instances
trait P3Dyn<F: KitField>
where
    F::Integer: IntConv,
{
    fn name(&self) -> String;
    fn n(&self) -> usize;
    fn jr(&self) -> bool;
    /// (input_len, proof_len * num_proofs, verifier_len * num_proofs, output_len)
    fn lens(&self) -> (usize, usize, usize, usize);
    fn expected(&self) -> String;
    fn honest(&self, cx: &mut Cx, pre: &str, seed: u64) -> Option<Honest<F>>;
    fn meas_menu(&self) -> Vec<(String, Exp)>;
    fn shard(&self, k: usize, ctx: &[u8]) -> Result<(), VdafError>;
    fn verify_init(&self, ctx: &[u8], agg_id: usize, ps: &PSh, share: &IS<F>) -> Result<(ST<F>, VS<F>), VdafError>;
    fn to_message(&self, ctx: &[u8], shares: Vec<VS<F>>) -> Result<Msg, VdafError>;
    fn verify_next(&self, ctx: &[u8], st: ST<F>, msg: Msg) -> Result<usize, VdafError>;
    fn aggregate(&self, outs: Vec<OutputShare<F>>) -> Result<AggregateShare<F>, VdafError>;
    fn unshard(&self, aggs: Vec<AggregateShare<F>>, num: usize) -> Result<String, VdafError>;
    fn decode_state(&self, agg_id: usize, bytes: &[u8]) -> Result<ST<F>, String>;
    fn decode_public_share(&self, bytes: &[u8]) -> Result<PSh, String>;
}
struct P3Inst<T: Type> {
    vdaf: P3<T>,
    tc: TypeCase<T>,
    n: usize,
    np: usize,
}
impl<F: KitField, T: Type<Field = F>> P3Dyn<F> for P3Inst<T>
where
    F::Integer: IntConv,
{
    fn name(&self) -> String {
        format!("{}<{}>,n={}{}", self.tc.name, fname::<F>(), self.n, if self.np > 1 { format!(",proofs={}", self.np) } else { String::new() })
    }
    fn n(&self) -> usize {
        self.n
    }
    fn jr(&self) -> bool {
        self.tc.typ.joint_rand_len() > 0
    }
    fn lens(&self) -> (usize, usize, usize, usize) {
        let t = &self.tc.typ;
        (t.input_len(), t.proof_len() * self.np, t.verifier_len() * self.np, t.output_len())
    }
    fn expected(&self) -> String {
        self.tc.expected.clone()
    }
    fn honest(&self, cx: &mut Cx, pre: &str, seed: u64) -> Option<Honest<F>> {
        p3_run::<F, T>(cx, pre, &self.vdaf, self.n, &self.tc.valid, &self.tc.expected, Some((self.jr(), seed)))
    }
    fn meas_menu(&self) -> Vec<(String, Exp)> {
        self.tc.meas.iter().map(|m| (m.0.clone(), m.2)).collect()
    }
    fn shard(&self, k: usize, ctx: &[u8]) -> Result<(), VdafError> {
        self.vdaf.shard(ctx, &self.tc.meas[k].1, &NONCE).map(|_| ())
    }
    fn verify_init(&self, ctx: &[u8], agg_id: usize, ps: &PSh, share: &IS<F>) -> Result<(ST<F>, VS<F>), VdafError> {
        self.vdaf.verify_init(&VK, ctx, agg_id, &(), &NONCE, ps, share)
    }
    fn to_message(&self, ctx: &[u8], shares: Vec<VS<F>>) -> Result<Msg, VdafError> {
        self.vdaf.verifier_shares_to_message(ctx, &(), shares)
    }
    fn verify_next(&self, ctx: &[u8], st: ST<F>, msg: Msg) -> Result<usize, VdafError> {
        match self.vdaf.verify_next(ctx, st, msg)? {
            VerifyTransition::Finish(o) => Ok(o.as_ref().len()),
            VerifyTransition::Continue(..) => Ok(usize::MAX),
        }
    }
    fn aggregate(&self, outs: Vec<OutputShare<F>>) -> Result<AggregateShare<F>, VdafError> {
        self.vdaf.aggregate(&(), outs)
    }
    fn unshard(&self, aggs: Vec<AggregateShare<F>>, num: usize) -> Result<String, VdafError> {
        self.vdaf.unshard(&(), aggs, num).map(|r| format!("{:?}", r))
    }
    fn decode_state(&self, agg_id: usize, bytes: &[u8]) -> Result<ST<F>, String> {
        werr(ST::<F>::get_decoded_with_param(&(&self.vdaf, agg_id), bytes))
    }
    fn decode_public_share(&self, bytes: &[u8]) -> Result<PSh, String> {
        werr(PSh::get_decoded_with_param(&self.vdaf, bytes))
    }
}

struct PoolVisit {
    spec: Spec,
    n: u8,
    np: u8,
}
impl<F: KitField> TypeVisitor<F> for PoolVisit
where
    F::Integer: IntConv,
{
    type Out = Option<Rc<dyn P3Dyn<F>>>;
    fn visit<T: Build<F> + 'static>(self) -> Option<Rc<dyn P3Dyn<F>>> {
        // a pool instance its constructor refuses is left out (the constructor sweeps judge that)
        let tc = <T as Build<F>>::build(&self.spec).ok()?;
        let typ = tc.typ.clone();
        let vdaf: P3<T> = Prio3::new(self.n, self.np, 0x00C1_6000 + self.np as u32, typ).ok()?;
        Some(Rc::new(P3Inst { vdaf, tc, n: self.n as usize, np: self.np as usize }))
    }
}

struct Pool<F: KitField>
where
    F::Integer: IntConv,
{
    insts: Vec<Rc<dyn P3Dyn<F>>>,
    honest: OnceCell<Vec<Option<Honest<F>>>>,
}
impl<F: FieldSel> Pool<F>
where
    F::Integer: IntConv,
{
    fn new(specs: &[(Spec, u8, u8, bool)]) -> Pool<F> {
        Pool { insts: specs.iter().filter_map(|(s, n, np, mt)| F::p3_dispatch(s, *mt, PoolVisit { spec: s.clone(), n: *n, np: *np })).collect(), honest: OnceCell::new() }
    }
}
impl<F: KitField> Pool<F>
where
    F::Integer: IntConv,
{
    /// Honest transcripts of all pool instances (once per process); failures are findings of the
    /// case that first needed them.
    fn honest(&self, cx: &mut Cx, seed: u64) -> &Vec<Option<Honest<F>>> {
        self.honest.get_or_init(|| {
            self.insts
                .iter()
                .map(|i| {
                    let mut scratch = Cx::new();
                    let h = i.honest(&mut scratch, &format!("setup[{}]/", i.name()), seed);
                    cx.calls += scratch.calls;
                    cx.findings.append(&mut scratch.findings);
                    h
                })
                .collect()
        })
    }
}
struct World {
    p64: Pool<Field64>,
    p128: Pool<Field128>,
}
impl World {
    fn new() -> World {
        let p = Field64::p();
        let _ = p;
        World {
            p64: Pool::new(&[
                (Spec::Count, 2, 1, false),
                (Spec::Count, 3, 1, false),
                (Spec::Sum(255), 2, 1, false),
                (Spec::Sum(3), 2, 1, false),
                (Spec::Sum(255), 2, 2, false),
                (Spec::SumVec(1, 3, 2), 2, 1, false),
                (Spec::Histogram(4, 2), 3, 1, false),
            ]),
            p128: Pool::new(&[
                (Spec::Average(255), 2, 1, false),
                (Spec::Average(255), 2, 4, false),
                (Spec::Histogram(4, 5), 2, 1, false),
                (Spec::SumVec(3, 3, 2), 3, 1, false),
                (Spec::Multihot(4, 2, 2), 2, 1, false),
                (Spec::L1(7, 4, 3), 2, 1, false),
                (Spec::Histogram(4, 2), 2, 1, true),
                (Spec::SumVec(1, 3, 2), 2, 2, false),
            ]),
        }
    }
    fn names(&self) -> Vec<(String, bool)> {
        self.p64.insts.iter().map(|i| (i.name(), i.jr())).chain(self.p128.insts.iter().map(|i| (i.name(), i.jr()))).collect()
    }
    /// public shares and verifier messages of every pool instance (both fields): one Rust type
    fn globals(&self, cx: &mut Cx, seed: u64) -> Vec<Option<(PSh, Msg)>> {
        let mut v = vec![];
        for h in self.p64.honest(cx, seed) {
            v.push(h.as_ref().map(|h| (h.ps.clone(), h.msg.clone())));
        }
        for h in self.p128.honest(cx, seed) {
            v.push(h.as_ref().map(|h| (h.ps.clone(), h.msg.clone())));
        }
        v
    }
}
trait PoolOf<F: KitField>
where
    F::Integer: IntConv,
{
    fn pool(&self) -> &Pool<F>;
}
impl PoolOf<Field64> for World {
    fn pool(&self) -> &Pool<Field64> {
        &self.p64
    }
}
impl PoolOf<Field128> for World {
    fn pool(&self) -> &Pool<Field128> {
        &self.p128
    }
}

fn elems<F: KitField>(bytes: &[u8]) -> Vec<F>
where
    F::Integer: IntConv,
{
    bytes.chunks(F::ENCODED_SIZE).map(|c| F::get_decoded(c).expect("element of an honest message")).collect()
}

#[derive(Clone, Copy, PartialEq, Eq, Debug)]
enum Role {
    Own(usize),
    LeaderBad,
    LeaderExtraBlind,
    HelperBad,
    HelperExtraBlind,
    ForeignLeader,
    ForeignHelper,
}
/// Share variants for verify_init of instance `xi`. With `hon = None` only labels and roles are
/// produced (describing a case must not need the library).
fn share_menu<F: KitField>(pool: &Pool<F>, hon: Option<&[Option<Honest<F>>]>, xi: usize) -> Vec<(String, Role, Option<IS<F>>)>
where
    F::Integer: IntConv,
{
    let x = &pool.insts[xi];
    let (il, pl, _, _) = x.lens();
    let h = hon.map(|h| h[xi].as_ref().expect("honest transcript"));
    let mut v: Vec<(String, Role, Option<IS<F>>)> = vec![];
    v.push(("own_leader_share".into(), Role::Own(0), h.map(|h| h.shares[0].clone())));
    v.push(("own_helper_share[1]".into(), Role::Own(1), h.map(|h| h.shares[1].clone())));
    if x.n() > 2 {
        v.push((format!("own_helper_share[{}]", x.n() - 1), Role::Own(x.n() - 1), h.map(|h| h.shares[x.n() - 1].clone())));
    }
    let parts = h.map(|h| match h.shares[0].clone() {
        Prio3InputShare::Leader { measurement_share, proofs_share, joint_rand_blind } => (measurement_share, proofs_share, joint_rand_blind),
        _ => panic!("honest leader share is not a Leader"),
    });
    for (l, n) in len_lattice(il).into_iter().skip(1) {
        let key = if n < il { format!("short_measurement_share({l})") } else { format!("long_measurement_share({l})") };
        v.push((key, Role::LeaderBad, parts.as_ref().map(|(ms, prs, b)| Prio3InputShare::Leader { measurement_share: fit_len(ms, n, F::zero()), proofs_share: prs.clone(), joint_rand_blind: b.clone() })));
    }
    let mut pls = len_lattice(pl);
    pls.push(("2*len".into(), 2 * pl));
    for (l, n) in pls.into_iter().skip(1) {
        let key = if n < pl { format!("short_proofs_share({l})") } else { format!("long_proofs_share({l})") };
        v.push((key, Role::LeaderBad, parts.as_ref().map(|(ms, prs, b)| Prio3InputShare::Leader { measurement_share: ms.clone(), proofs_share: fit_len(prs, n, F::zero()), joint_rand_blind: b.clone() })));
    }
    let some_seed = Seed::<32>::get_decoded(&[0x5a; 32]).expect("seed");
    if x.jr() {
        v.push(("missing_blind(leader)".into(), Role::LeaderBad, parts.as_ref().map(|(ms, prs, _)| Prio3InputShare::Leader { measurement_share: ms.clone(), proofs_share: prs.clone(), joint_rand_blind: None })));
    } else {
        v.push(("unexpected_blind(leader)".into(), Role::LeaderExtraBlind, parts.as_ref().map(|(ms, prs, _)| Prio3InputShare::Leader { measurement_share: ms.clone(), proofs_share: prs.clone(), joint_rand_blind: Some(some_seed.clone()) })));
    }
    let hparts = h.map(|h| match h.shares[1].clone() {
        Prio3InputShare::Helper { meas_and_proofs_share, .. } => meas_and_proofs_share,
        _ => panic!("honest helper share is not a Helper"),
    });
    if x.jr() {
        v.push(("missing_blind(helper)".into(), Role::HelperBad, hparts.map(|mp| Prio3InputShare::Helper { meas_and_proofs_share: mp, joint_rand_blind: None })));
    } else {
        v.push(("unexpected_blind(helper)".into(), Role::HelperExtraBlind, hparts.map(|mp| Prio3InputShare::Helper { meas_and_proofs_share: mp, joint_rand_blind: Some(some_seed) })));
    }
    for (yi, y) in pool.insts.iter().enumerate() {
        if yi == xi {
            continue;
        }
        let hy = hon.and_then(|h| h[yi].as_ref());
        v.push((format!("leader_share_of[{}]", y.name()), Role::ForeignLeader, hy.map(|hy| hy.shares[0].clone())));
        v.push((format!("helper_share_of[{}]", y.name()), Role::ForeignHelper, hy.map(|hy| hy.shares[1].clone())));
    }
    v
}

fn p3_op_families<F: KitField>(world: Rc<World>, seed: u64, fams: &mut Vec<Family>)
where
    F::Integer: IntConv,
    World: PoolOf<F>,
{
    let n_inst = world.pool().insts.len();
        for xi in 0..n_inst {
        let x = world.pool().insts[xi].clone();
        let xname = x.name();
        let n = x.n();
        // ---- shard
        {
            let menu = x.meas_menu();
            let x = x.clone();
            let xname = xname.clone();
            fams.push(fam(&format!("prio3/shard@{xname}"), product(&[menu.len()]), move |t| {
                let (ml, exp) = menu[t[0] as usize].clone();
                let ctxl = "7B";
                let (x, k) = (x.clone(), t[0] as usize);
                prep("prio3/shard", format!("measurement:{ml}@{xname}"), json!({"measurement_class": ml, "ctx": ctxl}), move |cx| {
                    let ctx: Vec<u8> = CTX.to_vec();
                    drop(cx.call("", exp, || x.shard(k, &ctx)));
                })
            }));
        }
        // ---- verify_init: agg_id x share x public share
        {
            let ids: Vec<(String, usize)> = {
                let mut v: Vec<(String, usize)> = vec![("0".into(), 0), ("1".into(), 1)];
                for (l, a) in [("n-1", n - 1), ("n", n), ("n+1", n + 1), ("255", 255), ("256", 256), ("MAX", usize::MAX)] {
                    if !v.iter().any(|(_, b)| *b == a) {
                        v.push((l.into(), a));
                    }
                }
                v
            };
            let slabels: Vec<(String, Role)> = share_menu(world.pool(), None, xi).into_iter().map(|(l, r, _)| (l, r)).collect();
            // public shares: own, every pool instance of both fields, own bytes with one joint
            // randomness part fewer / more (decoded under an instance with that many aggregators)
            let gnames = world.names();
            let mut pslabels: Vec<String> = vec!["own".into()];
            pslabels.extend(gnames.iter().map(|(nm, _)| format!("of[{nm}]")));
            if x.jr() {
                pslabels.push("parts=n-1".into());
                pslabels.push("parts=n+1".into());
            }
            let (world, x, xname) = (world.clone(), x.clone(), xname.clone());
            fams.push(fam(&format!("prio3/verify_init@{xname}"), product(&[ids.len(), slabels.len(), pslabels.len()]), move |t| {
                let (idl, id) = ids[t[0] as usize].clone();
                let (si, pi) = (t[1] as usize, t[2] as usize);
                let (sl, role) = slabels[si].clone();
                let pl = pslabels[pi].clone();
                let (world, x, xname) = (world.clone(), x.clone(), xname.clone());
                let ps_same = pi == 0 || (pi <= gnames.len() && gnames[pi - 1].0 == xname);
                let n_g = gnames.len();
                prep("prio3/verify_init", format!("{sl},agg_id={idl},public_share={pl}@{xname}"), json!({"agg_id": id.to_string(), "share": sl, "public_share": pl}), move |cx| {
                    let pool: &Pool<F> = world.pool();
                    let hon = pool.honest(cx, seed).clone();
                    let gl = world.globals(cx, seed);
                    cx.outcome.clear();
                    if hon[xi].is_none() {
                        cx.skip("no_honest_transcript");
                        return;
                    }
                    let menu = share_menu(pool, Some(&hon), xi);
                    assert_eq!(menu[si].0, sl, "share menu is not stable");
                    let Some(share) = menu[si].2.clone() else {
                        cx.skip("no_foreign_transcript");
                        return;
                    };
                    let h = hon[xi].as_ref().unwrap();
                    let ps: PSh = if pi == 0 {
                        h.ps.clone()
                    } else if pi <= n_g {
                        match &gl[pi - 1] {
                            Some((p, _)) => p.clone(),
                            None => {
                                cx.skip("no_foreign_transcript");
                                return;
                            }
                        }
                    } else {
                        let more = pi == n_g + 2;
                        let mut b = h.ps.get_encoded().expect("encode public share");
                        if more {
                            b.extend_from_slice(&[0x33; 32]);
                        } else {
                            b.truncate(b.len() - 32);
                        }
                        let want = if more { n + 1 } else { n - 1 };
                        let Some(donor) = pool.insts.iter().find(|y| y.jr() && y.n() == want) else {
                            cx.skip("no_donor_instance");
                            return;
                        };
                        match donor.decode_public_share(&b) {
                            Ok(p) => p,
                            Err(_) => {
                                cx.skip("donor_decode_failed");
                                return;
                            }
                        }
                    };
                    let leader_shaped = matches!(role, Role::Own(0) | Role::LeaderBad | Role::LeaderExtraBlind | Role::ForeignLeader);
                    let exp = if id >= n {
                        Exp::MustErr
                    } else if leader_shaped != (id == 0) {
                        Exp::MustErr // wrong role
                    } else {
                        match role {
                            Role::LeaderBad | Role::HelperBad => Exp::MustErr,
                            Role::Own(k) if k == id && ps_same => Exp::MustOk,
                            _ => Exp::Any,
                        }
                    };
                    drop(cx.call("", exp, || x.verify_init(CTX, id, &ps, &share)));
                })
            }));
        }
        // ---- verifier_shares_to_message
        {
            // recipes
            let mut recipes: Vec<String> = vec![];
            for k in 0..=n + 1 {
                recipes.push(format!("count={k}"));
            }
            for k in [255usize, 256, 257, 256 + n] {
                recipes.push(format!("count={k}(zero-padded)"));
            }
            recipes.push("n+1:zero_share_appended".into());
            recipes.push("n-1:two_shares_merged".into());
            recipes.push("swapped".into());
            for yi in 0..n_inst {
                if yi != xi {
                    recipes.push(format!("foreign[{yi}]"));
                }
            }
            let (world, x, xname) = (world.clone(), x.clone(), xname.clone());
            let recipes = Rc::new(recipes);
            fams.push(fam(&format!("prio3/verifier_shares_to_message@{xname}"), product(&[recipes.len()]), move |t| {
                let r = recipes[t[0] as usize].clone();
                let (world, x, xname) = (world.clone(), x.clone(), xname.clone());
                let class = if let Some(yi) = r.strip_prefix("foreign[") {
                    let yi: usize = yi.trim_end_matches(']').parse().unwrap();
                    format!("share_from[{}]@{xname}", world.pool().insts[yi].name())
                } else {
                    format!("{r}@{xname}")
                };
                prep("prio3/verifier_shares_to_message", class, json!({"recipe": r}), move |cx| {
                    let pool: &Pool<F> = world.pool();
                    let hon = pool.honest(cx, seed).clone();
                    cx.outcome.clear();
                    let Some(h) = hon[xi].as_ref() else {
                        cx.skip("no_honest_transcript");
                        return;
                    };
                    let (_, _, vl, _) = x.lens();
                    let zero_share = || -> VS<F> {
                        let mut b = vec![0u8; vl * F::ENCODED_SIZE];
                        if x.jr() {
                            b.extend_from_slice(&[0u8; 32]);
                        }
                        VS::<F>::get_decoded_with_param(&h.states[0], &b).expect("zero verifier share")
                    };
                    let (list, exp): (Vec<VS<F>>, Exp) = if let Some(k) = r.strip_prefix("count=") {
                        let (k, padded) = match k.strip_suffix("(zero-padded)") {
                            Some(k) => (k.parse::<usize>().unwrap(), true),
                            None => (k.parse::<usize>().unwrap(), false),
                        };
                        let mut l: Vec<VS<F>> = h.vshares.iter().take(k).cloned().collect();
                        while l.len() < k {
                            l.push(if padded { zero_share() } else { h.vshares[n - 1].clone() });
                        }
                        (l, if k == n { Exp::MustOk } else { Exp::MustErr })
                    } else if r == "n+1:zero_share_appended" {
                        let mut l = h.vshares.clone();
                        l.push(zero_share());
                        (l, Exp::MustErr)
                    } else if r == "n-1:two_shares_merged" {
                        let b0 = h.vshares[0].get_encoded().expect("encode");
                        let b1 = h.vshares[1].get_encoded().expect("encode");
                        let nb = vl * F::ENCODED_SIZE;
                        let (e0, e1) = (elems::<F>(&b0[..nb]), elems::<F>(&b1[..nb]));
                        let mut b = vec![];
                        for (a, c) in e0.iter().zip(&e1) {
                            (*a + *c).encode(&mut b).expect("encode element");
                        }
                        b.extend_from_slice(&b0[nb..]);
                        let merged = VS::<F>::get_decoded_with_param(&h.states[0], &b).expect("merged verifier share");
                        let mut l = vec![merged];
                        l.extend(h.vshares.iter().skip(2).cloned());
                        (l, Exp::MustErr)
                    } else if r == "swapped" {
                        let mut l = h.vshares.clone();
                        l.swap(0, 1);
                        (l, if x.jr() { Exp::Any } else { Exp::MustOk })
                    } else {
                        let yi: usize = r.trim_start_matches("foreign[").trim_end_matches(']').parse().unwrap();
                        let Some(hy) = hon[yi].as_ref() else {
                            cx.skip("no_foreign_transcript");
                            return;
                        };
                        let y = &pool.insts[yi];
                        let mut l = h.vshares.clone();
                        l[1] = hy.vshares[1].clone();
                        let structural = y.lens().2 != vl || (x.jr() && !y.jr());
                        (l, if structural { Exp::MustErr } else { Exp::Any })
                    };
                    drop(cx.call("", exp, || x.to_message(CTX, list)));
                })
            }));
        }
        // ---- verify_next: state x message
        {
            // states: own[0], own[1], own[0] decoded as id 1, own[1] decoded as id 0, foreign leader / helper states
            let others: Vec<usize> = (0..n_inst).filter(|y| *y != xi).collect();
            let mut slabels: Vec<String> = vec!["own[0]".into(), "own[1]".into(), "own[0]_bytes_decoded_under_id_1".into(), "own[1]_bytes_decoded_under_id_0".into()];
            for &yi in &others {
                slabels.push(format!("leader_state_of[{}]", world.pool().insts[yi].name()));
                slabels.push(format!("helper_state_of[{}]", world.pool().insts[yi].name()));
            }
            let gnames = world.names();
            let mut mlabels: Vec<String> = vec!["own".into()];
            mlabels.extend(gnames.iter().map(|(nm, _)| format!("of[{nm}]")));
            let (world, x, xname) = (world.clone(), x.clone(), xname.clone());
            fams.push(fam(&format!("prio3/verify_next@{xname}"), product(&[slabels.len(), mlabels.len()]), move |t| {
                let (si, mi) = (t[0] as usize, t[1] as usize);
                let (sl, ml) = (slabels[si].clone(), mlabels[mi].clone());
                let (world, x, xname) = (world.clone(), x.clone(), xname.clone());
                let others = others.clone();
                let (msg_jr, msg_own) = if mi == 0 { (x.jr(), true) } else { (gnames[mi - 1].1, gnames[mi - 1].0 == xname) };
                prep("prio3/verify_next", format!("state={sl},message={ml}@{xname}"), json!({"state": sl, "message": ml}), move |cx| {
                    let pool: &Pool<F> = world.pool();
                    let hon = pool.honest(cx, seed).clone();
                    let gl = world.globals(cx, seed);
                    cx.outcome.clear();
                    let Some(h) = hon[xi].as_ref() else {
                        cx.skip("no_honest_transcript");
                        return;
                    };
                    let (st, st_jr, st_own): (ST<F>, bool, bool) = match si {
                        0 => (h.states[0].clone(), x.jr(), true),
                        1 => (h.states[1].clone(), x.jr(), true),
                        2 | 3 => {
                            let b = h.states[si - 2].get_encoded().expect("encode state");
                            match x.decode_state(3 - si, &b) {
                                Ok(s) => (s, x.jr(), false),
                                Err(_) => {
                                    cx.skip("state_does_not_decode_under_other_id");
                                    return;
                                }
                            }
                        }
                        k => {
                            let yi = others[(k - 4) / 2];
                            let Some(hy) = hon[yi].as_ref() else {
                                cx.skip("no_foreign_transcript");
                                return;
                            };
                            (hy.states[(k - 4) % 2].clone(), pool.insts[yi].jr(), false)
                        }
                    };
                    let msg: Msg = if mi == 0 {
                        h.msg.clone()
                    } else {
                        match &gl[mi - 1] {
                            Some((_, m)) => m.clone(),
                            None => {
                                cx.skip("no_foreign_transcript");
                                return;
                            }
                        }
                    };
                    let exp = if st_own && msg_own {
                        Exp::MustOk
                    } else if x.jr() && (!st_jr || !msg_jr) {
                        Exp::MustErr
                    } else {
                        Exp::Any
                    };
                    drop(cx.call("", exp, || x.verify_next(CTX, st, msg)));
                })
            }));
        }
        // ---- context string lengths, every operation that takes one
        if xi == 0 || x.jr() {
            let lens = ctx_lens();
            let ops = ["prio3/shard", "prio3/verify_init", "prio3/verifier_shares_to_message", "prio3/verify_next"];
            let (world, x, xname) = (world.clone(), x.clone(), xname.clone());
            fams.push(fam(&format!("prio3/ctx_len@{xname}"), product(&[ops.len(), lens.len()]), move |t| {
                let op = ops[t[0] as usize];
                let (ll, len) = lens[t[1] as usize].clone();
                let (world, x, xname) = (world.clone(), x.clone(), xname.clone());
                prep(op, format!("ctx_len={ll}@{xname}"), json!({"ctx_len": len}), move |cx| {
                    let pool: &Pool<F> = world.pool();
                    let hon = pool.honest(cx, seed).clone();
                    cx.outcome.clear();
                    let Some(h) = hon[xi].as_ref() else {
                        cx.skip("no_honest_transcript");
                        return;
                    };
                    let long = vec![0xC7u8; len];
                    // DST = 8 bytes + ctx must fit 16 bits; longer contexts may be refused, not crash
                    let exp = if len <= 65527 { Exp::MustOk } else { Exp::Any };
                    match op {
                        "prio3/shard" => drop(cx.call("", exp, || x.shard(1, &long))),
                        "prio3/verify_init" => drop(cx.call("", exp, || x.verify_init(&long, 0, &h.ps, &h.shares[0]))),
                        "prio3/verifier_shares_to_message" => drop(cx.call("", exp, || x.to_message(&long, h.vshares.clone()))),
                        // the joint randomness check binds the context: under another one the step is refused
                        _ => drop(cx.call("", if x.jr() { Exp::Any } else { exp }, || x.verify_next(&long, h.states[1].clone(), h.msg.clone()))),
                    }
                })
            }));
        }
        // ---- aggregate / unshard
        {
            let (_, _, _, ol) = x.lens();
            let lens = Rc::new(len_lattice(ol));
            let nms: Rc<Vec<(String, usize)>> = Rc::new(vec![("1".into(), 1), ("0".into(), 0), ("2".into(), 2), ("2^32".into(), 1 << 32), ("MAX".into(), usize::MAX)]);
            let counts: Rc<Vec<(String, usize)>> = Rc::new({
                let mut v: Vec<(String, usize)> = vec![("n".into(), n)];
                for (l, c) in [("0", 0), ("1", 1), ("n-1", n - 1), ("n+1", n + 1)] {
                    if !v.iter().any(|(_, d)| *d == c) {
                        v.push((l.into(), c));
                    }
                }
                v
            });
            let (x, xname) = (x.clone(), xname.clone());
            let (l2, c2, m2) = (lens.clone(), counts.clone(), nms.clone());
            let tuples: Vec<Vec<u16>> = product(&[2, counts.len(), lens.len(), 3, nms.len()])
                .into_iter()
                .filter(|t| {
                    let (op, c, ll, which, mi) = (t[0], counts[t[1] as usize].1, lens[t[2] as usize].0.as_str(), t[3], t[4]);
                    !((op == 0 && mi != 0) || (ll == "len" && which != 0) || (c == 0 && (ll != "len" || which != 0)) || (c == 1 && which == 2))
                })
                .collect();
            fams.push(fam(&format!("prio3/aggregate+unshard@{xname}"), tuples, move |t| {
                let op = t[0];
                let (cl, c) = c2[t[1] as usize].clone();
                let (ll, len) = l2[t[2] as usize].clone();
                let which = ["all", "first", "last"][t[3] as usize];
                let (ml, nmeas) = m2[t[4] as usize].clone();
                let (x, xname) = (x.clone(), xname.clone());
                let site = ["prio3/aggregate", "prio3/unshard"][op as usize];
                let class = if op == 0 { format!("count={cl},share_len={ll}({which})@{xname}") } else { format!("count={cl},share_len={ll}({which}),num_measurements={ml}@{xname}") };
                prep(site, class, json!({"count": c, "len": len, "which": which, "num_measurements": nmeas.to_string()}), move |cx| {
                    let (_, _, _, ol) = x.lens();
                    let lens_of = |i: usize| -> usize {
                        match which {
                            "all" => len,
                            "first" => {
                                if i == 0 {
                                    len
                                } else {
                                    ol
                                }
                            }
                            _ => {
                                if i + 1 == c {
                                    len
                                } else {
                                    ol
                                }
                            }
                        }
                    };
                    let wrong_len = ll != "len" && c > 0;
                    if op == 0 {
                        let outs: Vec<OutputShare<F>> = (0..c).map(|i| OutputShare::from(vec![F::one(); lens_of(i)])).collect();
                        drop(cx.call("", if wrong_len { Exp::MustErr } else { Exp::MustOk }, || x.aggregate(outs)));
                    } else {
                        let aggs: Vec<AggregateShare<F>> = (0..c).map(|i| AggregateShare::from(vec![F::zero(); lens_of(i)])).collect();
                        let exp = if wrong_len {
                            Exp::MustErr
                        } else if c != x.n() {
                            Exp::ShouldErr
                        } else {
                            Exp::Any
                        };
                        drop(cx.call("", exp, || x.unshard(aggs, nmeas)));
                    }
                })
            }));
        }
    }
}

// ---------------------------------------------------------------------------------------------
// add_noise_to_agg_share
fn noise_families(seed: u64, fams: &mut Vec<Family>) {
    let _ = seed;
    let eps = Rc::new(rat_lattice());
    let nms: Rc<Vec<(String, usize)>> = Rc::new(vec![("1".into(), 1), ("0".into(), 0), ("MAX".into(), usize::MAX)]);
    macro_rules! ty {
        ($name:expr, $T:ty, $F:ty, $ctor:expr, $ol:expr) => {{
            let (eps, nms) = (eps.clone(), nms.clone());
            let lens = Rc::new(len_lattice($ol));
            let l2 = lens.clone();
            fams.push(fam(&format!("flp/add_noise_to_agg_share@{}", $name), product(&[eps.len(), lens.len(), nms.len(), 2]), move |t| {
                let (el, en, ed) = eps[t[0] as usize].clone();
                let (ll, len) = l2[t[1] as usize].clone();
                let (ml, nm) = nms[t[2] as usize].clone();
                let via_vdaf = t[3] == 1;
                let site = if via_vdaf { "prio3/add_noise_to_agg_share" } else { "flp/add_noise_to_agg_share" };
                prep(site, format!("agg_share_len={ll},epsilon={el},num_measurements={ml}@{}", $name), json!({"epsilon": [en.to_string(), ed.to_string()], "len": len}), move |cx| {
                    let Some(r) = cx.ok("rational", Exp::Any, || Rational::from_unsigned(en, ed)) else {
                        cx.outcome = "skip:no_rational".into();
                        return;
                    };
                    let Some(b) = cx.ok("budget", Exp::Any, || PureDpBudget::new(r)) else {
                        cx.outcome = "skip:no_budget".into();
                        return;
                    };
                    cx.outcome.clear();
                    let strategy = PureDpDiscreteLaplace::from_budget(b);
                    let typ: $T = $ctor;
                    // 128-bit elements: the sensitivity 2^128 - 1 is refused by design
                    let exp = if $name.starts_with("SumVec(max=p-1") && $name.ends_with("<Field128>") {
                        Exp::Any
                    } else if ll == "len" {
                        Exp::MustOk
                    } else {
                        Exp::ShouldErr
                    };
                    if via_vdaf {
                        let vdaf: P3<$T> = Prio3::new(2, 1, 0xC16, typ).expect("noise vdaf");
                        let mut agg = AggregateShare::from(vec![<$F>::zero(); len]);
                        drop(cx.call("", exp, || vdaf.add_noise_to_agg_share(&strategy, &(), &mut agg, nm)));
                    } else {
                        let mut agg = vec![<$F>::zero(); len];
                        drop(cx.call("", exp, || typ.add_noise_to_agg_share(&strategy, &mut agg, nm)));
                    }
                })
            }));
        }};
    }
    ty!("SumVec(max=3,len=3,chunk=2)<Field128>", SumVec<Field128, PS<Field128>>, Field128, SumVec::new(3, 3, 2).expect("ctor"), 3);
    ty!("SumVec(max=p-1,len=2,chunk=2)<Field128>", SumVec<Field128, PS<Field128>>, Field128, SumVec::new(Field128::p() - 1, 2, 2).expect("ctor"), 2);
    ty!("SumVec(max=2^126,len=2,chunk=2)<Field128>", SumVec<Field128, PS<Field128>>, Field128, SumVec::new(1 << 126, 2, 2).expect("ctor"), 2);
    ty!("SumVec(max=p-1,len=2,chunk=2)<Field64>", SumVec<Field64, PS<Field64>>, Field64, SumVec::new((Field64::p() - 1) as u64, 2, 2).expect("ctor"), 2);
    ty!("Histogram(length=4,chunk=2)<Field128>", Histogram<Field128, PS<Field128>>, Field128, Histogram::new(4, 2).expect("ctor"), 4);
    ty!("Histogram(length=1,chunk=1)<Field64>", Histogram<Field64, PS<Field64>>, Field64, Histogram::new(1, 1).expect("ctor"), 1);
    ty!("L1BoundSum(max=7,len=4,chunk=3)<Field128>", L1BoundSum<Field128, PS<Field128>>, Field128, L1BoundSum::new(7, 4, 3).expect("ctor"), 4);
    ty!("L1BoundSum(max=p-1,len=1,chunk=1)<Field128>", L1BoundSum<Field128, PS<Field128>>, Field128, L1BoundSum::new(Field128::p() - 1, 1, 1).expect("ctor"), 1);
    ty!("L1BoundSum(max=p-1,len=1,chunk=1)<Field64>", L1BoundSum<Field64, PS<Field64>>, Field64, L1BoundSum::new((Field64::p() - 1) as u64, 1, 1).expect("ctor"), 1);
    // measurements whose L1 norm overflows the field's integer type: entries are individually in
    // range (<= max_value) but their sum exceeds the integer type, so the norm cannot be encoded
    fams.push(fam("flp/L1BoundSum/encode_measurement/l1_norm_overflow", product(&[4]), move |t| {
        let which = t[0];
        prep("flp/L1BoundSum/encode_measurement", format!("l1_norm_overflows_integer_type#{which}"), json!({"which": which}), move |cx| match which {
            0 => {
                let typ: L1BoundSum<Field64, PS<Field64>> = L1BoundSum::new(1u64 << 63, 2, 8).expect("ctor");
                drop(cx.call("", Exp::MustErr, || typ.encode_measurement(&vec![1u64 << 63, 1u64 << 63])));
            }
            1 => {
                let typ: L1BoundSum<Field64, PS<Field64>> = L1BoundSum::new((Field64::p() - 1) as u64, 3, 5).expect("ctor");
                drop(cx.call("", Exp::MustErr, || typ.encode_measurement(&vec![(Field64::p() - 1) as u64, (Field64::p() - 1) as u64, 7])));
            }
            2 => {
                let typ: L1BoundSum<Field128, PS<Field128>> = L1BoundSum::new(1u128 << 127, 2, 8).expect("ctor");
                drop(cx.call("", Exp::MustErr, || typ.encode_measurement(&vec![1u128 << 127, 1u128 << 127])));
            }
            _ => {
                let vdaf = Prio3::new_l1_bound_sum(2, 1u128 << 127, 2, 8).expect("ctor");
                drop(cx.call("", Exp::MustErr, || vdaf.shard(b"c16", &vec![1u128 << 127, 1u128 << 127], &[0u8; 16])));
            }
        })
    }));
}

fn prio3_families(quick: bool, seed: u64) -> Vec<Family> {
    let mut fams = p3_ctor_families(quick, seed);
    let world = Rc::new(World::new());
    p3_op_families::<Field64>(world.clone(), seed, &mut fams);
    p3_op_families::<Field128>(world, seed, &mut fams);
    noise_families(seed, &mut fams);
    fams
}

// =============================================================================================
// prio::vdaf::prio2
// =============================================================================================
fn prio2_proof_len(input_len: usize) -> usize {
    input_len + 3 + (input_len + 1).next_power_of_two()
}

/// One honest report through Prio2 (deterministic client randomness through the hooks).
fn prio2_run(cx: &mut Cx, pre: &str, vdaf: &Prio2, meas: &Vec<u32>) -> Option<(Vec<Share<FieldPrio2, 32>>, Vec<<Prio2 as Aggregator<32, 16>>::VerifyState>, Vec<<Prio2 as Aggregator<32, 16>>::VerifierShare>)> {
    let s = |x: &str| format!("{pre}{x}");
    prio::verif_hooks::prio2::set_shard_helper_seed(Some([0x21; 32]));
    prio::verif_hooks::prio2::set_shard_proof_seed(Some([0x42; 32]));
    let r = cx.ok(&s("shard"), Exp::MustOk, || vdaf.shard(CTX, meas, &NONCE));
    prio::verif_hooks::prio2::set_shard_helper_seed(None);
    prio::verif_hooks::prio2::set_shard_proof_seed(None);
    let (_, shares) = r?;
    if shares.len() != 2 {
        cx.wrong(&s("shard"), format!("{} input shares", shares.len()));
        return None;
    }
    let mut states = vec![];
    let mut vshares = vec![];
    for (i, sh) in shares.iter().enumerate() {
        let (st, vs) = cx.ok(&s("verify_init"), Exp::MustOk, || vdaf.verify_init(&VK, CTX, i, &(), &NONCE, &(), sh))?;
        states.push(st);
        vshares.push(vs);
    }
    cx.ok(&s("verifier_shares_to_message"), Exp::MustOk, || vdaf.verifier_shares_to_message(CTX, &(), vshares.clone()))?;
    let mut aggs = vec![];
    for st in states.iter() {
        match cx.ok(&s("verify_next"), Exp::MustOk, || vdaf.verify_next(CTX, st.clone(), ()))? {
            VerifyTransition::Finish(o) => aggs.push(cx.ok(&s("aggregate"), Exp::MustOk, || vdaf.aggregate(&(), [o]))?),
            VerifyTransition::Continue(..) => {
                cx.wrong(&s("verify_next"), "Prio2 asked for a second round".into());
                return None;
            }
        }
    }
    let res = cx.ok(&s("unshard"), Exp::MustOk, || vdaf.unshard(&(), aggs, 1))?;
    if &res != meas {
        cx.wrong(&s("unshard"), format!("aggregate of one measurement differs from it ({} entries)", res.len()));
    }
    Some((shares, states, vshares))
}

fn prio2_families(quick: bool, _seed: u64) -> Vec<Family> {
    let mut fams = vec![];
    let lu = Arc::new({
        let mut l = lat_usize(true);
        for (lab, x) in [("2^17-1", (1u128 << 17) - 1), ("2^18-2", (1 << 18) - 2), ("2^18-1", (1 << 18) - 1), ("2^18", 1 << 18), ("2^19-1", (1 << 19) - 1), ("2^19", 1 << 19)] {
            l.push((lab.into(), x));
        }
        l
    });
    // ---- Prio2::new over the whole lattice; accepted instances carry one report when affordable
    {
        let lu = lu.clone();
        let cap: usize = if quick { 1 << 16 } else { 1 << 20 };
        fams.push(fam("prio2/new", product(&[lu.len()]), move |t| {
            let (l, x) = lu[t[0] as usize].clone();
            prep("prio2/new", format!("input_len={l}"), json!({"input_len": x.to_string()}), move |cx| {
                let x = x as usize;
                // FieldPrio2 has a subgroup of 2^20 roots of unity: 2 * next_power_of_two(input_len + 1) <= 2^20
                let valid = x < (1 << 19);
                let exp = if valid { Exp::MustOk } else { Exp::MustErr };
                let Some(vdaf) = cx.ok("", exp, || Prio2::new(x)) else { return };
                if !valid {
                    // an accepted out-of-domain instance: does the next operation at least fail cleanly?
                    cx.limit_ms = 5000;
                    let _ = cx.call("shard(empty)", Exp::Any, || vdaf.shard(CTX, &vec![], &NONCE));
                    return;
                }
                if x <= cap {
                    cx.limit_ms = 20000;
                    let meas: Vec<u32> = (0..x).map(|i| (i % 2) as u32).collect();
                    prio2_run(cx, "e2e/", &vdaf, &meas);
                } else {
                    cx.outcome = "ok:e2e_skipped_too_big".into();
                }
            })
        }));
    }
    // ---- operations of fixed instances
    for input_len in [0usize, 1, 2, 3, 7, 8, 255] {
        let inst = format!("Prio2({input_len})");
        let pl = prio2_proof_len(input_len);
        // shard: measurement length x value class
        {
            let lens = len_lattice(input_len);
            let vals: Vec<(&str, u32, bool)> = vec![("zeros", 0, true), ("ones", 1, true), ("twos", 2, true), ("p-1", 4293918720, true), ("p", 4293918721, false), ("u32::MAX", u32::MAX, false)];
            let inst = inst.clone();
            fams.push(fam(&format!("prio2/shard@{inst}"), product(&[lens.len(), vals.len()]), move |t| {
                let (ll, len) = lens[t[0] as usize].clone();
                let (vl, v, _canonical) = vals[t[1] as usize];
                let inst = inst.clone();
                prep("prio2/shard", format!("len={ll},values={vl}@{inst}"), json!({"len": len, "value": v}), move |cx| {
                    let Some(vdaf) = cx.ok("setup/new", Exp::MustOk, || Prio2::new(input_len)) else { return };
                    cx.outcome.clear();
                    let meas = vec![v; len];
                    // values are arbitrary u32s (validity is the proof's business): only the length is pinned
                    let exp = if ll == "len" { Exp::MustOk } else { Exp::MustErr };
                    drop(cx.call("", exp, || vdaf.shard(CTX, &meas, &NONCE)));
                })
            }));
        }
        // verify_init / verify_init_with_query_rand: agg id x share shape
        {
            let ids: Vec<(String, usize)> = vec![("0".into(), 0), ("1".into(), 1), ("2".into(), 2), ("3".into(), 3), ("255".into(), 255), ("256".into(), 256), ("MAX".into(), usize::MAX)];
            let mut shapes: Vec<(String, Option<usize>)> = vec![("own_leader_share".into(), Some(pl)), ("own_helper_share".into(), None)];
            for (l, n) in [("0", 0usize), ("input_len", input_len), ("proof_len-1", pl - 1), ("proof_len+1", pl + 1), ("2*proof_len", 2 * pl)] {
                if n != pl && !shapes.iter().any(|(_, m)| *m == Some(n)) {
                    shapes.push((format!("leader_share_len={l}"), Some(n)));
                }
            }
            let qrs: Vec<(&str, u8)> = vec![("derived", 0), ("0", 1), ("1", 2), ("root_of_unity", 3), ("p-1", 4)];
            let inst = inst.clone();
            fams.push(fam(&format!("prio2/verify_init@{inst}"), product(&[ids.len(), shapes.len(), qrs.len()]), move |t| {
                let (idl, id) = ids[t[0] as usize].clone();
                let (sl, slen) = shapes[t[1] as usize].clone();
                let (ql, q) = qrs[t[2] as usize];
                let inst = inst.clone();
                let site = if q == 0 { "prio2/verify_init" } else { "prio2/verify_init_with_query_rand" };
                let class = if q == 0 { format!("{sl},agg_id={idl}@{inst}") } else { format!("{sl},is_leader={},query_rand={ql}@{inst}", id == 0) };
                prep(site, class, json!({"agg_id": id.to_string(), "share": sl, "query_rand": ql}), move |cx| {
                    if q != 0 && id > 1 {
                        cx.skip("duplicate_class");
                        return;
                    }
                    let Some(vdaf) = cx.ok("setup/new", Exp::MustOk, || Prio2::new(input_len)) else { return };
                    let meas: Vec<u32> = (0..input_len).map(|i| (i % 2) as u32).collect();
                    let mut scratch = Cx::new();
                    let Some((shares, _, _)) = prio2_run(&mut scratch, "setup/", &vdaf, &meas) else {
                        cx.findings.append(&mut scratch.findings);
                        return;
                    };
                    cx.outcome.clear();
                    let share: Share<FieldPrio2, 32> = match slen {
                        None => shares[1].clone(),
                        Some(n) => match &shares[0] {
                            Share::Leader(v) => Share::Leader(fit_len(v, n, FieldPrio2::zero())),
                            _ => panic!("leader share is not uncompressed"),
                        },
                    };
                    let uncompressed = slen.is_some();
                    let well_formed = slen.is_none() || slen == Some(pl);
                    if q == 0 {
                        let exp = if id > 1 || !well_formed {
                            Exp::MustErr
                        } else if uncompressed != (id == 0) {
                            Exp::ShouldErr // the other aggregator's share shape: debatable
                        } else {
                            Exp::MustOk
                        };
                        drop(cx.call("", exp, || vdaf.verify_init(&VK, CTX, id, &(), &NONCE, &(), &share)));
                    } else {
                        let qr = match q {
                            1 => FieldPrio2::zero(),
                            2 => FieldPrio2::one(),
                            3 => {
                                // a 2n-th root of unity: the client's interpolation points
                                let n2 = 2 * (input_len + 1).next_power_of_two();
                                let g = <FieldPrio2 as prio::field::NttFriendlyFieldElement>::generator();
                                let order = <FieldPrio2 as prio::field::NttFriendlyFieldElement>::generator_order();
                                g.pow(order / n2 as u32)
                            }
                            _ => -FieldPrio2::one(),
                        };
                        let exp = if !well_formed { Exp::MustErr } else { Exp::Any };
                        drop(cx.call("", exp, || vdaf.verify_init_with_query_rand(qr, &share, id == 0)));
                    }
                })
            }));
        }
        // verifier_shares_to_message (counts), verify_next (foreign states), aggregate / unshard
        {
            let inst = inst.clone();
            let lens = len_lattice(input_len);
            let mut tuples: Vec<Vec<u16>> = vec![];
            for c in 0..5u16 {
                tuples.push(vec![0, c, 0]);
            }
            for s in 0..4u16 {
                tuples.push(vec![1, s, 0]);
            }
            for op in [2u16, 3] {
                for c in 0..4u16 {
                    for l in 0..lens.len() as u16 {
                        if c == 0 && l != 0 {
                            continue;
                        }
                        tuples.push(vec![op, c, l]);
                    }
                }
            }
            fams.push(fam(&format!("prio2/ops@{inst}"), tuples, move |t| {
                let (op, a, b) = (t[0], t[1] as usize, t[2] as usize);
                let inst = inst.clone();
                let (ll, len) = lens[b].clone();
                let (site, class) = match op {
                    0 => ("prio2/verifier_shares_to_message", format!("count={a}@{inst}")),
                    1 => ("prio2/verify_next", format!("state={}@{inst}", ["own[0]", "own[1]", "leader_state_of[Prio2(input_len+1)]", "helper_state_of[Prio2(input_len+1)]"][a])),
                    2 => ("prio2/aggregate", format!("count={a},share_len={ll}@{inst}")),
                    _ => ("prio2/unshard", format!("count={a},share_len={ll}@{inst}")),
                };
                prep(site, class, json!({"op": op, "a": a, "len": len}), move |cx| {
                    let Some(vdaf) = cx.ok("setup/new", Exp::MustOk, || Prio2::new(input_len)) else { return };
                    let meas: Vec<u32> = (0..input_len).map(|i| (i % 2) as u32).collect();
                    let mut scratch = Cx::new();
                    let Some((_, states, vshares)) = prio2_run(&mut scratch, "setup/", &vdaf, &meas) else {
                        cx.findings.append(&mut scratch.findings);
                        return;
                    };
                    cx.outcome.clear();
                    match op {
                        0 => {
                            let list: Vec<_> = (0..a).map(|i| vshares[i % 2].clone()).collect();
                            drop(cx.call("", if a == 2 { Exp::MustOk } else { Exp::MustErr }, || vdaf.verifier_shares_to_message(CTX, &(), list)));
                        }
                        1 => {
                            let st = if a < 2 {
                                states[a].clone()
                            } else {
                                let Some(other) = cx.ok("setup/new(other)", Exp::MustOk, || Prio2::new(input_len + 1)) else { return };
                                let m2: Vec<u32> = vec![1; input_len + 1];
                                let mut scratch = Cx::new();
                                let Some((_, st2, _)) = prio2_run(&mut scratch, "setup/other/", &other, &m2) else {
                                    cx.findings.append(&mut scratch.findings);
                                    return;
                                };
                                cx.outcome.clear();
                                st2[a - 2].clone()
                            };
                            drop(cx.call("", if a < 2 { Exp::MustOk } else { Exp::Any }, || vdaf.verify_next(CTX, st, ())));
                        }
                        2 => {
                            let outs: Vec<OutputShare<FieldPrio2>> = (0..a).map(|_| OutputShare::from(vec![FieldPrio2::one(); len])).collect();
                            drop(cx.call("", if ll != "len" && a > 0 { Exp::MustErr } else { Exp::MustOk }, || vdaf.aggregate(&(), outs)));
                        }
                        _ => {
                            let aggs: Vec<AggregateShare<FieldPrio2>> = (0..a).map(|_| AggregateShare::from(vec![FieldPrio2::one(); len])).collect();
                            let exp = if ll != "len" && a > 0 {
                                Exp::MustErr
                            } else if a != 2 {
                                Exp::ShouldErr
                            } else {
                                Exp::MustOk
                            };
                            drop(cx.call("", exp, || vdaf.unshard(&(), aggs, 1)));
                        }
                    }
                })
            }));
        }
    }
    fams
}

// =============================================================================================
// prio::vdaf::poplar1 and prio::idpf
// =============================================================================================
type Pop = Poplar1<XofTurboShake128, 32>;
type PopIdpf = Idpf<Poplar1IdpfValue<Field64>, Poplar1IdpfValue<Field255>>;
type PopIdpfPs = IdpfPublicShare<Poplar1IdpfValue<Field64>, Poplar1IdpfValue<Field255>>;

fn pop_input(len: usize) -> IdpfInput {
    // 1011 0110 1101 ... a fixed non-trivial pattern
    IdpfInput::from_bools(&(0..len).map(|i| i % 3 != 1).collect::<Vec<bool>>())
}
/// the input's own prefix of `len` bits, padded with `false` beyond the input
fn pop_prefix(input_len: usize, len: usize) -> IdpfInput {
    IdpfInput::from_bools(&(0..len).map(|i| i < input_len && i % 3 != 1).collect::<Vec<bool>>())
}
/// `count` distinct sorted prefixes of `len` bits, the first one being the input's own prefix
/// when `len >= 1`
fn pop_prefixes(input_len: usize, len: usize, count: usize) -> Vec<IdpfInput> {
    let own = pop_prefix(input_len, len);
    let mut v = vec![own.clone()];
    let mut k = 0usize;
    while v.len() < count && len > 0 && k < 64 {
        // flip bit (len-1-k%len) to get other prefixes
        let mut bits: Vec<bool> = own.iter().collect();
        let pos = len - 1 - (k % len);
        bits[pos] = !bits[pos];
        if k >= len {
            let pos2 = len - 1 - ((k + 1) % len);
            bits[pos2] = !bits[pos2];
        }
        let c = IdpfInput::from_bools(&bits);
        if !v.contains(&c) {
            v.push(c);
        }
        k += 1;
    }
    v.sort();
    v
}

#[derive(Clone)]
struct PopHonest {
    ps: Poplar1PublicShare,
    shares: Vec<Poplar1InputShare<32>>,
    st1: Vec<Poplar1VerifierState>,
    vs1: Vec<Poplar1FieldVec>,
    msg1: Poplar1VerifierMessage,
    st2: Vec<Poplar1VerifierState>,
    vs2: Vec<Poplar1FieldVec>,
    msg2: Poplar1VerifierMessage,
    outs: Vec<Poplar1FieldVec>,
}

fn pop_shard(cx: &mut Cx, step: &str, vdaf: &Pop, input: &IdpfInput, exp: Exp, deterministic: bool) -> Option<(Poplar1PublicShare, Vec<Poplar1InputShare<32>>)> {
    if deterministic {
        let rnd: Vec<u8> = (0..128u32).map(|i| (i * 7 + 3) as u8).collect();
        cx.ok(step, exp, || vdaf.shard_with_random(CTX, input, &NONCE, &rnd))
    } else {
        cx.ok(step, exp, || vdaf.shard(CTX, input, &NONCE))
    }
}

/// Verification + aggregation + unsharding of one sharded report at one aggregation parameter.
fn pop_verify(cx: &mut Cx, pre: &str, vdaf: &Pop, ps: &Poplar1PublicShare, shares: &[Poplar1InputShare<32>], ap: &Poplar1AggregationParam, expected: &[u64]) -> Option<PopHonest> {
    let s = |x: &str| format!("{pre}{x}");
    let mut st1 = vec![];
    let mut vs1 = vec![];
    for (i, sh) in shares.iter().enumerate() {
        let (st, vs) = cx.ok(&s("verify_init"), Exp::MustOk, || vdaf.verify_init(&VK, CTX, i, ap, &NONCE, ps, sh))?;
        st1.push(st);
        vs1.push(vs);
    }
    let msg1 = cx.ok(&s("verifier_shares_to_message"), Exp::MustOk, || vdaf.verifier_shares_to_message(CTX, ap, vs1.clone()))?;
    let mut st2 = vec![];
    let mut vs2 = vec![];
    for st in &st1 {
        match cx.ok(&s("verify_next"), Exp::MustOk, || vdaf.verify_next(CTX, st.clone(), msg1.clone()))? {
            VerifyTransition::Continue(st, vs) => {
                st2.push(st);
                vs2.push(vs);
            }
            VerifyTransition::Finish(_) => {
                cx.wrong(&s("verify_next"), "Poplar1 finished after one round".into());
                return None;
            }
        }
    }
    let msg2 = cx.ok(&s("verifier_shares_to_message(2)"), Exp::MustOk, || vdaf.verifier_shares_to_message(CTX, ap, vs2.clone()))?;
    let mut outs = vec![];
    for st in &st2 {
        match cx.ok(&s("verify_next(2)"), Exp::MustOk, || vdaf.verify_next(CTX, st.clone(), msg2.clone()))? {
            VerifyTransition::Finish(o) => outs.push(o),
            VerifyTransition::Continue(..) => {
                cx.wrong(&s("verify_next(2)"), "Poplar1 asked for a third round".into());
                return None;
            }
        }
    }
    let mut aggs = vec![];
    for o in &outs {
        aggs.push(cx.ok(&s("aggregate"), Exp::MustOk, || vdaf.aggregate(ap, [o.clone()]))?);
    }
    let res = cx.ok(&s("unshard"), Exp::MustOk, || vdaf.unshard(ap, aggs, 1))?;
    if res != expected {
        cx.wrong(&s("unshard"), format!("prefix counts {:?}, expected {:?}", res, expected));
    }
    Some(PopHonest { ps: ps.clone(), shares: shares.to_vec(), st1, vs1, msg1, st2, vs2, msg2, outs })
}

fn pop_honest(cx: &mut Cx, pre: &str, bits: usize, level: usize) -> Option<(Pop, Poplar1AggregationParam, PopHonest)> {
    let vdaf = Pop::new(bits);
    let input = pop_input(bits);
    let (ps, shares) = pop_shard(cx, &format!("{pre}shard"), &vdaf, &input, Exp::MustOk, true)?;
    let prefixes = pop_prefixes(bits, level + 1, 2);
    let expected: Vec<u64> = prefixes.iter().map(|p| (*p == pop_prefix(bits, level + 1)) as u64).collect();
    let ap = cx.ok(&format!("{pre}try_from_prefixes"), Exp::MustOk, || Poplar1AggregationParam::try_from_prefixes(prefixes))?;
    let h = pop_verify(cx, pre, &vdaf, &ps, &shares, &ap, &expected)?;
    Some((vdaf, ap, h))
}

struct PoisonCache;
impl IdpfCache for PoisonCache {
    fn get(&self, _input: &bitvec::slice::BitSlice) -> Option<([u8; 16], u8)> {
        Some(([0x17; 16], 1))
    }
    fn insert(&mut self, _input: &bitvec::slice::BitSlice, _values: &([u8; 16], u8)) {}
}

fn poplar1_families(quick: bool, _seed: u64) -> Vec<Family> {
    let mut fams = vec![];
    // ---- shard over the bits lattice, with follow-up verification at several levels
    {
        let bits: Vec<(String, usize)> = vec![("0".into(), 0), ("1".into(), 1), ("2".into(), 2), ("3".into(), 3), ("16".into(), 16), ("17".into(), 17), ("2^16-1".into(), 65535), ("2^16".into(), 65536), ("2^16+1".into(), 65537), ("2^20".into(), 1 << 20), ("2^32".into(), 1 << 32), ("MAX".into(), usize::MAX)];
        let lens = ["bits", "0", "bits-1", "bits+1", "1"];
        let big_ok = !quick;
        fams.push(fam("poplar1/shard", product(&[bits.len(), lens.len()]), move |t| {
            let (bl, b) = bits[t[0] as usize].clone();
            let ll = lens[t[1] as usize];
            prep("poplar1/shard", format!("new({bl}),input_len={ll}"), json!({"bits": b.to_string(), "input_len": ll}), move |cx| {
                let len_of = |l: &str| -> Option<usize> {
                    match l {
                        "bits" => Some(b),
                        "0" => Some(0),
                        "1" => Some(1),
                        "bits-1" => b.checked_sub(1),
                        _ => b.checked_add(1),
                    }
                };
                let Some(len) = len_of(ll) else {
                    cx.skip("no_such_length");
                    return;
                };
                if len > 1 << 20 {
                    cx.skip("input_beyond_allocation_budget");
                    return;
                }
                if ["bits", "0", "bits-1", "bits+1", "1"].iter().take_while(|l| **l != ll).any(|l| len_of(l) == Some(len)) {
                    cx.skip("duplicate_class");
                    return;
                }
                if len >= 1 << 20 && !big_ok {
                    cx.skip("thorough_only");
                    return;
                }
                let Some(vdaf) = cx.total("new", || Pop::new(b)) else { return };
                let input = pop_input(len);
                cx.limit_ms = 60000;
                let exp = if len != b {
                    Exp::MustErr
                } else if b == 0 {
                    Exp::Any
                } else {
                    Exp::MustOk
                };
                let Some((ps, shares)) = pop_shard(cx, "", &vdaf, &input, exp, false) else { return };
                if exp != Exp::MustOk {
                    return;
                }
                // verification at the first, a middle and the last level that an aggregation parameter can name
                let mut levels = vec![0usize, (b - 1) / 2, b - 1];
                levels.retain(|l| *l <= 65535);
                levels.dedup();
                for level in levels {
                    let prefixes = pop_prefixes(b, level + 1, 2);
                    let expected: Vec<u64> = prefixes.iter().map(|p| (*p == pop_prefix(b, level + 1)) as u64).collect();
                    let pre = format!("e2e(level={})/", if level == 0 { "0".to_string() } else if level == b - 1 { "bits-1".into() } else { "mid".into() });
                    let Some(ap) = cx.ok(&format!("{pre}try_from_prefixes"), Exp::MustOk, || Poplar1AggregationParam::try_from_prefixes(prefixes)) else { continue };
                    pop_verify(cx, &pre, &vdaf, &ps, &shares, &ap, &expected);
                }
            })
        }));
    }
    // ---- try_from_prefixes
    {
        let lens: Vec<(String, usize)> = vec![("0".into(), 0), ("1".into(), 1), ("2".into(), 2), ("16".into(), 16), ("2^16-1".into(), 65535), ("2^16".into(), 65536), ("2^16+1".into(), 65537), ("2^20".into(), 1 << 20)];
        let shapes = ["one", "two_sorted", "three_sorted", "empty_list", "duplicate", "unsorted", "mixed_lengths(len,len+1)", "mixed_lengths(len,0)"];
        fams.push(fam("poplar1/try_from_prefixes", product(&[lens.len(), shapes.len()]), move |t| {
            let (ll, len) = lens[t[0] as usize].clone();
            let shape = shapes[t[1] as usize];
            prep("poplar1/try_from_prefixes", format!("prefix_len={ll},{shape}"), json!({"prefix_len": len, "shape": shape}), move |cx| {
                let base = pop_prefixes(len, len, 3);
                let list: Vec<IdpfInput> = match shape {
                    "one" => base[..1].to_vec(),
                    "two_sorted" => base.iter().take(2).cloned().collect(),
                    "three_sorted" => base.clone(),
                    "empty_list" => vec![],
                    "duplicate" => vec![base[0].clone(), base[0].clone()],
                    "unsorted" => base.iter().take(2).rev().cloned().collect(),
                    "mixed_lengths(len,len+1)" => vec![pop_prefix(len, len), pop_prefix(len + 1, len + 1)],
                    _ => vec![pop_prefix(len, len), pop_prefix(0, 0)],
                };
                let distinct = list.iter().collect::<std::collections::BTreeSet<_>>().len() == list.len();
                let sorted = list.windows(2).all(|w| w[0] < w[1]);
                let same_len = list.iter().all(|p| p.len() == list[0].len());
                let valid = !list.is_empty() && distinct && sorted && same_len && (1..=65536).contains(&list[0].len());
                if matches!(shape, "two_sorted" | "three_sorted" | "unsorted") && list.len() < 2 {
                    cx.skip("not_enough_distinct_prefixes");
                    return;
                }
                if let Some(ap) = cx.ok("", if valid { Exp::MustOk } else { Exp::MustErr }, || Poplar1AggregationParam::try_from_prefixes(list.clone())) {
                    if valid && ap.level() != list[0].len() - 1 {
                        cx.wrong("", format!("level() = {} for prefixes of {} bits", ap.level(), list[0].len()));
                    }
                }
            })
        }));
    }
    // ---- verify_init: instance x agg id x level x share source x public share source
    {
        let insts = [1usize, 2, 4, 16];
        let others = [1usize, 2, 17];
        let ids: Vec<(String, usize)> = vec![("0".into(), 0), ("1".into(), 1), ("2".into(), 2), ("255".into(), 255), ("256".into(), 256), ("MAX".into(), usize::MAX)];
        let levels = ["0", "1", "bits-2", "bits-1", "bits", "bits+1", "65535"];
        let mut sources: Vec<String> = vec!["own[0]".into(), "own[1]".into()];
        let mut pss: Vec<String> = vec!["own".into()];
        for o in others {
            sources.push(format!("share[0]_of[Poplar1({o})]"));
            pss.push(format!("of[Poplar1({o})]"));
        }
        fams.push(fam("poplar1/verify_init", product(&[insts.len(), ids.len(), levels.len(), sources.len(), pss.len()]), move |t| {
            let b = insts[t[0] as usize];
            let (idl, id) = ids[t[1] as usize].clone();
            let ll = levels[t[2] as usize];
            let (si, pi) = (t[3] as usize, t[4] as usize);
            let (sl, pl) = (sources[si].clone(), pss[pi].clone());
            prep("poplar1/verify_init", format!("level={ll},agg_id={idl},input_share={sl},public_share={pl}@Poplar1({b})"), json!({"bits": b, "agg_id": id.to_string(), "level": ll}), move |cx| {
                let level_of = |l: &str| -> Option<usize> {
                    match l {
                        "0" => Some(0),
                        "1" => Some(1),
                        "bits-2" => b.checked_sub(2),
                        "bits-1" => Some(b - 1),
                        "bits" => Some(b),
                        "bits+1" => Some(b + 1),
                        _ => Some(65535),
                    }
                };
                let Some(level) = level_of(ll) else {
                    cx.skip("no_such_level");
                    return;
                };
                if ["bits-1", "bits", "0", "1", "bits-2", "bits+1", "65535"].iter().take_while(|l| **l != ll).any(|l| level_of(l) == Some(level)) {
                    cx.skip("duplicate_class");
                    return;
                }
                if (si >= 2 && others[si - 2] == b) || (pi >= 1 && others[pi - 1] == b) {
                    cx.skip("duplicate_class");
                    return;
                }
                let vdaf = Pop::new(b);
                let mut scratch = Cx::new();
                let get = |bits: usize, scratch: &mut Cx| -> Option<(Poplar1PublicShare, Vec<Poplar1InputShare<32>>)> { pop_shard(scratch, &format!("setup[Poplar1({bits})]/shard"), &Pop::new(bits), &pop_input(bits), Exp::MustOk, true) };
                let own = get(b, &mut scratch);
                let sh_src = if si >= 2 { get(others[si - 2], &mut scratch) } else { own.clone() };
                let ps_src = if pi >= 1 { get(others[pi - 1], &mut scratch) } else { own.clone() };
                cx.calls += scratch.calls;
                cx.findings.append(&mut scratch.findings);
                let (Some(sh_src), Some(ps_src)) = (sh_src, ps_src) else { return };
                let share = sh_src.1[if si == 1 { 1 } else { 0 }].clone();
                let ps = ps_src.0;
                let Some(ap) = cx.ok("setup/try_from_prefixes", Exp::MustOk, || Poplar1AggregationParam::try_from_prefixes(pop_prefixes(b, level + 1, 2))) else { return };
                cx.outcome.clear();
                let exp = if id > 1 || (level >= b && pi == 0) {
                    Exp::MustErr
                } else if si < 2 && pi == 0 && si == id {
                    Exp::MustOk
                } else {
                    Exp::Any
                };
                drop(cx.call("", exp, || vdaf.verify_init(&VK, CTX, id, &ap, &NONCE, &ps, &share)));
            })
        }));
    }
    // ---- verifier_shares_to_message: crafted field vectors
    {
        let shapes: Vec<(String, bool, usize)> = {
            let mut v = vec![];
            for leaf in [false, true] {
                for len in [3usize, 1, 0, 2, 4] {
                    v.push((format!("{}[{len}]", if leaf { "Leaf" } else { "Inner" }), leaf, len));
                }
            }
            v
        };
        let n = shapes.len();
        let mut tuples = product(&[n, n]);
        for t in tuples.iter_mut() {
            t.push(2);
        }
        for c in [0u16, 1, 3] {
            tuples.push(vec![0, 0, c]);
            tuples.push(vec![5, 5, c]);
        }
        fams.push(fam("poplar1/verifier_shares_to_message", tuples, move |t| {
            let (a, b, count) = (shapes[t[0] as usize].clone(), shapes[t[1] as usize].clone(), t[2] as usize);
            let class = if count == 2 { format!("shares=({},{})", a.0, b.0) } else { format!("count={count},shares={}", a.0) };
            prep("poplar1/verifier_shares_to_message", class, json!({"count": count}), move |cx| {
                let mk = |leaf: bool, len: usize, x: u64| -> Poplar1FieldVec {
                    if leaf {
                        Poplar1FieldVec::Leaf(vec![Field255::from(x); len])
                    } else {
                        Poplar1FieldVec::Inner(vec![Field64::from(x); len])
                    }
                };
                let vdaf = Pop::new(4);
                let Some(ap) = cx.ok("setup/try_from_prefixes", Exp::MustOk, || Poplar1AggregationParam::try_from_prefixes(pop_prefixes(4, 2, 2))) else { return };
                cx.outcome.clear();
                let list: Vec<Poplar1FieldVec> = match count {
                    2 => vec![mk(a.1, a.2, 1), mk(b.1, b.2, 2)],
                    c => (0..c).map(|_| mk(a.1, a.2, 0)).collect(),
                };
                let well = count == 2 && a.1 == b.1 && a.2 == b.2 && (a.2 == 1 || a.2 == 3);
                // a well-shaped pair may still fail the sketch (Err), anything else must be refused
                drop(cx.call("", if well { Exp::Any } else { Exp::MustErr }, || vdaf.verifier_shares_to_message(CTX, &ap, list)));
            })
        }));
    }
    // ---- verify_next: every state against every message (inner / leaf, round one / two, foreign)
    {
        let states = ["inner_round1", "inner_round2", "leaf_round1", "leaf_round2", "inner_round1_of[Poplar1(4),level=1]", "leaf_round1_of[Poplar1(1)]", "inner_round1_bytes_decoded_under_id_1"];
        let msgs = ["sketch_inner", "done_inner", "sketch_leaf", "done_leaf"];
        fams.push(fam("poplar1/verify_next", product(&[states.len(), msgs.len()]), move |t| {
            let (si, mi) = (t[0] as usize, t[1] as usize);
            prep("poplar1/verify_next", format!("state={},message={}@Poplar1(2)", states[si], msgs[mi]), json!({}), move |cx| {
                let mut scratch = Cx::new();
                let inner = pop_honest(&mut scratch, "setup[Poplar1(2),level=0]/", 2, 0);
                let leaf = pop_honest(&mut scratch, "setup[Poplar1(2),level=1]/", 2, 1);
                let f4 = pop_honest(&mut scratch, "setup[Poplar1(4),level=1]/", 4, 1);
                let f1 = pop_honest(&mut scratch, "setup[Poplar1(1),level=0]/", 1, 0);
                cx.calls += scratch.calls;
                cx.findings.append(&mut scratch.findings);
                let (Some((vdaf, _, hi)), Some((_, _, hl)), Some((_, _, h4)), Some((_, _, h1))) = (inner, leaf, f4, f1) else { return };
                let st = match si {
                    0 => hi.st1[0].clone(),
                    1 => hi.st2[0].clone(),
                    2 => hl.st1[1].clone(),
                    3 => hl.st2[1].clone(),
                    4 => h4.st1[0].clone(),
                    5 => h1.st1[0].clone(),
                    _ => {
                        let b = hi.st1[0].get_encoded().expect("encode state");
                        match Poplar1VerifierState::get_decoded_with_param(&(&vdaf, 1usize), &b) {
                            Ok(s) => s,
                            Err(_) => {
                                cx.skip("state_does_not_decode_under_other_id");
                                return;
                            }
                        }
                    }
                };
                let msg = match mi {
                    0 => hi.msg1.clone(),
                    1 => hi.msg2.clone(),
                    2 => hl.msg1.clone(),
                    _ => hl.msg2.clone(),
                };
                // the message kinds: sketch_inner pairs with inner round one, done with either round two
                let state_kind = match si {
                    0 | 4 | 6 => (false, 1),
                    1 => (false, 2),
                    2 | 5 => (true, 1),
                    _ => (true, 2),
                };
                let fits = match mi {
                    0 => state_kind == (false, 1),
                    2 => state_kind == (true, 1),
                    _ => state_kind.1 == 2,
                };
                let exp = if !fits {
                    Exp::MustErr
                } else if si < 4 {
                    Exp::MustOk
                } else {
                    Exp::Any
                };
                drop(cx.call("", exp, || vdaf.verify_next(CTX, st, msg)));
            })
        }));
    }
    // ---- aggregate / unshard: instance x level kind x share shapes x counts
    {
        let insts: Vec<(String, usize)> = vec![("Poplar1(2)".into(), 2), ("Poplar1(1)".into(), 1), ("Poplar1(0)".into(), 0), ("Poplar1(MAX)".into(), usize::MAX)];
        let kinds = ["inner_level", "leaf_level"];
        let shapes = ["matching", "other_variant", "len=0", "len-1", "len+1", "last_other_variant", "last_len+1"];
        let counts = [2usize, 0, 1, 3];
        fams.push(fam("poplar1/aggregate+unshard", product(&[2, insts.len(), kinds.len(), shapes.len(), counts.len()]), move |t| {
            let op = t[0];
            let (il, b) = insts[t[1] as usize].clone();
            let leaf_level = t[2] == 1;
            let shape = shapes[t[3] as usize];
            let count = counts[t[4] as usize];
            let site = ["poplar1/aggregate", "poplar1/unshard"][op as usize];
            prep(site, format!("count={count},shares={shape},{}@{il}", kinds[t[2] as usize]), json!({"bits": b.to_string(), "count": count}), move |cx| {
                if count == 0 && shape != "matching" || (count == 1 && shape.starts_with("last_")) {
                    cx.skip("duplicate_class");
                    return;
                }
                // prefixes of 1 bit: level 0, which is the leaf level iff bits == 1; of 2 bits for Poplar1(2)
                let plen = match (b, leaf_level) {
                    (2, false) => 1,
                    (2, true) => 2,
                    (1, true) => 1,
                    (1, false) => {
                        cx.skip("no_inner_level");
                        return;
                    }
                    (_, false) => 1,
                    (_, true) => {
                        cx.skip("no_nameable_leaf_level");
                        return;
                    }
                };
                let k = 2usize;
                let Some(ap) = cx.ok("setup/try_from_prefixes", Exp::MustOk, || Poplar1AggregationParam::try_from_prefixes(pop_prefixes(plen, plen, k))) else { return };
                cx.outcome.clear();
                let Some(vdaf) = cx.total("new", || Pop::new(b)) else { return };
                let mk = |leaf: bool, len: usize| -> Poplar1FieldVec {
                    if leaf {
                        Poplar1FieldVec::Leaf(vec![Field255::from(1u64); len])
                    } else {
                        Poplar1FieldVec::Inner(vec![Field64::from(1u64); len])
                    }
                };
                let list: Vec<Poplar1FieldVec> = (0..count)
                    .map(|i| {
                        let last = i + 1 == count;
                        match shape {
                            "matching" => mk(leaf_level, k),
                            "other_variant" => mk(!leaf_level, k),
                            "len=0" => mk(leaf_level, 0),
                            "len-1" => mk(leaf_level, k - 1),
                            "len+1" => mk(leaf_level, k + 1),
                            "last_other_variant" => mk(leaf_level != last, k),
                            _ => mk(leaf_level, if last { k + 1 } else { k }),
                        }
                    })
                    .collect();
                let bad = shape != "matching" && count > 0;
                let odd_instance = b == 0 || b == usize::MAX;
                let exp = if bad {
                    Exp::MustErr
                } else if odd_instance {
                    Exp::Any
                } else if op == 1 && count != 2 {
                    Exp::ShouldErr
                } else {
                    Exp::MustOk
                };
                if op == 0 {
                    drop(cx.call("", exp, || vdaf.aggregate(&ap, list)));
                } else {
                    drop(cx.call("", exp, || vdaf.unshard(&ap, list, 1)));
                }
            })
        }));
    }
    // ---- operations and decoders of degenerate instances: Poplar1::new cannot refuse, the next
    //      fallible operation must
    {
        let insts: Vec<(String, usize)> = vec![("0".into(), 0), ("1".into(), 1), ("2^63".into(), 1 << 63), ("MAX".into(), usize::MAX)];
        let ops = ["verify_init", "decode_public_share", "decode_input_share", "decode_field_vec", "decode_verify_state", "decode_agg_param_roundtrip"];
        let blobs = ["empty", "zeros(64)", "honest_of[Poplar1(1)]"];
        fams.push(fam("poplar1/degenerate", product(&[insts.len(), ops.len(), blobs.len()]), move |t| {
            let (bl, b) = insts[t[0] as usize].clone();
            let op = ops[t[1] as usize];
            let blob = blobs[t[2] as usize];
            prep(&format!("poplar1/{op}"), format!("new({bl}),bytes={blob}"), json!({"bits": b.to_string(), "bytes": blob}), move |cx| {
                let mut scratch = Cx::new();
                let h1 = pop_honest(&mut scratch, "setup[Poplar1(1)]/", 1, 0);
                cx.calls += scratch.calls;
                cx.findings.append(&mut scratch.findings);
                let Some((_, ap1, h1)) = h1 else { return };
                let Some(vdaf) = cx.total("new", || Pop::new(b)) else { return };
                let pick = |honest: Vec<u8>| -> Vec<u8> {
                    match blob {
                        "empty" => vec![],
                        "zeros(64)" => vec![0u8; 64],
                        _ => honest,
                    }
                };
                // a decoder of a well-formed instance (bits = 1) must accept the honest bytes
                let exp = if b == 1 && blob.starts_with("honest") { Exp::MustOk } else { Exp::Any };
                match op {
                    "verify_init" => {
                        if blob != "empty" {
                            cx.skip("duplicate_class");
                            return;
                        }
                        let exp = if b == 1 { Exp::MustOk } else { Exp::Any };
                        drop(cx.call("", exp, || vdaf.verify_init(&VK, CTX, 0, &ap1, &NONCE, &h1.ps, &h1.shares[0])));
                    }
                    "decode_public_share" => {
                        if b > 1 {
                            // the control-bit buffer is bits/4 bytes: an allocation proportional to the parameter
                            cx.skip("allocation_proportional_to_bits");
                            return;
                        }
                        let bytes = pick(h1.ps.get_encoded().expect("encode"));
                        drop(cx.call("", exp, || Poplar1PublicShare::get_decoded_with_param(&vdaf, &bytes)));
                    }
                    "decode_input_share" => {
                        let bytes = pick(h1.shares[0].get_encoded().expect("encode"));
                        drop(cx.call("", exp, || Poplar1InputShare::<32>::get_decoded_with_param(&(&vdaf, 0usize), &bytes)));
                    }
                    "decode_field_vec" => {
                        let bytes = pick(h1.outs[0].get_encoded().expect("encode"));
                        drop(cx.call("", exp, || Poplar1FieldVec::get_decoded_with_param(&(&vdaf, &ap1), &bytes)));
                    }
                    "decode_verify_state" => {
                        let bytes = pick(h1.st1[0].get_encoded().expect("encode"));
                        drop(cx.call("", exp, || Poplar1VerifierState::get_decoded_with_param(&(&vdaf, 0usize), &bytes)));
                    }
                    _ => {
                        if t_is_first(b) {
                            let bytes = pick(ap1.get_encoded().expect("encode"));
                            drop(cx.call("", if blob.starts_with("honest") { Exp::MustOk } else { Exp::Any }, || Poplar1AggregationParam::get_decoded(&bytes)));
                        } else {
                            cx.skip("duplicate_class");
                        }
                    }
                }
            })
        }));
    }
    // ---- IDPF: gen / eval / merge
    {
        let in_lens = [0usize, 1, 2, 16];
        let counts = ["bits-1", "0", "bits-2", "bits", "bits+1"];
        fams.push(fam("idpf/gen", product(&[in_lens.len(), counts.len()]), move |t| {
            let len = in_lens[t[0] as usize];
            let cl = counts[t[1] as usize];
            prep("idpf/gen", format!("input_len={len},inner_values={cl}"), json!({"input_len": len, "inner_values": cl}), move |cx| {
                let count: Option<usize> = match cl {
                    "bits-1" => len.checked_sub(1),
                    "0" => Some(0),
                    "bits-2" => len.checked_sub(2),
                    "bits" => Some(len),
                    _ => Some(len + 1),
                };
                let Some(count) = count else {
                    // bits = 0: "bits-1" values cannot be supplied; offer none
                    if cl == "bits-1" {
                        let idpf: PopIdpf = Idpf::new((), ());
                        drop(cx.call("", Exp::MustErr, || idpf.gen(&pop_input(len), Vec::<Poplar1IdpfValue<Field64>>::new(), Poplar1IdpfValue::new([Field255::one(), Field255::one()]), CTX, &NONCE)));
                    } else {
                        cx.skip("no_such_count");
                    }
                    return;
                };
                if cl != "bits-1" && Some(count) == len.checked_sub(1) {
                    cx.skip("duplicate_class");
                    return;
                }
                let idpf: PopIdpf = Idpf::new((), ());
                let inner: Vec<Poplar1IdpfValue<Field64>> = (0..count).map(|i| Poplar1IdpfValue::new([Field64::one(), Field64::from(i as u64)])).collect();
                let exp = if len >= 1 && count == len - 1 { Exp::MustOk } else { Exp::MustErr };
                drop(cx.call("", exp, || idpf.gen(&pop_input(len), inner, Poplar1IdpfValue::new([Field255::one(), Field255::one()]), CTX, &NONCE)));
            })
        }));
        let ids: Vec<(String, usize)> = vec![("0".into(), 0), ("1".into(), 1), ("2".into(), 2), ("255".into(), 255), ("MAX".into(), usize::MAX)];
        let plens = ["bits", "0", "1", "bits-1", "bits+1", "2*bits"];
        let pss = ["own", "of_2_bit_idpf", "of_16_bit_idpf"];
        let caches = ["NoCache", "HashMapCache", "RingBufferCache(0)", "RingBufferCache(1)", "cache_warmed_by_other_key", "cache_answering_everything"];
        fams.push(fam("idpf/eval", product(&[ids.len(), plens.len(), pss.len(), caches.len()]), move |t| {
            let (idl, id) = ids[t[0] as usize].clone();
            let pl = plens[t[1] as usize];
            let psl = pss[t[2] as usize];
            let cl = caches[t[3] as usize];
            prep("idpf/eval", format!("agg_id={idl},prefix_len={pl},public_share={psl},cache={cl}@4_bit_idpf"), json!({"agg_id": id.to_string()}), move |cx| {
                let bits = 4usize;
                let plen = match pl {
                    "bits" => bits,
                    "0" => 0,
                    "1" => 1,
                    "bits-1" => bits - 1,
                    "bits+1" => bits + 1,
                    _ => 2 * bits,
                };
                let idpf: PopIdpf = Idpf::new((), ());
                let gen = |cx: &mut Cx, b: usize| -> Option<(PopIdpfPs, [Seed<16>; 2])> {
                    let inner: Vec<Poplar1IdpfValue<Field64>> = (0..b - 1).map(|i| Poplar1IdpfValue::new([Field64::one(), Field64::from(i as u64)])).collect();
                    cx.ok(&format!("setup/gen({b})"), Exp::MustOk, || idpf.gen(&pop_input(b), inner, Poplar1IdpfValue::new([Field255::one(), Field255::one()]), CTX, &NONCE))
                };
                let Some((own_ps, keys)) = gen(cx, bits) else { return };
                let ps_bits = match psl {
                    "own" => bits,
                    "of_2_bit_idpf" => 2,
                    _ => 16,
                };
                let ps = if ps_bits == bits {
                    own_ps.clone()
                } else {
                    match gen(cx, ps_bits) {
                        Some((p, _)) => p,
                        None => return,
                    }
                };
                cx.outcome.clear();
                let prefix = pop_prefix(bits, plen);
                let key = keys[id.min(1)].clone();
                let exp = if id > 1 || plen == 0 || plen > ps_bits {
                    Exp::MustErr
                } else if ps_bits == bits && matches!(cl, "NoCache" | "HashMapCache" | "RingBufferCache(0)" | "RingBufferCache(1)") {
                    Exp::MustOk
                } else {
                    Exp::Any
                };
                match cl {
                    "NoCache" => drop(cx.call("", exp, || idpf.eval(id, &ps, &key, &prefix, CTX, &NONCE, &mut NoCache::new()))),
                    "HashMapCache" => drop(cx.call("", exp, || idpf.eval(id, &ps, &key, &prefix, CTX, &NONCE, &mut HashMapCache::new()))),
                    "RingBufferCache(0)" => drop(cx.call("", exp, || idpf.eval(id, &ps, &key, &prefix, CTX, &NONCE, &mut RingBufferCache::new(0)))),
                    "RingBufferCache(1)" => drop(cx.call("", exp, || idpf.eval(id, &ps, &key, &prefix, CTX, &NONCE, &mut RingBufferCache::new(1)))),
                    "cache_warmed_by_other_key" => {
                        let mut cache = HashMapCache::new();
                        let _ = cx.call("setup/warm", Exp::Any, || idpf.eval(0, &own_ps, &keys[0], &pop_prefix(bits, bits), CTX, &NONCE, &mut cache));
                        cx.outcome.clear();
                        drop(cx.call("", exp, || idpf.eval(id, &ps, &key, &prefix, CTX, &NONCE, &mut cache)));
                    }
                    _ => drop(cx.call("", exp, || idpf.eval(id, &ps, &key, &prefix, CTX, &NONCE, &mut PoisonCache))),
                }
            })
        }));
        fams.push(fam("idpf/merge", product(&[2, 2]), move |t| {
            let (a, b) = (t[0] == 1, t[1] == 1);
            let n = |l: bool| if l { "Leaf" } else { "Inner" };
            prep("idpf/IdpfOutputShare/merge", format!("({},{})", n(a), n(b)), json!({}), move |cx| {
                let mk = |leaf: bool| -> IdpfOutputShare<Poplar1IdpfValue<Field64>, Poplar1IdpfValue<Field255>> {
                    if leaf {
                        IdpfOutputShare::Leaf(Poplar1IdpfValue::new([Field255::one(), Field255::one()]))
                    } else {
                        IdpfOutputShare::Inner(Poplar1IdpfValue::new([Field64::one(), Field64::one()]))
                    }
                };
                drop(cx.call("", if a == b { Exp::MustOk } else { Exp::MustErr }, || mk(a).merge(mk(b))));
            })
        }));
    }
    // ---- aggregation parameters at the extreme levels: constructor, encoding, decoding
    {
        let levels: Vec<(String, usize)> = vec![("0".into(), 0), ("7".into(), 7), ("8".into(), 8), ("2^16-2".into(), 65534), ("2^16-1".into(), 65535), ("2^16".into(), 65536)];
        fams.push(fam("poplar1/agg_param/extreme_levels", product(&[levels.len(), 2]), move |t| {
            let (ll, level) = levels[t[0] as usize].clone();
            let two = t[1] == 1;
            prep("poplar1/Poplar1AggregationParam/round_trip", format!("level={ll},prefixes={}", if two { 2 } else { 1 }), json!({"level": level}), move |cx| {
                let mut a = vec![false; level + 1];
                let mut b = a.clone();
                b[level] = true;
                a[0] = level > 0; // two distinct, sorted candidates (b < a when level > 0)
                let mut set = if two { vec![b, a] } else { vec![b] };
                set.sort();
                set.dedup();
                let exp = if level <= 65535 { Exp::MustOk } else { Exp::MustErr };
                let Some(ap) = cx.ok("try_from_prefixes", exp, || Poplar1AggregationParam::try_from_prefixes(set.iter().map(|p| IdpfInput::from_bools(p)).collect())) else { return };
                let Some(bytes) = cx.ok("get_encoded", Exp::MustOk, || ap.get_encoded()) else { return };
                if ap.encoded_len() != Some(bytes.len()) {
                    cx.wrong("encoded_len", format!("encoded_len() = {:?}, produced {} bytes", ap.encoded_len(), bytes.len()));
                }
                if let Some(back) = cx.ok("get_decoded", Exp::MustOk, || Poplar1AggregationParam::get_decoded(&bytes)) {
                    if back != ap {
                        cx.wrong("get_decoded", "decoded aggregation parameter differs from the original".into());
                    }
                }
            })
        }));
    }
    // ---- context / nonce lengths
    {
        let ops = ["poplar1/shard", "poplar1/verify_init", "idpf/gen", "idpf/eval", "idpf/gen(nonce)", "idpf/eval(nonce)"];
        let lens = ctx_lens();
        fams.push(fam("poplar1+idpf/ctx_len", product(&[ops.len(), lens.len()]), move |t| {
            let op = ops[t[0] as usize];
            let (ll, len) = lens[t[1] as usize].clone();
            let site = op.trim_end_matches("(nonce)");
            let class = if op.ends_with("(nonce)") { format!("nonce_len={ll}") } else { format!("ctx_len={ll}") };
            prep(site, class, json!({"len": len}), move |cx| {
                let long = vec![0xC7u8; len];
                let exp = if len <= 65527 { Exp::MustOk } else { Exp::Any };
                let idpf: PopIdpf = Idpf::new((), ());
                let inner: Vec<Poplar1IdpfValue<Field64>> = vec![Poplar1IdpfValue::new([Field64::one(), Field64::one()])];
                let leaf = Poplar1IdpfValue::new([Field255::one(), Field255::one()]);
                match op {
                    "poplar1/shard" => drop(cx.call("", exp, || Pop::new(2).shard(&long, &pop_input(2), &NONCE))),
                    "poplar1/verify_init" => {
                        let mut scratch = Cx::new();
                        let h = pop_honest(&mut scratch, "setup[Poplar1(2),level=0]/", 2, 0);
                        cx.calls += scratch.calls;
                        cx.findings.append(&mut scratch.findings);
                        let Some((vdaf, ap, h)) = h else { return };
                        // another context than the client's: still a well-formed call
                        drop(cx.call("", exp, || vdaf.verify_init(&VK, &long, 0, &ap, &NONCE, &h.ps, &h.shares[0])));
                    }
                    "idpf/gen" => drop(cx.call("", exp, || idpf.gen(&pop_input(2), inner, leaf, &long, &NONCE))),
                    "idpf/gen(nonce)" => drop(cx.call("", Exp::MustOk, || idpf.gen(&pop_input(2), inner, leaf, CTX, &long))),
                    _ => {
                        let Some((ps, keys)) = cx.ok("setup/gen", Exp::MustOk, || idpf.gen(&pop_input(2), inner, leaf, CTX, &NONCE)) else { return };
                        cx.outcome.clear();
                        if op == "idpf/eval" {
                            drop(cx.call("", exp, || idpf.eval(0, &ps, &keys[0], &pop_input(2), &long, &NONCE, &mut NoCache::new())));
                        } else {
                            drop(cx.call("", Exp::MustOk, || idpf.eval(0, &ps, &keys[0], &pop_input(2), CTX, &long, &mut NoCache::new())));
                        }
                    }
                }
            })
        }));
    }
    // ---- context lengths for Prio3 over the other XOF shipped with the library (HMAC-SHA256 + AES128):
    // its domain-separation tag is limited to 255 bytes, i.e. the context string to 247 bytes
    {
        use prio::vdaf::xof::XofHmacSha256Aes128;
        let ops = ["prio3/shard", "prio3/verify_init", "prio3/verifier_shares_to_message", "prio3/verify_next"];
        let lens: Vec<(String, usize)> = vec![("7".into(), 7), ("0".into(), 0), ("247".into(), 247), ("248".into(), 248), ("300".into(), 300), ("2^16".into(), 65536)];
        for (iname, jr) in [("Count<Field64>#hmac,n=2", false), ("Histogram(len=3,chunk=2)<Field128>#hmac,n=2", true)] {
            let lens = lens.clone();
            fams.push(fam(&format!("prio3/ctx_len@{iname}"), product(&[ops.len(), lens.len()]), move |t| {
                let op = ops[t[0] as usize];
                let (ll, len) = lens[t[1] as usize].clone();
                prep(op, format!("ctx_len={ll}@{iname}"), json!({"ctx_len": len, "xof": "XofHmacSha256Aes128"}), move |cx| {
                    let long = vec![0xC7u8; len];
                    let exp = if len <= 247 { Exp::MustOk } else { Exp::Any };
                    fn go<T: Type>(cx: &mut Cx, op: &str, typ: T, meas: T::Measurement, long: &[u8], exp: Exp, jr: bool)
                    {
                        let Some(vdaf) = cx.ok("setup/new", Exp::MustOk, || Prio3::<T, XofHmacSha256Aes128, 32>::new(2, 1, 0xFFFF_1600, typ)) else { return };
                        let rand = vec![0x5Au8; 4 * 32];
                        let short: &[u8] = b"c16";
                        if op == "prio3/shard" {
                            cx.outcome.clear();
                            drop(cx.call("", exp, || vdaf.shard_with_random(long, &meas, &NONCE, &rand[..if jr { 128 } else { 64 }])));
                            return;
                        }
                        // the other steps: an honest report under a short context, then the step under the long one
                        let ctx0: &[u8] = if op == "prio3/verify_init" { short } else { long };
                        let Some((ps, shares)) = cx.ok("setup/shard", Exp::Any, || vdaf.shard_with_random(ctx0, &meas, &NONCE, &rand[..if jr { 128 } else { 64 }])) else { return };
                        if op == "prio3/verify_init" {
                            cx.outcome.clear();
                            drop(cx.call("", exp, || vdaf.verify_init(&VK, long, 0, &(), &NONCE, &ps, &shares[0])));
                            return;
                        }
                        let mut sts = vec![];
                        let mut vss = vec![];
                        for a in 0..2 {
                            let Some((st, vs)) = cx.ok("setup/verify_init", Exp::Any, || vdaf.verify_init(&VK, long, a, &(), &NONCE, &ps, &shares[a])) else { return };
                            sts.push(st);
                            vss.push(vs);
                        }
                        cx.outcome.clear();
                        if op == "prio3/verifier_shares_to_message" {
                            drop(cx.call("", exp, || vdaf.verifier_shares_to_message(long, &(), vss)));
                        } else {
                            let Some(msg) = cx.ok("setup/verifier_shares_to_message", Exp::Any, || vdaf.verifier_shares_to_message(long, &(), vss)) else { return };
                            cx.outcome.clear();
                            drop(cx.call("", exp, || vdaf.verify_next(long, sts.remove(0), msg)));
                        }
                    }
                    if jr {
                        let typ: Histogram<Field128, ParallelSum<Field128, Mul>> = match Histogram::new(3, 2) {
                            Ok(t) => t,
                            Err(_) => return,
                        };
                        go(cx, op, typ, 1usize, &long, exp, true);
                    } else {
                        go(cx, op, Count::<Field64>::new(), true, &long, exp, false);
                    }
                })
            }));
        }
    }
    fams
}
fn ctx_lens() -> Vec<(String, usize)> {
    vec![("7".into(), 7), ("0".into(), 0), ("2^16-9".into(), 65527), ("2^16-8".into(), 65528), ("2^16".into(), 65536), ("2^20".into(), 1 << 20)]
}
fn t_is_first(b: usize) -> bool {
    b == 0
}

// =============================================================================================
// driver: parent / worker
// =============================================================================================
fn all_families(quick: bool, seed: u64) -> Vec<Family> {
    let mut v = vec![];
    v.extend(dp_families(quick, seed));
    v.extend(flp_families(quick, seed));
    v.extend(prio3_families(quick, seed));
    v.extend(prio2_families(quick, seed));
    v.extend(poplar1_families(quick, seed));
    if std::env::var("C16_SELFTEST").is_ok() {
        // machinery self-test (never part of a normal run): a worker that aborts, hangs, allocates
        // without bound, or panics in harness code
        v.push(fam("selftest", product(&[5]), |t| {
            let k = t[0];
            prep("selftest", ["abort", "hang", "alloc", "fine", "harness_panic"][k as usize].to_string(), json!({}), move |cx| {
                cx.limit_ms = 1000;
                match k {
                    0 => drop(cx.call("", Exp::Any, || -> Result<(), String> { std::process::abort() })),
                    1 => drop(cx.call("", Exp::Any, || -> Result<(), String> {
                        loop {
                            std::hint::spin_loop();
                        }
                    })),
                    2 => drop(cx.call("", Exp::Any, || -> Result<usize, String> { Ok(vec![1u8; 3 << 30].len()) })),
                    3 => drop(cx.call("", Exp::Any, || -> Result<(), String> { Ok(()) })),
                    _ => {
                        if std::env::var("C16_SELFTEST").as_deref() == Ok("panic") {
                            panic!("self-test: harness panic in a worker")
                        }
                    }
                }
            })
        }));
    }
    v
}

struct Index {
    fams: Vec<Family>,
    starts: Vec<u64>,
    total: u64,
}
impl Index {
    fn new(fams: Vec<Family>) -> Index {
        let mut starts = vec![];
        let mut t = 0u64;
        for f in &fams {
            starts.push(t);
            t += f.tuples.len() as u64;
        }
        Index { fams, starts, total: t }
    }
    fn get(&self, j: u64) -> (usize, Prepared) {
        let fi = self.family_of(j);
        let f = &self.fams[fi];
        (fi, (f.make)(&f.tuples[(j - self.starts[fi]) as usize]))
    }
    fn family_of(&self, j: u64) -> usize {
        match self.starts.binary_search(&j) {
            Ok(mut i) => {
                // skip empty families sharing the same start
                while self.fams[i].tuples.is_empty() {
                    i += 1;
                }
                i
            }
            Err(i) => i - 1,
        }
    }
}

fn worker_main(w: u64, n: u64, from: u64, quick: bool, seed: u64) -> ! {
    worker_hooks();
    // 16 workers x the default 16 rayon threads each would fight for the cores
    // (the global pool is built lazily, on the first multithreaded gadget call, and reads this)
    std::env::set_var("RAYON_NUM_THREADS", "2");
    let idx = Index::new(all_families(quick, seed));
    let mut j = from;
    while j < idx.total {
        if j % n == w {
            let (_, p) = idx.get(j);
            let (site, class) = (p.site.clone(), p.class.clone());
            CUR_CASE.store(j, Ordering::SeqCst);
            raw_out(format!("S {j}\n").as_bytes());
            let mut cx = Cx::new();
            let t0 = std::time::Instant::now();
            (p.run)(&mut cx);
            let us = t0.elapsed().as_micros() as u64;
            let f: Vec<Value> = cx.findings.iter().map(|f| json!({"s": f.step, "k": f.kind, "w": f.what, "l": f.loc})).collect();
            let d = fnv(format!("{}/{}/{}", site, class, cx.outcome).as_bytes());
            let line = json!({"o": cx.outcome, "n": cx.calls, "f": f, "s": cx.notes, "p": cx.peak, "t": us, "d": d.to_string()});
            raw_out(format!("R {j} {line}\n").as_bytes());
            CUR_CASE.store(u64::MAX, Ordering::SeqCst);
        }
        j += 1;
    }
    raw_out(b"E\n");
    unsafe { _exit(0) }
}

#[derive(Default)]
struct CaseResult {
    outcome: String,
    calls: u64,
    findings: Vec<Finding>,
    notes: Vec<String>,
    peak: i64,
    us: u64,
    dhash: u64,
}

fn machinery(msg: String) -> ! {
    eprintln!("MACHINERY: {msg}");
    std::process::exit(2)
}

/// Drive worker `w` to completion (restarting it after every case-attributable death).
fn drive_worker(w: u64, n: u64, total: u64, tier: &str, results: &Mutex<BTreeMap<u64, CaseResult>>) {
    let exe = std::env::current_exe().expect("current_exe");
    let mut from = 0u64;
    let mut restarts = 0;
    loop {
        let mut child = std::process::Command::new(&exe)
            .args(["--worker", &w.to_string(), &n.to_string(), &from.to_string(), tier])
            .stdout(std::process::Stdio::piped())
            .stdin(std::process::Stdio::null())
            .spawn()
            .unwrap_or_else(|e| machinery(format!("cannot spawn worker: {e}")));
        let out = BufReader::new(child.stdout.take().unwrap());
        let mut open: Option<u64> = None;
        let mut ended = false;
        let mut cause: Option<(u8, u64)> = None;
        for line in out.lines() {
            let line = line.unwrap_or_else(|e| machinery(format!("worker {w} pipe: {e}")));
            let mut it = line.splitn(3, ' ');
            match it.next() {
                Some("S") => open = Some(it.next().unwrap().parse().unwrap()),
                Some("R") => {
                    let j: u64 = it.next().unwrap().parse().unwrap();
                    if open != Some(j) {
                        machinery(format!("worker {w}: result for case {j} while {open:?} is open"));
                    }
                    open = None;
                    let v: Value = serde_json::from_str(it.next().unwrap()).unwrap_or_else(|e| machinery(format!("worker {w}: bad result line: {e}")));
                    let findings = v["f"].as_array().unwrap().iter().map(|f| Finding { step: f["s"].as_str().unwrap().into(), kind: f["k"].as_str().unwrap().into(), what: f["w"].as_str().unwrap().into(), loc: f["l"].as_str().unwrap().into() }).collect();
                    let notes = v["s"].as_array().unwrap().iter().map(|s| s.as_str().unwrap().to_string()).collect();
                    results.lock().unwrap().insert(j, CaseResult { outcome: v["o"].as_str().unwrap().into(), calls: v["n"].as_u64().unwrap(), findings, notes, peak: v["p"].as_i64().unwrap_or(0), us: v["t"].as_u64().unwrap_or(0), dhash: v["d"].as_str().and_then(|x| x.parse().ok()).unwrap_or(0) });
                }
                Some("A") | Some("T") => {
                    let j: u64 = it.next().unwrap().parse().unwrap_or(u64::MAX);
                    let x: u64 = it.next().unwrap_or("0").parse().unwrap_or(0);
                    cause = Some((line.as_bytes()[0], x));
                    if j != u64::MAX {
                        open = Some(j);
                    }
                }
                Some("E") => ended = true,
                _ => machinery(format!("worker {w}: unexpected line {line:?}")),
            }
        }
        let status = child.wait().unwrap_or_else(|e| machinery(format!("wait: {e}")));
        if ended && status.success() && open.is_none() {
            if std::env::var("C16_TIMING").is_ok() {
                eprintln!("worker {w} finished at {} ms", now_ms());
            }
            return;
        }
        let Some(j) = open else { machinery(format!("worker {w} died ({status}) outside any case")) };
        if status.code() == Some(2) {
            machinery(format!("worker {w} reported a harness failure in case {j}"));
        }
        let (kind, what) = match (status.code(), cause) {
            (Some(EXIT_ALLOC), Some((b'A', x))) => ("alloc", format!("unbounded allocation: a single call held more than 2 GiB ({x} bytes) although the arguments predict far less")),
            (Some(EXIT_HANG), Some((b'T', _))) => ("hang", "the call did not return within its time limit".to_string()),
            _ => ("abort", format!("the call killed the process ({status})")),
        };
        let mut r = CaseResult { outcome: kind.to_string(), calls: 1, ..Default::default() };
        r.findings.push(Finding { step: String::new(), kind: kind.into(), what, loc: String::new() });
        results.lock().unwrap().insert(j, r);
        from = j + 1;
        restarts += 1;
        if restarts > 2000 {
            machinery(format!("worker {w}: more than 2000 restarts"));
        }
        if from >= total {
            return;
        }
    }
}

fn main() {
    let args: Vec<String> = std::env::args().collect();
    let seed = std::env::var("VERIF_SEED").ok().and_then(|s| s.parse::<u64>().ok()).unwrap_or(1);
    if args.len() >= 6 && args[1] == "--worker" {
        let p = |i: usize| args[i].parse::<u64>().unwrap_or_else(|_| machinery("bad worker args".into()));
        worker_main(p(2), p(3), p(4), args[5] == "quick", seed);
    }
    let run = Run::from_args("C16", Level::FaultEnumeration);
    let quick = run.quick();
    let tier = if quick { "quick" } else { "thorough" };
    // replay files record the seed: hand it to the workers
    std::env::set_var("VERIF_SEED", run.seed.to_string());
    let idx = Index::new(all_families(quick, run.seed));
    let total = idx.total;
    let n = (pvh::engine::par::threads() as u64).clamp(1, 32);
    let results: Mutex<BTreeMap<u64, CaseResult>> = Mutex::new(BTreeMap::new());
    std::thread::scope(|s| {
        for w in 0..n {
            let results = &results;
            s.spawn(move || drive_worker(w, n, total, tier, results));
        }
    });
    if std::env::var("C16_TIMING").is_ok() {
        eprintln!("workers done at {:.1}s", run.elapsed());
    }
    let results = results.into_inner().unwrap();
    if results.len() as u64 != total {
        machinery(format!("{} of {} cases reported", results.len(), total));
    }

    // ---- bookkeeping
    let mut per_family: BTreeMap<String, (u64, u64, u64, u64, u64, u64)> = BTreeMap::new();
    // group -> (rank of the representative, key, what, case json, other classes); the representative
    // is the failing case closest to the family's default tuple (then smallest tuple)
    type Rank = (usize, usize, Vec<u16>);
    let mut groups: Vec<(Rank, String, String, Value, Vec<String>)> = vec![];
    let mut gidx: HashMap<String, usize> = HashMap::new();
    let mut soft: BTreeMap<String, u64> = BTreeMap::new();
    let mut peak_max = 0i64;
    let mut n_eval = 0u64;
    let mut outcomes: BTreeMap<String, u64> = BTreeMap::new();
    for (&j, r) in &results {
        let fi = idx.family_of(j);
        let fe = per_family.entry(idx.fams[fi].name.clone()).or_default();
        fe.0 += 1;
        fe.5 += r.us;
        let oc = r.outcome.split(':').next().unwrap_or("");
        match oc {
            "ok" => fe.1 += 1,
            "err" => fe.2 += 1,
            "skip" => fe.4 += 1,
            _ => fe.3 += 1,
        }
        n_eval += r.calls;
        *outcomes.entry(if oc.is_empty() { "none".to_string() } else { oc.to_string() }).or_default() += 1;
        peak_max = peak_max.max(r.peak);
        if oc != "skip" && r.dhash != 0 {
            run.distinct(r.dhash);
        }
        let sampled = j % (total / 10).max(1) == 0;
        if !sampled && r.findings.is_empty() && r.notes.is_empty() {
            continue;
        }
        let (_, p) = idx.get(j);
        if sampled {
            run.sample(json!({"site": p.site, "class": p.class, "args": p.args, "outcome": r.outcome, "calls": r.calls}));
        }
        for s in &r.notes {
            // debatable acceptances and panics of infallible helpers: keyed by call site + argument class (instance stripped)
            let cls = p.class.split(['@']).next().unwrap_or("");
            let cls = if p.site.ends_with("add_noise_to_agg_share") { cls.split(',').next().unwrap_or("") } else { cls };
            let s = s.split(" at /").next().unwrap_or("");
            let k = if s.is_empty() { format!("{}/{}", p.site, cls) } else { format!("{}/{}/{}", p.site, cls, s) };
            *soft.entry(k).or_default() += 1;
        }
        for f in &r.findings {
            let key = if f.step.is_empty() { format!("{}/{}", p.site, p.class) } else { format!("{}/{}/{}", p.site, p.class, f.step) };
            // panics are grouped by call site + step + source location (first = simplest case is
            // reported, the others are listed with it); other findings are reported per class
            let first = p.class.split(['@']).next().unwrap_or("").split(',').next().unwrap_or("");
            let g = if f.kind == "panic" { format!("{}|{}|{}", p.site, f.step, f.loc) } else { if f.kind == "wrong" { format!("{}|{}|wrong", p.site, f.step) } else { format!("{}|{}|{}|{}", p.site, f.step, f.kind, first) } };
            let fam = &idx.fams[fi];
            let tuple = fam.tuples[(j - idx.starts[fi]) as usize].clone();
            let dep = tuple.iter().enumerate().filter(|(k, v)| **v != fam.default.get(*k).copied().unwrap_or(0)).count();
            let rank: Rank = (fi, dep, tuple);
            let what = format!("{} [{}] {}{}", p.site, p.class, if f.step.is_empty() { String::new() } else { format!("then {}: ", f.step) }, if f.loc.is_empty() { f.what.clone() } else { format!("{} at {}", f.what, f.loc) });
            let case = json!({"site": p.site, "class": p.class, "args": p.args, "step": f.step, "kind": f.kind, "what": f.what, "location": f.loc});
            if let Some(&i) = gidx.get(&g) {
                let gr = &mut groups[i];
                if rank < gr.0 {
                    let old_class = gr.3["class"].as_str().unwrap_or("").to_string();
                    *gr = (rank, key, what, case, std::mem::take(&mut gr.4));
                    if gr.4.len() < 40 {
                        gr.4.push(old_class);
                    }
                } else if gr.4.len() < 40 {
                    gr.4.push(p.class.clone());
                }
                continue;
            }
            gidx.insert(g.clone(), groups.len());
            groups.push((rank, key, what, case, vec![]));
        }
    }
    if std::env::var("C16_TIMING").is_ok() {
        eprintln!("bookkeeping done at {:.1}s", run.elapsed());
    }
    run.count("evaluations", n_eval);
    run.count("cases", total);
    for (k, v) in &outcomes {
        run.count(&format!("outcome_{k}"), *v);
    }
    groups.sort_by(|a, b| a.0.cmp(&b.0));
    for (_, key, what, mut case, others) in groups {
        case["also_failing_classes"] = json!(others);
        run.fail(&key, &what, case);
    }
    if std::env::var("C16_TIMING").is_ok() {
        let mut v: Vec<_> = per_family.iter().collect();
        v.sort_by_key(|(_, x)| std::cmp::Reverse(x.5));
        for (k, x) in v.iter().take(25) {
            eprintln!("{:>9} ms {:>7} cases  {}", x.5 / 1000, x.0, k);
        }
    }
    run.note("families", json!(per_family.iter().map(|(k, v)| json!({"family": k, "cases": v.0, "ok": v.1, "err": v.2, "failed": v.3, "skipped": v.4})).collect::<Vec<_>>()));
    run.note("accepted_debatable_out_of_domain", json!(soft.keys().collect::<Vec<_>>()));
    run.note("peak_call_allocation_bytes", json!(peak_max));
    run.note("workers", json!(n));
    run.rule(
        "argument lattice {0,1,2,3, 2^k-1,2^k,2^k+1 (k=7,8,15,16,31,32,62,63,64,127 as the type allows), p-1,p,p+1, MAX-1,MAX} per integer \
         parameter, all 256 values of num_aggregators and num_proofs, measurement / id / share-role / share-length / share-count / \
         cross-instance menus; products of up to 3 parameters (quick: core lattice for 3-way products, full lattice for single \
         parameters and pairs); every case = one call site with one argument class, run in a worker subprocess under a 2 GiB \
         allocation cap and a per-call watchdog; Ok constructors are followed by length accessors and one honest report end to end \
         when the instance fits the work budget",
    );
    run.assume("outcome class (Ok / Err / panic) of shard, Idpf::gen and add_noise_to_agg_share does not depend on the OS randomness they draw (only the class is observed; FLP query randomness hits a root of unity with probability < 2^-40)");
    run.assume("allocation-proportional calls are made only when the allocation predicted from the arguments is within the 2 GiB budget; bigger instances are constructed and their length accessors are called, but no report is run through them");
    run.assume("usize is 64 bits");
    run.exhaustive(true);
    run.finish();
}
