//! C19 — Prio2: 0/1 vectors verify and sum; anything else is rejected.
//!
//! Engine: bounded-exhaustive sweep + fault menu on the real `Prio2` code.
//!
//!  (1) completeness + exact sums: input lengths x 0/1 vectors (all of them for small lengths, an
//!      edge menu beyond) x helper-seed tapes x verify-key/nonce tapes, each report driven through
//!      `vdafkit::verify_report` with every message on the wire; batches (singletons, pairs, the
//!      whole list) aggregated with `Aggregator::aggregate` + `Collector::unshard` and compared
//!      with plain integer sums.
//!  (2) robustness with a deterministic oracle: the aggregators' test is P(r) = f(r)g(r) - h(r) = 0
//!      for the summed verifier shares, where (client.rs/server.rs) f, g interpolate n points
//!      (degree < n, n = (len+1).next_power_of_two()) and h interpolates 2n points (degree < 2n),
//!      so deg P <= 2n-1. A harness-side reference (u64 arithmetic mod p, own Lagrange evaluation
//!      on the 2n-th roots of unity) decides whether P vanishes at *all* 2n-th roots of unity,
//!      i.e. whether P == 0. If P != 0 it has at most D = 2n-1 roots, hence acceptance at more than
//!      D of M > D distinct query points (`Prio2::verify_init_with_query_rand` +
//!      `verifier_shares_to_message`, exactly as the real flow) is a violation; an honest 0/1
//!      report has P == 0 and must be accepted at every point.
//!  (3) tampering after honest sharding: every element of the leader share (data, f0, g0, h0, every
//!      packed point of h) +-{1, 2^31}, every helper-seed byte (bit 0 / bit 7), and a menu of
//!      multi-element forgeries (zeroed proof, zeroed h, non-binary data under an honest proof, the
//!      proof of a neighbouring 0/1 vector), judged as in (2); verifier-share / verifier-message
//!      alterations through the vdafkit byte hook under 8 keys (flagged only if >= 3 keys accept).
//!
//! `Prio2::shard` draws f0, g0 from an OS-seeded generator no hook reaches; every verdict is
//! independent of them (the reference takes them from the shares). Violation keys name the job
//! (length / base vector / seed tape / chunk); the exact failing case is in the replay file.
//!  (4) codecs of input shares, verifier state, verifier share, output and aggregate shares.
//!  (5) query-point exclusion: `choose_eval_at` (hook H4) on scripted byte streams whose leading
//!      4-byte chunks are 2n-th roots of unity and/or values >= p, against a transcription of the
//!      sampling rule (4-byte LE chunks, discard >= p, discard x with x^(2n) = 1).
use prio::codec::{Encode, ParameterizedDecode};
use prio::field::{FieldPrio2, NttFriendlyFieldElement};
use prio::vdaf::prio2::{Prio2, Prio2VerifierShare, Prio2VerifierState};
use prio::vdaf::xof::SeedStreamAes128;
use prio::vdaf::{AggregateShare, Aggregator, Client, Collector, OutputShare, Share, VerifyTransition};
use prio::verif_hooks::prio2 as h4;
use prio::verif_hooks::prng::prng_take;
use pvh::engine::tape::{tape_alphabet, ScriptRng, Tape};
use pvh::engine::{catch, fnv, hex, par, splitmix, Level, Run};
use pvh::kit::vdafkit::{verify_report, Failure, Stage, VerifyOpts};
use serde_json::json;
use std::collections::{BTreeMap, HashSet};
use std::sync::Mutex;

type Sh = Share<FieldPrio2, 32>;

// ------------------------------------------------------------------------------------------------
// reference arithmetic: GF(p), p = 2^32 - 2^20 + 1, plain u64
const P: u64 = 4293918721;

fn mm(a: u64, b: u64) -> u64 {
    (a * b) % P
}
fn am(a: u64, b: u64) -> u64 {
    (a + b) % P
}
fn sm(a: u64, b: u64) -> u64 {
    (a + P - b) % P
}
fn pw(mut b: u64, mut e: u64) -> u64 {
    let mut r = 1u64;
    b %= P;
    while e > 0 {
        if e & 1 == 1 {
            r = mm(r, b);
        }
        b = mm(b, b);
        e >>= 1;
    }
    r
}
fn inv(a: u64) -> u64 {
    assert!(a % P != 0, "harness: inverse of zero");
    pw(a, P - 2)
}

/// The 2^l-th principal root of unity the library uses (a protocol constant: it fixes which points
/// the proof interpolates through); its defining properties are asserted here.
fn root(l: usize) -> u64 {
    let r = u32::from(FieldPrio2::root(l).expect("root")) as u64;
    assert_eq!(pw(r, 1u64 << l), 1, "root({l}) does not have order dividing 2^{l}");
    if l > 0 {
        assert_eq!(pw(r, 1u64 << (l - 1)), P - 1, "root({l}) is not primitive");
        let r1 = u32::from(FieldPrio2::root(l - 1).unwrap()) as u64;
        assert_eq!(mm(r, r), r1, "root({l})^2 != root({})", l - 1);
    }
    r
}

fn n_of(len: usize) -> usize {
    (len + 1).next_power_of_two()
}
fn proof_len(len: usize) -> usize {
    len + 3 + n_of(len)
}

/// Reference model of proof validity for one input length.
///
/// A combined (summed over both aggregators) share vector is (data[len], f0, g0, h0, hp[n]).
/// f interpolates (f0, data.., 0..) on the n-th roots w_n^i, g interpolates (g0, data-1.., 0..),
/// h interpolates on the 2n-th roots w^k: h0 at k=0, 0 at the other even k, hp[j] at k = 2j+1.
/// P = f*g - h has degree <= 2n-1, so P == 0 iff it vanishes at all 2n points w^k.
/// At even k = 2i this reads f_i * g_i == h_k directly; at odd k = 2j+1, rho = w^(2j+1):
///   f(rho) = sum_i f_i * L_i(rho),  L_i(x) = (x^n - 1) w_n^i / (n (x - w_n^i)),  rho^n = -1,
///   rho - w_n^i = w^(2i) (w^(2(j-i)+1) - 1)  =>  L_i(rho) = (-2/n) * u[(j - i) mod n],
///   u[m] = 1 / (w^(2m+1) - 1).
struct RefCtx {
    len: usize,
    n: usize,
    u: Vec<u64>,
    coef: u64,
}

impl RefCtx {
    fn new(len: usize) -> RefCtx {
        let n = n_of(len);
        let l = (2 * n).trailing_zeros() as usize;
        let w = root(l);
        let mut u = Vec::with_capacity(n);
        let w2 = mm(w, w);
        let mut x = w; // w^(2m+1)
        for _ in 0..n {
            u.push(inv(sm(x, 1)));
            x = mm(x, w2);
        }
        let coef = mm(P - 2, inv(n as u64 % P));
        RefCtx { len, n, u, coef }
    }

    fn at_odd(&self, j: usize, vals: &[u64]) -> u64 {
        // vals[i] = value at w_n^i for i in 0..=len (zero beyond)
        let n = self.n;
        let mut acc = 0u64;
        for (i, v) in vals.iter().enumerate() {
            if *v != 0 {
                acc = am(acc, mm(*v, self.u[(j + n - i) % n]));
            }
        }
        mm(acc, self.coef)
    }

    /// None if P == 0 (a perfectly valid proof of a 0/1 vector), else a witness root of unity.
    fn invalid_witness(&self, combined: &[u64], hint: Option<usize>) -> Option<String> {
        let len = self.len;
        let n = self.n;
        assert_eq!(combined.len(), proof_len(len), "harness: combined vector length");
        let (data, rest) = combined.split_at(len);
        let (f0, g0, h0) = (rest[0], rest[1], rest[2]);
        let hp = &rest[3..];
        assert_eq!(hp.len(), n);
        if mm(f0, g0) != h0 {
            return Some("k=0: f0*g0 != h0".into());
        }
        for (i, d) in data.iter().enumerate() {
            if mm(*d, sm(*d, 1)) != 0 {
                return Some(format!("k={}: data[{}]={} is not 0/1", 2 * (i + 1), i, d));
            }
        }
        let mut fv = Vec::with_capacity(len + 1);
        let mut gv = Vec::with_capacity(len + 1);
        fv.push(f0);
        gv.push(g0);
        for d in data {
            fv.push(*d);
            gv.push(sm(*d, 1));
        }
        let order: Vec<usize> = hint.into_iter().filter(|j| *j < n).chain(0..n).collect();
        for j in order {
            let fr = self.at_odd(j, &fv);
            let gr = self.at_odd(j, &gv);
            if mm(fr, gr) != hp[j] {
                return Some(format!("k={}: f*g != packed h point {}", 2 * j + 1, j));
            }
        }
        None
    }
}

// ------------------------------------------------------------------------------------------------
// plumbing

struct Cx<'a> {
    run: &'a Run,
    tapes: Vec<(String, Tape)>,
    /// panics reachable from Result-returning Prio2 calls on inputs C19 does not itself forbid
    /// (property C16's business; recorded, not flagged here)
    c16: Mutex<BTreeMap<String, String>>,
}

impl<'a> Cx<'a> {
    fn c16(&self, site: &str, msg: &str) {
        self.c16.lock().unwrap().entry(site.to_string()).or_insert_with(|| msg.to_string());
    }
}

fn new_vdaf(len: usize) -> Result<Prio2, String> {
    match catch(|| Prio2::new(len)) {
        Ok(Ok(v)) => Ok(v),
        Ok(Err(e)) => Err(format!("error: {e}")),
        Err(m) => Err(format!("PANIC: {m}")),
    }
}

/// Shard with BOTH random seeds of `Prio2::shard` fixed through the hooks (helper seed and the
/// seed of the client's proof randomness f0, g0), so sharding is deterministic. The verdicts below
/// are in addition independent of f0, g0 (they enter the reference as data).
fn shard_fixed(vdaf: &Prio2, meas: &Vec<u32>, seed: [u8; 32], nonce: &[u8; 16]) -> Result<(Sh, Sh), String> {
    h4::set_shard_helper_seed(Some(seed));
    let mut proof_seed = seed;
    for (i, b) in proof_seed.iter_mut().enumerate() {
        *b = b.wrapping_mul(31).wrapping_add(0xA5 ^ i as u8);
    }
    h4::set_shard_proof_seed(Some(proof_seed));
    let r = catch(|| vdaf.shard(b"c19", meas, nonce));
    h4::set_shard_helper_seed(None);
    h4::set_shard_proof_seed(None);
    match r {
        Ok(Ok(((), mut shares))) => {
            if shares.len() != 2 {
                return Err(format!("error: {} input shares", shares.len()));
            }
            let helper = shares.pop().unwrap();
            let leader = shares.pop().unwrap();
            let hb = helper.get_encoded().map_err(|e| format!("error: helper encode: {e}"))?;
            assert_eq!(hb, seed.to_vec(), "harness: helper seed hook did not take effect");
            Ok((leader, helper))
        }
        Ok(Err(e)) => Err(format!("error: {e}")),
        Err(m) => Err(format!("PANIC: {m}")),
    }
}

fn elems_of(bytes: &[u8]) -> Vec<u64> {
    assert!(bytes.len() % 4 == 0);
    bytes.chunks(4).map(|c| u32::from_le_bytes([c[0], c[1], c[2], c[3]]) as u64).collect()
}
fn bytes_of(elems: &[u64]) -> Vec<u8> {
    elems.iter().flat_map(|e| (*e as u32).to_le_bytes()).collect()
}

/// The helper's expanded share (input acquisition through the library's own Prng; the sampler is
/// C11's subject).
fn helper_expand(seed: &[u8], k: usize) -> Vec<u64> {
    assert_eq!(seed.len(), 32);
    let key: [u8; 16] = seed[..16].try_into().unwrap();
    let iv: [u8; 16] = seed[16..].try_into().unwrap();
    prng_take::<FieldPrio2, _>(SeedStreamAes128::new(&key, &iv), k).into_iter().map(|x| u32::from(x) as u64).collect()
}

fn combined_of(leader_bytes: &[u8], helper_seed: &[u8], len: usize) -> Vec<u64> {
    let l = elems_of(leader_bytes);
    assert_eq!(l.len(), proof_len(len), "harness: leader share length (checked by the caller)");
    let h = helper_expand(helper_seed, l.len());
    l.iter().zip(h.iter()).map(|(a, b)| am(*a, *b)).collect()
}

fn dec_share(vdaf: &Prio2, agg: usize, bytes: &[u8]) -> Result<Sh, String> {
    match catch(|| Sh::get_decoded_with_param(&(vdaf, agg), bytes)) {
        Ok(Ok(s)) => Ok(s),
        Ok(Err(e)) => Err(format!("error: {e}")),
        Err(m) => Err(format!("PANIC: {m}")),
    }
}

/// `m` distinct query points that are not 2n-th roots of unity (fixed menu, then seeded).
fn query_points(n: usize, m: usize, seed: u64) -> Vec<u32> {
    let two_n = 2 * n as u64;
    let mut seen = HashSet::new();
    let mut out = vec![];
    let menu = [0u64, 2, 3, 5, 7, 12313, 65537, P - 2, P - 3, (P + 1) / 2, 1 << 31, (1 << 31) + 1];
    let mut st = seed ^ 0x0c19_0000_0000 ^ (n as u64).wrapping_mul(0x9E37);
    let mut k = 0;
    while out.len() < m {
        let x = if k < menu.len() { menu[k] } else { (splitmix(&mut st) >> 11) % P };
        k += 1;
        if pw(x, two_n) != 1 && seen.insert(x) {
            out.push(x as u32);
        }
    }
    out
}

fn vinit(vdaf: &Prio2, r: u32, share: &Sh, leader: bool) -> Result<(Prio2VerifierState, Prio2VerifierShare), String> {
    match catch(|| vdaf.verify_init_with_query_rand(FieldPrio2::from(r), share, leader)) {
        Ok(Ok(x)) => Ok(x),
        Ok(Err(e)) => Err(format!("error: {e}")),
        Err(m) => Err(format!("PANIC: {m}")),
    }
}

fn decide(vdaf: &Prio2, a: Prio2VerifierShare, b: Prio2VerifierShare) -> Result<bool, String> {
    match catch(|| vdaf.verifier_shares_to_message(b"c19", &(), [a, b])) {
        Ok(Ok(())) => Ok(true),
        Ok(Err(_)) => Ok(false),
        Err(m) => Err(format!("PANIC: {m}")),
    }
}

fn finish(vdaf: &Prio2, st: Prio2VerifierState) -> Result<Vec<u64>, String> {
    match catch(|| vdaf.verify_next(b"c19", st, ())) {
        Ok(Ok(VerifyTransition::Finish(o))) => Ok(o.as_ref().iter().map(|x| u32::from(*x) as u64).collect()),
        Ok(Ok(VerifyTransition::Continue(..))) => Err("error: verify_next wants another round".into()),
        Ok(Err(e)) => Err(format!("error: {e}")),
        Err(m) => Err(format!("PANIC: {m}")),
    }
}

struct Tally {
    accepted: usize,
    first_accept: Option<u32>,
    first_reject: Option<u32>,
    /// verify_init_with_query_rand / verifier_shares_to_message misbehaviour (error on a
    /// well-formed share, panic): first message
    trouble: Option<String>,
}

/// Acceptance count of one (leader, helper) share pair over the query points, through the same
/// calls the real flow makes. `cached` holds the verifier shares of the side that did not change.
fn count_accepts(cx: &Cx, vdaf: &Prio2, pts: &[u32], leader: &Sh, helper: &Sh, cached_leader: Option<&[Prio2VerifierShare]>, cached_helper: Option<&[Prio2VerifierShare]>) -> Tally {
    let mut t = Tally { accepted: 0, first_accept: None, first_reject: None, trouble: None };
    cx.run.count("evaluations", pts.len() as u64);
    for (i, r) in pts.iter().enumerate() {
        let a = match cached_leader {
            Some(c) => Ok(c[i].clone()),
            None => vinit(vdaf, *r, leader, true).map(|x| x.1),
        };
        let b = match cached_helper {
            Some(c) => Ok(c[i].clone()),
            None => vinit(vdaf, *r, helper, false).map(|x| x.1),
        };
        let acc = match (a, b) {
            (Ok(a), Ok(b)) => match decide(vdaf, a, b) {
                Ok(x) => x,
                Err(m) => {
                    t.trouble.get_or_insert(format!("verifier_shares_to_message: {m}"));
                    false
                }
            },
            (Err(m), _) | (_, Err(m)) => {
                t.trouble.get_or_insert(format!("verify_init_with_query_rand: {m}"));
                false
            }
        };
        if acc {
            t.accepted += 1;
            t.first_accept.get_or_insert(*r);
        } else {
            t.first_reject.get_or_insert(*r);
        }
    }
    t
}

fn vshares(vdaf: &Prio2, pts: &[u32], share: &Sh, leader: bool) -> Result<Vec<Prio2VerifierShare>, String> {
    pts.iter().map(|r| vinit(vdaf, *r, share, leader).map(|x| x.1)).collect()
}

/// 0/1 vectors for one length: all of them up to `exh`, an edge menu beyond.
fn binary_vectors(len: usize, exh: usize, seed: u64, n_seeded: usize) -> Vec<(String, Vec<u32>)> {
    if len <= exh {
        return (0..(1u64 << len)).map(|i| (format!("bits{:x}", i), (0..len).map(|k| ((i >> k) & 1) as u32).collect())).collect();
    }
    let mut v: Vec<(String, Vec<u32>)> = vec![("all0".into(), vec![0; len]), ("all1".into(), vec![1; len])];
    for (nm, pos) in [("hot_first", 0), ("hot_last", len - 1), ("hot_mid", len / 2)] {
        let mut x = vec![0; len];
        x[pos] = 1;
        v.push((nm.into(), x));
    }
    v.push(("alt01".into(), (0..len).map(|k| (k & 1) as u32).collect()));
    v.push(("alt10".into(), (0..len).map(|k| ((k + 1) & 1) as u32).collect()));
    for s in 0..n_seeded {
        let mut st = seed ^ ((len as u64) << 20) ^ (s as u64 + 1).wrapping_mul(0xA5A5_5A5A);
        let mut w = 0u64;
        let x = (0..len)
            .map(|k| {
                if k % 64 == 0 {
                    w = splitmix(&mut st);
                }
                ((w >> (k % 64)) & 1) as u32
            })
            .collect();
        v.push((format!("seeded{s}"), x));
    }
    v
}

fn stage_name(s: &Stage) -> String {
    match s {
        Stage::DecodePublicShare => "decode_public_share".into(),
        Stage::DecodeInputShare(_) => "decode_input_share".into(),
        Stage::VerifyInit(_) => "verify_init".into(),
        Stage::CodecVerifyState(..) => "codec_state".into(),
        Stage::CodecVerifierShare(..) => "decode_verifier_share".into(),
        Stage::SharesToMessage(_) => "verifier_shares_to_message".into(),
        Stage::CodecVerifierMessage(..) => "decode_verifier_message".into(),
        Stage::VerifyNext(..) => "verify_next".into(),
        Stage::CodecOutputShare(_) => "codec_output".into(),
        Stage::Protocol(_) => "protocol".into(),
        Stage::Panic(w) => format!("PANIC:{w}"),
    }
}

/// Element-wise sum of output shares; a share of the wrong length yields a vector that cannot equal
/// any measurement (one extra entry), so the caller reports it as a wrong sum.
fn out_sum(outs: &[OutputShare<FieldPrio2>], len: usize) -> Vec<u64> {
    let mut s = vec![0u64; len];
    for o in outs {
        let e = o.as_ref();
        if e.len() != len {
            s.push(e.len() as u64);
            return s;
        }
        for (k, x) in e.iter().enumerate() {
            s[k] = am(s[k], u32::from(*x) as u64);
        }
    }
    s
}

// ------------------------------------------------------------------------------------------------
// (1) completeness and exact sums

fn completeness(cx: &Cx, len: usize, exh: usize, n_seeded: usize, full_product_upto: usize) {
    let run = cx.run;
    let vdaf = match new_vdaf(len) {
        Ok(v) => v,
        Err(m) => {
            run.fail(&format!("complete/len={len}/new"), &format!("Prio2::new({len}) failed for a length within the field's capacity (2n = {} <= 2^20): {m}", 2 * n_of(len)), json!({"len": len}));
            return;
        }
    };
    let vectors = binary_vectors(len, exh, run.seed, n_seeded);
    let nt = cx.tapes.len();
    // (vector index, out share leader, out share helper) of the first report of each vector
    let mut firsts: Vec<(usize, OutputShare<FieldPrio2>, OutputShare<FieldPrio2>)> = vec![];
    for (vi, (vname, meas)) in vectors.iter().enumerate() {
        for si in 0..nt {
            let combos: Vec<(usize, usize)> = if len <= full_product_upto {
                (0..nt).flat_map(|k| (0..nt).map(move |m| (k, m))).collect()
            } else {
                vec![((vi + si) % nt, (vi + 2 * si + 1) % nt), ((vi + si + 1) % nt, (vi + si + 2) % nt)]
            };
            let seed: [u8; 32] = cx.tapes[si].1.array(100 + vi as u64);
            let nonce0: [u8; 16] = cx.tapes[si].1.array(7);
            let key = format!("complete/len={len}");
            let case = |extra: serde_json::Value| json!({"len": len, "vector": vname, "measurement": if len <= 64 { json!(meas) } else { json!(null) }, "helper_seed": hex(&seed), "helper_seed_tape": cx.tapes[si].0, "extra": extra});
            let (leader, helper) = match shard_fixed(&vdaf, meas, seed, &nonce0) {
                Ok(x) => x,
                Err(m) => {
                    run.fail(&format!("{key}/shard"), &format!("len={len}: sharding the 0/1 vector {vname} failed: {m}"), case(json!(null)));
                    continue;
                }
            };
            for (ki, mi) in combos {
                let vk: [u8; 32] = cx.tapes[ki].1.array(200 + vi as u64);
                let nonce: [u8; 16] = cx.tapes[mi].1.array(300 + vi as u64);
                run.count("evaluations", 1);
                run.count("honest_reports", 1);
                let res = verify_report::<Prio2, 32>(&vdaf, &vk, b"c19", &(), &nonce, &(), &[leader.clone(), helper.clone()], &VerifyOpts::wire());
                match res {
                    Ok((outs, _tr)) => {
                        let sum = out_sum(&outs, len);
                        let want: Vec<u64> = meas.iter().map(|x| *x as u64).collect();
                        if outs.len() != 2 || sum != want {
                            run.fail(&format!("{key}/output_sum"), &format!("len={len}: output shares of the honest report {vname} sum to {:?}, not to the measurement", sum), case(json!({"verify_key": hex(&vk), "nonce": hex(&nonce)})));
                        } else if firsts.last().map(|f| f.0) != Some(vi) {
                            let mut it = outs.into_iter();
                            firsts.push((vi, it.next().unwrap(), it.next().unwrap()));
                        }
                        run.distinct(fnv(format!("1/{len}/{vi}/{si}/{ki}/{mi}").as_bytes()));
                    }
                    Err(Failure { stage, msg }) => {
                        run.fail(&format!("{key}/rejected"), &format!("len={len}: honest 0/1 report {vname} not accepted: stage {} : {msg}", stage_name(&stage)), case(json!({"verify_key": hex(&vk), "nonce": hex(&nonce), "key_tape": cx.tapes[ki].0, "nonce_tape": cx.tapes[mi].0})));
                    }
                }
            }
        }
    }
    // batches
    let m = firsts.len();
    let mut batches: Vec<Vec<usize>> = (0..m).map(|i| vec![i]).collect();
    if m <= 40 {
        for i in 0..m {
            for j in i..m {
                batches.push(vec![i, j]);
            }
        }
    } else {
        for i in 0..m {
            batches.push(vec![i, (i + 1) % m]);
            batches.push(vec![i, m - 1 - i]);
        }
    }
    batches.push((0..m).collect());
    batches.push(vec![]);
    for b in batches {
        run.count("evaluations", 1);
        run.count("batches", 1);
        let mut want = vec![0u64; len];
        for &i in &b {
            for (k, x) in vectors[firsts[i].0].1.iter().enumerate() {
                want[k] += *x as u64; // plain integers: at most 2^10 summands of 0/1, far below p
            }
        }
        let want: Vec<u32> = want.iter().map(|x| (*x % P) as u32).collect();
        let key = format!("complete/len={len}/batch_size={}", b.len());
        let case = json!({"len": len, "batch": b.iter().map(|i| vectors[firsts[*i].0].0.clone()).take(16).collect::<Vec<_>>(), "batch_size": b.len()});
        let mut aggs: Vec<AggregateShare<FieldPrio2>> = vec![];
        let mut ok = true;
        for side in 0..2 {
            let shares: Vec<OutputShare<FieldPrio2>> = b.iter().map(|i| if side == 0 { firsts[*i].1.clone() } else { firsts[*i].2.clone() }).collect();
            match catch(|| vdaf.aggregate(&(), shares)) {
                Ok(Ok(a)) => {
                    // aggregate share through the wire
                    let bytes = a.get_encoded().expect("harness: aggregate share encode");
                    match AggregateShare::<FieldPrio2>::get_decoded_with_param(&(&vdaf, &()), &bytes) {
                        Ok(a2) if a2 == a => aggs.push(a2),
                        Ok(_) => {
                            run.fail(&format!("{key}/agg_codec"), &format!("len={len}: aggregate share decodes to a different value"), case.clone());
                            ok = false;
                        }
                        Err(e) => {
                            run.fail(&format!("{key}/agg_codec"), &format!("len={len}: aggregate share does not decode: {e}"), case.clone());
                            ok = false;
                        }
                    }
                }
                Ok(Err(e)) => {
                    run.fail(&format!("{key}/aggregate"), &format!("len={len}: aggregate() of {} output shares failed: {e}", b.len()), case.clone());
                    ok = false;
                }
                Err(m) => {
                    run.fail(&format!("{key}/aggregate"), &format!("len={len}: aggregate() panicked: {m}"), case.clone());
                    ok = false;
                }
            }
        }
        if !ok {
            continue;
        }
        let nb = b.len();
        match catch(|| vdaf.unshard(&(), aggs, nb)) {
            Ok(Ok(got)) => {
                if got != want {
                    run.fail(&format!("{key}/sum"), &format!("len={len}: aggregate of {} reports is {:?}, element-wise integer sum is {:?}", nb, &got[..got.len().min(16)], &want[..want.len().min(16)]), case);
                }
            }
            Ok(Err(e)) => run.fail(&format!("{key}/unshard"), &format!("len={len}: unshard failed: {e}"), case),
            Err(m) => run.fail(&format!("{key}/unshard"), &format!("len={len}: unshard panicked: {m}"), case),
        }
    }
}

// ------------------------------------------------------------------------------------------------
// (2) + (3) robustness by pigeonhole

#[derive(Clone, Debug)]
enum Kind {
    /// non-binary value at each listed position, honest proof
    NonBinary(Vec<usize>),
    /// leader share elements +- {1, 2^31}
    TamperLeader(Vec<usize>),
    /// helper seed bytes, bit 0 / bit 7
    TamperHelper(Vec<usize>),
    /// multi-element forgeries: zeroed proof, zeroed h, proof of another vector spliced on
    Forged,
}

#[derive(Clone, Debug)]
struct Job {
    len: usize,
    base: usize,
    tape: usize,
    m: usize,
    kind: Kind,
}

fn elem_name(len: usize, e: usize) -> String {
    if e < len {
        format!("data[{e}]")
    } else if e == len {
        "f0".into()
    } else if e == len + 1 {
        "g0".into()
    } else if e == len + 2 {
        "h0".into()
    } else {
        format!("hpoint[{}]", e - len - 3)
    }
}

/// Judge one report expected to be invalid. Returns false if the check could not be applied.
#[allow(clippy::too_many_arguments)]
fn judge_invalid(cx: &Cx, vdaf: &Prio2, rc: &RefCtx, pts: &[u32], key: &str, what: &str, leader_bytes: &[u8], helper_bytes: &[u8], hint: Option<usize>, cached_leader: Option<&[Prio2VerifierShare]>, cached_helper: Option<&[Prio2VerifierShare]>, case: serde_json::Value) {
    let run = cx.run;
    let len = rc.len;
    let d = 2 * rc.n - 1;
    let leader = match dec_share(vdaf, 0, leader_bytes) {
        Ok(s) => s,
        Err(m) => {
            if m.starts_with("PANIC") {
                cx.c16(&format!("Share::decode(leader) len={len}"), &m);
            }
            run.count("tampered_undecodable", 1);
            return;
        }
    };
    let helper = match dec_share(vdaf, 1, helper_bytes) {
        Ok(s) => s,
        Err(m) => {
            if m.starts_with("PANIC") {
                cx.c16(&format!("Share::decode(helper) len={len}"), &m);
            }
            run.count("tampered_undecodable", 1);
            return;
        }
    };
    let combined = combined_of(leader_bytes, helper_bytes, len);
    let witness = rc.invalid_witness(&combined, hint);
    let t = count_accepts(cx, vdaf, pts, &leader, &helper, cached_leader, cached_helper);
    if let Some(m) = &t.trouble {
        if m.contains("PANIC") {
            cx.c16(&format!("verification of a well-formed but invalid report, len={len}"), m);
        }
        run.count("invalid_reports_with_errors_in_init", 1);
    }
    run.count("invalid_reports", 1);
    match witness {
        None => {
            // the altered report happens to be a perfect proof of a 0/1 vector (possible only for
            // degenerate client randomness, probability ~2^-32): nothing to demand
            run.count("altered_but_still_valid", 1);
        }
        Some(w) => {
            run.count("accepting_points_of_invalid_reports", t.accepted as u64);
            if t.accepted > d {
                run.fail(key, &format!("{what}: the report is invalid (f*g - h does not vanish at the root of unity {w}) yet it is accepted at {} of {} distinct query points that are not roots of unity; a non-zero polynomial of degree <= {d} allows at most {d} (first accepting point {:?})", t.accepted, pts.len(), t.first_accept), case);
            }
        }
    }
}

fn robustness_job(cx: &Cx, job: &Job, keys_for_count: usize) {
    let run = cx.run;
    let len = job.len;
    let vdaf = match new_vdaf(len) {
        Ok(v) => v,
        Err(_) => return, // reported by (1)
    };
    let n = n_of(len);
    let rc = RefCtx::new(len);
    let pts = query_points(n, job.m, run.seed);
    let bases = binary_vectors(len, 0, run.seed, 1);
    let bases: Vec<&(String, Vec<u32>)> = if len == 0 { vec![&bases[0]] } else { vec![&bases[bases.len() - 1], &bases[1], &bases[5 % bases.len()], &bases[0]] };
    let (bname, base) = bases[job.base % bases.len()];
    let (tname, tape) = &cx.tapes[job.tape % cx.tapes.len()];
    let seed: [u8; 32] = tape.array(400 + len as u64);
    let nonce: [u8; 16] = tape.array(401);
    let ident = format!("len={len}/base={bname}/seed={tname}");
    // honest baseline: must be a perfect proof and accepted at every point
    let (leader, helper) = match shard_fixed(&vdaf, base, seed, &nonce) {
        Ok(x) => x,
        Err(m) => {
            run.fail(&format!("robust/{ident}/baseline_shard"), &format!("len={len}: sharding 0/1 vector {bname} failed: {m}"), json!({"len": len, "measurement": base}));
            return;
        }
    };
    let lb = leader.get_encoded().expect("harness: leader encode");
    let hb = helper.get_encoded().expect("harness: helper encode");
    if lb.len() != 4 * proof_len(len) || hb.len() != 32 {
        run.fail(&format!("robust/{ident}/share_shape"), &format!("len={len}: the leader share has {} bytes and the helper share {} bytes; the packing data | f0 | g0 | h0 | n points of h gives {} and 32", lb.len(), hb.len(), 4 * proof_len(len)), json!({"len": len}));
        return;
    }
    let combined = combined_of(&lb, &hb, len);
    let base_witness = rc.invalid_witness(&combined, None);
    let t = count_accepts(cx, &vdaf, &pts, &leader, &helper, None, None);
    run.count("honest_reports_at_all_points", 1);
    if t.accepted != pts.len() {
        run.fail(&format!("robust/{ident}/baseline"), &format!("len={len}: honest report for the 0/1 vector {bname} rejected at {} of {} non-root query points (first: {:?}{}); reference says: {}", pts.len() - t.accepted, pts.len(), t.first_reject, t.trouble.as_ref().map(|m| format!("; {m}")).unwrap_or_default(), base_witness.clone().unwrap_or("proof identity holds at all roots".into())), json!({"len": len, "measurement": base, "helper_seed": hex(&seed), "first_rejecting_point": t.first_reject}));
        return;
    }
    if let Some(w) = base_witness {
        // accepted at > 2n-1 points although the reference finds P != 0: impossible
        panic!("harness: reference model finds the honest report invalid ({w}) but the library accepts it at {} > 2n-1 points (len={len})", pts.len());
    }
    // data shares of an accepted report add up to the measurement (first point only)
    {
        // (these calls just succeeded inside count_accepts; the library is deterministic here)
        let (s0, v0) = vinit(&vdaf, pts[0], &leader, true).expect("harness: baseline init no longer succeeds");
        let (s1, v1) = vinit(&vdaf, pts[0], &helper, false).expect("harness: baseline init no longer succeeds");
        assert_eq!(decide(&vdaf, v0, v1), Ok(true), "harness: baseline decision changed between calls");
        let o0 = finish(&vdaf, s0);
        let o1 = finish(&vdaf, s1);
        match (o0, o1) {
            (Ok(a), Ok(b)) => {
                let sum: Vec<u64> = a.iter().zip(b.iter()).map(|(x, y)| am(*x, *y)).collect();
                if sum != base.iter().map(|x| *x as u64).collect::<Vec<_>>() || a.len() != len {
                    run.fail(&format!("robust/{ident}/baseline_out"), &format!("len={len}: output shares after verify_init_with_query_rand do not add up to the measurement"), json!({"len": len, "measurement": base}));
                }
            }
            (Err(m), _) | (_, Err(m)) => run.fail(&format!("robust/{ident}/baseline_next"), &format!("len={len}: verify_next failed on an accepted honest report: {m}"), json!({"len": len, "measurement": base})),
        }
    }
    match &job.kind {
        Kind::NonBinary(positions) => {
            for &pos in positions {
                for bad in [2u32, 3, (P - 1) as u32, (P - 2) as u32] {
                    let mut meas = base.clone();
                    meas[pos] = bad;
                    let key = format!("robust/nonbinary/{ident}/chunk={}", positions[0]);
                    let case = json!({"len": len, "measurement": if len <= 40 { json!(meas) } else { json!(format!("{bname} with [{pos}]={bad}")) }, "helper_seed": hex(&seed), "position": pos, "value": bad});
                    match shard_fixed(&vdaf, &meas, seed, &nonce) {
                        Ok((l2, h2)) => {
                            run.count("nonbinary_sharded", 1);
                            let lb2 = l2.get_encoded().unwrap();
                            let hb2 = h2.get_encoded().unwrap();
                            if lb2.len() != lb.len() {
                                run.count("nonbinary_refused_by_client", 1);
                                continue;
                            }
                            judge_invalid(cx, &vdaf, &rc, &pts, &key, &format!("len={len}: non-binary entry {bad} at position {pos} of {bname}, honestly sharded"), &lb2, &hb2, None, None, None, case.clone());
                            // ordinary path, key alphabet: count only
                            for ki in 0..keys_for_count.min(cx.tapes.len()) {
                                let vk: [u8; 32] = cx.tapes[ki].1.array(500 + pos as u64);
                                let nn: [u8; 16] = cx.tapes[ki].1.array(501 + pos as u64);
                                run.count("evaluations", 1);
                                match verify_report::<Prio2, 32>(&vdaf, &vk, b"c19", &(), &nn, &(), &[l2.clone(), h2.clone()], &VerifyOpts::wire()) {
                                    Ok(_) => run.count("keyed_accepts_of_invalid_reports", 1),
                                    Err(Failure { stage: Stage::SharesToMessage(_), .. }) => run.count("keyed_rejects_of_invalid_reports", 1),
                                    Err(Failure { stage, msg }) => {
                                        if let Stage::Panic(w) = &stage {
                                            cx.c16(&format!("{w} on a non-binary report, len={len}"), &msg);
                                        }
                                        run.count("keyed_rejects_elsewhere", 1);
                                    }
                                }
                            }
                            run.distinct(fnv(format!("2/{ident}/{pos}/{bad}").as_bytes()));
                        }
                        Err(m) => {
                            // the client refusing a non-binary measurement is a legitimate rejection
                            if m.starts_with("PANIC") {
                                cx.c16(&format!("Prio2::shard non-binary measurement len={len}"), &m);
                            }
                            run.count("nonbinary_refused_by_client", 1);
                        }
                    }
                }
            }
        }
        Kind::TamperLeader(elems) => {
            let cache = vshares(&vdaf, &pts, &helper, false).expect("harness: helper verifier shares of the honest report");
            let el = elems_of(&lb);
            for &e in elems {
                for (dn, delta) in [("+1", 1u64), ("-1", P - 1), ("+2^31", 1 << 31), ("-2^31", P - (1 << 31))] {
                    let mut el2 = el.clone();
                    el2[e] = am(el2[e], delta);
                    let lb2 = bytes_of(&el2);
                    let key = format!("robust/tamper_leader/{ident}/chunk={}", elem_name(len, elems[0]));
                    let case = json!({"len": len, "measurement": if len <= 40 { json!(base) } else { json!(bname) }, "helper_seed": hex(&seed), "element": elem_name(len, e), "element_index": e, "delta": dn});
                    let hint = if e >= len + 3 { Some(e - len - 3) } else { None };
                    judge_invalid(cx, &vdaf, &rc, &pts, &key, &format!("len={len}: leader share element {} altered by {dn} after honest sharding of {bname}", elem_name(len, e)), &lb2, &hb, hint, None, Some(&cache), case);
                    run.distinct(fnv(format!("3/{ident}/{e}/{dn}").as_bytes()));
                }
            }
        }
        Kind::Forged => {
            let cache = vshares(&vdaf, &pts, &helper, false).expect("harness: helper verifier shares of the honest report");
            let hexp = helper_expand(&hb, proof_len(len));
            let mut targets: Vec<(String, Vec<u64>)> = vec![];
            let zero_proof = |data: &[u64]| -> Vec<u64> {
                let mut t = data.to_vec();
                t.resize(proof_len(len), 0);
                t
            };
            let data: Vec<u64> = combined[..len].to_vec();
            targets.push(("zero_proof".into(), zero_proof(&data)));
            let mut hz = combined.clone();
            for x in hz[len + 2..].iter_mut() {
                *x = 0;
            }
            targets.push(("zero_h".into(), hz));
            let mut hz = combined.clone();
            for x in hz[len + 3..].iter_mut() {
                *x = 0;
            }
            targets.push(("zero_hpoints".into(), hz));
            if len > 0 {
                for (pos, val) in [(0usize, 2u64), (len / 2, P - 1), (len - 1, 3)] {
                    let mut d = data.clone();
                    d[pos] = val;
                    targets.push((format!("zero_proof/data[{pos}]={val}"), zero_proof(&d)));
                    // non-binary data under the honest proof of the 0/1 vector
                    let mut t = combined.clone();
                    t[pos] = val;
                    targets.push((format!("honest_proof/data[{pos}]={val}"), t));
                }
                // proof of a neighbouring 0/1 vector (bit flipped) spliced onto this data
                for pos in [0usize, len - 1] {
                    let mut other = base.clone();
                    other[pos] ^= 1;
                    if let Ok((l2, h2)) = shard_fixed(&vdaf, &other, seed, &nonce) {
                        if l2.get_encoded().unwrap().len() != lb.len() {
                            continue;
                        }
                        let c2 = combined_of(&l2.get_encoded().unwrap(), &h2.get_encoded().unwrap(), len);
                        let mut t = c2.clone();
                        t[..len].copy_from_slice(&data);
                        targets.push((format!("proof_of_neighbour/bit={pos}"), t));
                        // and the neighbour's data with this proof's f0,g0,h0 but its own h points
                        let mut t = c2;
                        t[len..len + 3].copy_from_slice(&combined[len..len + 3]);
                        targets.push((format!("neighbour_with_foreign_zero_terms/bit={pos}"), t));
                    }
                }
            }
            if len == 1 {
                // hand-built proofs for n = 2 (no padding node): h' = f*g + c*x^3 for several c, in
                // particular c = d(d-1), which makes h' vanish at the data node x = -1 (the only
                // constraint the server imposes on the even-indexed points) while differing from f*g
                // only in the top coefficient
                let (f0, g0) = (combined[len], combined[len + 1]);
                let half = inv(2);
                let w = root(2);
                let ev = |h: &[u64; 4], x: u64| h.iter().rev().fold(0u64, |acc, c| am(mm(acc, x), *c));
                for d in [2u64, 3, 1000, P - 1, P - 2] {
                    let dm1 = sm(d, 1);
                    let (a0, a1) = (mm(am(f0, d), half), mm(sm(f0, d), half));
                    let (b0, b1) = (mm(am(g0, dm1), half), mm(sm(g0, dm1), half));
                    let fg = [mm(a0, b0), am(mm(a0, b1), mm(a1, b0)), mm(a1, b1), 0];
                    for (cn, c) in [("d(d-1)", mm(d, dm1)), ("-d(d-1)", sm(0, mm(d, dm1))), ("1", 1), ("d", d)] {
                        let mut h = fg;
                        h[3] = c;
                        let w3 = mm(w, mm(w, w));
                        targets.push((format!("top_coefficient/d={d},c={cn}"), vec![d, f0, g0, ev(&h, 1), ev(&h, w), ev(&h, w3)]));
                    }
                }
            }
            for (fname, target) in targets {
                let el2: Vec<u64> = target.iter().zip(hexp.iter()).map(|(t, h)| sm(*t, *h)).collect();
                let lb2 = bytes_of(&el2);
                let key = format!("robust/forged/{ident}/{}", fname.split('/').next().unwrap());
                let case = json!({"len": len, "measurement": if len <= 40 { json!(base) } else { json!(bname) }, "helper_seed": hex(&seed), "forgery": fname, "combined_share_vector": if len <= 16 { json!(target) } else { json!(null) }});
                judge_invalid(cx, &vdaf, &rc, &pts, &key, &format!("len={len}: forged leader share ({fname}) against the helper seed of an honest report for {bname}"), &lb2, &hb, None, None, Some(&cache), case);
                run.distinct(fnv(format!("3f/{ident}/{fname}").as_bytes()));
            }
        }
        Kind::TamperHelper(bytes) => {
            let cache = vshares(&vdaf, &pts, &leader, true).expect("harness: leader verifier shares of the honest report");
            for &byte in bytes {
                for bit in [0u8, 7] {
                    let mut hb2 = hb.clone();
                    hb2[byte] ^= 1 << bit;
                    let key = format!("robust/tamper_helper/{ident}/chunk={}", bytes[0]);
                    let case = json!({"len": len, "measurement": if len <= 40 { json!(base) } else { json!(bname) }, "helper_seed": hex(&seed), "seed_byte": byte, "bit": bit});
                    judge_invalid(cx, &vdaf, &rc, &pts, &key, &format!("len={len}: helper seed byte {byte} bit {bit} flipped after honest sharding of {bname}"), &lb, &hb2, None, Some(&cache), None, case);
                    run.distinct(fnv(format!("3h/{ident}/{byte}/{bit}").as_bytes()));
                }
            }
        }
    }
}

fn pick_positions(len: usize, all: bool) -> Vec<usize> {
    if len == 0 {
        return vec![];
    }
    if all {
        return (0..len).collect();
    }
    let n = n_of(len);
    let mut v = vec![0, 1, len / 2, n / 2 - 1, n / 2, len - 2, len - 1];
    v.retain(|x| *x < len);
    v.sort();
    v.dedup();
    v
}

fn pick_elems(len: usize, all: bool) -> Vec<usize> {
    let pl = proof_len(len);
    if all {
        return (0..pl).collect();
    }
    let n = n_of(len);
    let mut v = pick_positions(len, false);
    v.extend([len, len + 1, len + 2]);
    v.extend([0, 1, n / 2 - 1, n / 2, n - 2, n - 1].iter().map(|j| len + 3 + j));
    v.retain(|x| *x < pl);
    v.sort();
    v.dedup();
    v
}

// ------------------------------------------------------------------------------------------------
// (3b) verifier share / verifier message alterations through the wire hook

fn verifier_tamper(cx: &Cx, len: usize) {
    let run = cx.run;
    let Ok(vdaf) = new_vdaf(len) else { return };
    let vectors = binary_vectors(len, 0, run.seed, 1);
    let (vname, meas) = &vectors[vectors.len() - 1];
    let seed: [u8; 32] = cx.tapes[3 % cx.tapes.len()].1.array(600 + len as u64);
    let nonce0: [u8; 16] = cx.tapes[2].1.array(601);
    let Ok((leader, helper)) = shard_fixed(&vdaf, meas, seed, &nonce0) else { return };
    let want: Vec<u64> = meas.iter().map(|x| *x as u64).collect();
    // 8 keys: tape alphabet extended with seeded tapes
    let keys: Vec<([u8; 32], [u8; 16])> = (0..8u64).map(|k| (Tape::Seeded(run.seed.wrapping_mul(77).wrapping_add(k)).array(700 + len as u64), Tape::Seeded(run.seed.wrapping_mul(78).wrapping_add(k)).array(701))).collect();
    #[derive(Clone)]
    enum Alt {
        Elem(usize, usize, u64),    // aggregator, element (f_r, g_r, h_r), delta
        Byte(usize, usize, u8),     // aggregator, byte, xor mask
        Resize(usize, isize),       // aggregator, length change
        MessageExtra(u8),           // append a byte to the (empty) verifier message
    }
    let mut alts: Vec<(String, Alt)> = vec![];
    for agg in 0..2 {
        for e in 0..3 {
            for (dn, d) in [("+1", 1u64), ("-1", P - 1), ("+2^31", 1 << 31), ("-2^31", P - (1 << 31))] {
                alts.push((format!("agg={agg}/elem={}/delta={dn}", ["f_r", "g_r", "h_r"][e]), Alt::Elem(agg, e, d)));
            }
        }
        for b in 0..12 {
            for mask in [1u8, 0x80] {
                alts.push((format!("agg={agg}/byte={b}/xor={mask:#x}"), Alt::Byte(agg, b, mask)));
            }
        }
        for dl in [-4isize, -1, 1, 4] {
            alts.push((format!("agg={agg}/resize={dl}"), Alt::Resize(agg, dl)));
        }
    }
    alts.push(("message/extra=00".into(), Alt::MessageExtra(0)));
    alts.push(("message/extra=ff".into(), Alt::MessageExtra(0xff)));
    // only keys under which the unaltered report verifies (anything else is (1)'s finding)
    let keys: Vec<([u8; 32], [u8; 16])> = keys.into_iter().filter(|(vk, nonce)| verify_report::<Prio2, 32>(&vdaf, vk, b"c19", &(), nonce, &(), &[leader.clone(), helper.clone()], &VerifyOpts::wire()).is_ok()).collect();
    if keys.len() < 8 {
        run.count("vtamper_baselines_failed", (8 - keys.len()) as u64);
    }
    if keys.len() < 3 {
        return;
    }
    for (aname, alt) in alts {
        let mut accepted = 0u64;
        let mut acc_keys = vec![];
        for (ki, (vk, nonce)) in keys.iter().enumerate() {
            let changed = Mutex::new(false);
            let tam = |kind: &str, _round: usize, agg: usize, bytes: &[u8]| -> Option<Vec<u8>> {
                match (&alt, kind) {
                    (Alt::Elem(a, e, d), "verifier_share") if *a == agg => {
                        let mut el = elems_of(bytes);
                        el[*e] = am(el[*e], *d);
                        *changed.lock().unwrap() = true;
                        Some(bytes_of(&el))
                    }
                    (Alt::Byte(a, b, m), "verifier_share") if *a == agg => {
                        let mut v = bytes.to_vec();
                        v[*b] ^= *m;
                        *changed.lock().unwrap() = true;
                        Some(v)
                    }
                    (Alt::Resize(a, dl), "verifier_share") if *a == agg => {
                        let mut v = bytes.to_vec();
                        if *dl < 0 {
                            v.truncate(v.len() - (-*dl) as usize);
                        } else {
                            v.extend(std::iter::repeat(0).take(*dl as usize));
                        }
                        *changed.lock().unwrap() = true;
                        Some(v)
                    }
                    (Alt::MessageExtra(x), "verifier_message") => {
                        let mut v = bytes.to_vec();
                        v.push(*x);
                        *changed.lock().unwrap() = true;
                        Some(v)
                    }
                    _ => None,
                }
            };
            run.count("evaluations", 1);
            let res = verify_report::<Prio2, 32>(&vdaf, vk, b"c19", &(), nonce, &(), &[leader.clone(), helper.clone()], &VerifyOpts::tamper(&tam));
            assert!(*changed.lock().unwrap(), "harness: alteration {aname} was not applied");
            match res {
                Ok((outs, _)) => {
                    accepted += 1;
                    acc_keys.push(ki);
                    let sum = out_sum(&outs, len);
                    if sum != want {
                        run.fail(&format!("vtamper/len={len}/{aname}/outputs"), &format!("len={len}: after altering {aname} verification finished with output shares that do not sum to the 0/1 measurement"), json!({"len": len, "measurement": meas, "alteration": aname, "key_index": ki}));
                    }
                }
                Err(Failure { stage, msg }) => {
                    if let Stage::Panic(w) = &stage {
                        cx.c16(&format!("{w} after altering a verifier share/message ({aname}), len={len}"), &msg);
                    }
                    run.count(&format!("vtamper_rejected_at_{}", stage_name(&stage).replace(':', "_")), 1);
                }
            }
        }
        run.count("vtamper_alterations", 1);
        run.count("vtamper_accepting_keys", accepted);
        run.distinct(fnv(format!("3b/{len}/{aname}").as_bytes()));
        if accepted >= 3 {
            run.fail(&format!("vtamper/len={len}/{aname}"), &format!("len={len}: altered verifier share/message ({aname}) of an honest report for {vname} still verifies under {accepted} of {} verify keys (key indices {:?}); a single alteration passes only if g(r)=0, f(r)=0 or never", keys.len(), acc_keys), json!({"len": len, "measurement": meas, "helper_seed": hex(&seed), "alteration": aname, "accepting_keys": acc_keys}));
        }
    }
}

// ------------------------------------------------------------------------------------------------
// (4) codecs

/// decode(encode(v)) == v, canonical re-encoding, encoded_len, truncations/extensions rejected,
/// accepted element substitutions re-encode identically.
fn codec_check<T, Pm>(cx: &Cx, name: &str, len: usize, v: &T, param: &Pm, same: &dyn Fn(&T, &T) -> bool, elem_size: Option<usize>)
where
    T: Encode + ParameterizedDecode<Pm>,
{
    let run = cx.run;
    let key = format!("codec/{name}/len={len}");
    let case = json!({"type": name, "len": len});
    let bytes = match v.get_encoded() {
        Ok(b) => b,
        Err(e) => {
            run.fail(&format!("{key}/encode"), &format!("{name} (input length {len}) does not encode: {e}"), case);
            return;
        }
    };
    run.count("evaluations", 1);
    run.count("codec_values", 1);
    run.distinct(fnv(format!("4/{name}/{len}").as_bytes()));
    if v.encoded_len() != Some(bytes.len()) {
        run.fail(&format!("{key}/encoded_len"), &format!("{name} (input length {len}): encoded_len() = {:?} but {} bytes are produced", v.encoded_len(), bytes.len()), case.clone());
    }
    let dec = |b: &[u8]| -> Result<Result<T, String>, String> { catch(|| T::get_decoded_with_param(param, b).map_err(|e| e.to_string())) };
    match dec(&bytes) {
        Ok(Ok(d)) => {
            if !same(&d, v) {
                run.fail(&format!("{key}/roundtrip"), &format!("{name} (input length {len}): decode(encode(v)) != v"), case.clone());
            }
            if d.get_encoded().ok().as_ref() != Some(&bytes) {
                run.fail(&format!("{key}/reencode"), &format!("{name} (input length {len}): decode(encode(v)) re-encodes differently"), case.clone());
            }
        }
        Ok(Err(e)) => run.fail(&format!("{key}/roundtrip"), &format!("{name} (input length {len}): own encoding rejected: {e}"), case.clone()),
        Err(m) => run.fail(&format!("{key}/roundtrip"), &format!("{name} (input length {len}): decoding the own encoding panicked: {m}"), case.clone()),
    }
    // the value embedded in a larger record: decoded from a cursor that does not start at offset 0 (and with
    // other data after it), it must be the same value and the cursor must stop right behind it
    for (pre, post) in [(4usize, 0usize), (7, 3), (32, 1)] {
        let mut rec: Vec<u8> = (0..pre).map(|i| 0xA0 ^ i as u8).collect();
        rec.extend_from_slice(&bytes);
        rec.extend(std::iter::repeat(0x5C).take(post));
        let mut cur = std::io::Cursor::new(&rec[..]);
        cur.set_position(pre as u64);
        run.count("evaluations", 1);
        match catch(|| T::decode_with_param(param, &mut cur).map_err(|e| e.to_string())) {
            Ok(Ok(d)) => {
                if !same(&d, v) || d.get_encoded().ok().as_ref() != Some(&bytes) {
                    run.fail(&format!("{key}/embedded"), &format!("{name} (input length {len}): decoded from offset {pre} of a larger record, the value differs from the one that was encoded"), case.clone());
                } else if cur.position() as usize != pre + bytes.len() {
                    run.fail(&format!("{key}/embedded_cursor"), &format!("{name} (input length {len}): decoding from offset {pre} left the cursor at {} instead of {}", cur.position(), pre + bytes.len()), case.clone());
                }
            }
            Ok(Err(e)) => run.fail(&format!("{key}/embedded"), &format!("{name} (input length {len}): own encoding at offset {pre} of a larger record rejected: {e}"), case.clone()),
            Err(m) => run.fail(&format!("{key}/embedded"), &format!("{name} (input length {len}): decoding at offset {pre} of a larger record panicked: {m}"), case.clone()),
        }
    }
    // other lengths
    let l = bytes.len();
    let mut lens: Vec<usize> = (0..l.min(41)).collect();
    lens.extend(l.saturating_sub(9)..l);
    lens.extend(l + 1..l + 6);
    lens.sort();
    lens.dedup();
    for nl in lens {
        if nl == l {
            continue;
        }
        let mut b = bytes.clone();
        b.resize(nl, 0);
        run.count("evaluations", 1);
        match dec(&b) {
            Ok(Ok(_)) => run.fail(&format!("{key}/length"), &format!("{name} (input length {len}): a string of {nl} bytes is accepted, the encoding has {l} bytes"), json!({"type": name, "len": len, "bytes": nl})),
            Ok(Err(_)) => {}
            Err(m) => cx.c16(&format!("decode {name} from {nl} instead of {l} bytes, len={len}"), &m),
        }
    }
    // element substitutions: p-1 is canonical, p and 2^32-1 are not field elements
    if let Some(es) = elem_size {
        assert_eq!(es, 4);
        let ne = l / 4;
        let mut idx: Vec<usize> = (0..ne.min(12)).collect();
        idx.extend(ne.saturating_sub(4)..ne);
        idx.sort();
        idx.dedup();
        for e in idx {
            for val in [(P - 1) as u32, P as u32, u32::MAX] {
                let mut b = bytes.clone();
                b[4 * e..4 * e + 4].copy_from_slice(&val.to_le_bytes());
                run.count("evaluations", 1);
                match dec(&b) {
                    Ok(Ok(d)) => {
                        if d.get_encoded().ok().as_ref() != Some(&b) {
                            run.fail(&format!("{key}/noncanonical"), &format!("{name} (input length {len}): element {e} = {val} is accepted but the value re-encodes differently"), json!({"type": name, "len": len, "element": e, "value": val}));
                        }
                    }
                    Ok(Err(_)) => {
                        if (val as u64) < P {
                            run.fail(&format!("{key}/canonical_rejected"), &format!("{name} (input length {len}): canonical element {e} = p-1 rejected"), json!({"type": name, "len": len, "element": e}));
                        }
                    }
                    Err(m) => cx.c16(&format!("decode {name} with element {val}, len={len}"), &m),
                }
            }
        }
    }
}

fn codecs(cx: &Cx, len: usize) {
    let run = cx.run;
    let Ok(vdaf) = new_vdaf(len) else { return };
    let vectors = binary_vectors(len, 0, run.seed, 1);
    let (_, meas) = &vectors[vectors.len() - 1];
    for ti in 0..cx.tapes.len() {
        let seed: [u8; 32] = cx.tapes[ti].1.array(800 + len as u64);
        let nonce: [u8; 16] = cx.tapes[ti].1.array(801);
        let Ok((leader, helper)) = shard_fixed(&vdaf, meas, seed, &nonce) else { return };
        let eq_share = |a: &Sh, b: &Sh| a == b;
        codec_check(cx, "Share::Leader", len, &leader, &(&vdaf, 0usize), &eq_share, Some(4));
        codec_check(cx, "Share::Helper", len, &helper, &(&vdaf, 1usize), &eq_share, None);
        // an aggregator id outside {0,1} must be an error, never a panic or an acceptance
        for id in [2usize, usize::MAX] {
            match catch(|| Sh::get_decoded_with_param(&(&vdaf, id), &leader.get_encoded().unwrap())) {
                Ok(Ok(_)) => run.fail(&format!("codec/Share/len={len}/agg_id"), &format!("input share decoded for aggregator id {id} (Prio2 has two aggregators)"), json!({"len": len, "agg_id": id})),
                Ok(Err(_)) => {}
                Err(m) => cx.c16(&format!("Share decode with aggregator id {id}"), &m),
            }
        }
        // a leader-sized string offered to the helper and vice versa
        for (agg, b) in [(1usize, leader.get_encoded().unwrap()), (0usize, helper.get_encoded().unwrap())] {
            if let Ok(Ok(s)) = catch(|| Sh::get_decoded_with_param(&(&vdaf, agg), &b)) {
                if s.get_encoded().ok() != Some(b) {
                    run.fail(&format!("codec/Share/len={len}/cross_role"), "a share string of the other role is accepted and re-encodes differently", json!({"len": len, "agg": agg}));
                }
            }
        }
        let r = query_points(n_of(len), 1 + ti, run.seed)[ti];
        // failures of these calls on honest shares are (1)/(2)'s findings
        let (Ok((st0, vs0)), Ok((st1, vs1))) = (vinit(&vdaf, r, &leader, true), vinit(&vdaf, r, &helper, false)) else {
            run.count("codec_skipped_init_failed", 1);
            return;
        };
        let eq_state = |a: &Prio2VerifierState, b: &Prio2VerifierState| a == b;
        codec_check(cx, "Prio2VerifierState(leader)", len, &st0, &(&vdaf, 0usize), &eq_state, Some(4));
        codec_check(cx, "Prio2VerifierState(helper)", len, &st1, &(&vdaf, 1usize), &eq_state, None);
        let eq_vs = |a: &Prio2VerifierShare, b: &Prio2VerifierShare| a.get_encoded().ok() == b.get_encoded().ok();
        codec_check(cx, "Prio2VerifierShare(leader)", len, &vs0, &st0, &eq_vs, Some(4));
        codec_check(cx, "Prio2VerifierShare(helper)", len, &vs1, &st1, &eq_vs, Some(4));
        let (o0, o1) = match (catch(|| vdaf.verify_next(b"c19", st0.clone(), ())), catch(|| vdaf.verify_next(b"c19", st1.clone(), ()))) {
            (Ok(Ok(VerifyTransition::Finish(a))), Ok(Ok(VerifyTransition::Finish(b)))) => (a, b),
            _ => {
                run.count("codec_skipped_next_failed", 1);
                return;
            }
        };
        let eq_o = |a: &OutputShare<FieldPrio2>, b: &OutputShare<FieldPrio2>| a == b;
        codec_check(cx, "OutputShare(leader)", len, &o0, &(&vdaf, &()), &eq_o, Some(4));
        codec_check(cx, "OutputShare(helper)", len, &o1, &(&vdaf, &()), &eq_o, Some(4));
        let eq_a = |a: &AggregateShare<FieldPrio2>, b: &AggregateShare<FieldPrio2>| a == b;
        for (nm, outs) in [("AggregateShare(empty)", vec![]), ("AggregateShare(1)", vec![o0.clone()]), ("AggregateShare(3)", vec![o0.clone(), o1.clone(), o0.clone()])] {
            if let Ok(Ok(a)) = catch(|| vdaf.aggregate(&(), outs)) {
                codec_check(cx, nm, len, &a, &(&vdaf, &()), &eq_a, Some(4));
            }
        }
    }
}

// ------------------------------------------------------------------------------------------------
// (5) query point exclusion

/// Specification of the sampler: 4-byte little-endian chunks, values >= p discarded, then values
/// with x^(2n) = 1 discarded; the first survivor is the query point. Returns (value, chunk index).
fn ref_choose(stream: &[u8], two_n: u64) -> Option<(u32, usize)> {
    for (i, c) in stream.chunks_exact(4).enumerate() {
        let x = u32::from_le_bytes([c[0], c[1], c[2], c[3]]) as u64;
        if x >= P {
            continue;
        }
        if pw(x, two_n) == 1 {
            continue;
        }
        return Some((x as u32, i));
    }
    None
}

fn eval_point_case(cx: &Cx, vdaf: &Prio2, len: usize, name: &str, chunks: &[u32]) {
    let run = cx.run;
    let two_n = 2 * n_of(len) as u64;
    let script: Vec<u8> = chunks.iter().flat_map(|c| c.to_le_bytes()).collect();
    let (want, at) = ref_choose(&script, two_n).expect("harness: script must contain a survivor");
    run.count("evaluations", 1);
    run.count("query_point_streams", 1);
    run.distinct(fnv(format!("5/{len}/{:?}", chunks).as_bytes()));
    let key = format!("evalpoint/len={len}/{}", name.split('/').next().unwrap());
    let case = json!({"len": len, "two_n": two_n, "stream_chunks_le": chunks.iter().take(140).collect::<Vec<_>>(), "expected": want, "expected_chunk_index": at});
    match catch(|| h4::choose_eval_at(vdaf, ScriptRng::new(script.clone(), Tape::Const(0)))) {
        Ok(got) => {
            let g = u32::from(got) as u64;
            if pw(g, two_n) == 1 {
                run.fail(&key, &format!("len={len}: choose_eval_at returned {g}, a {two_n}-th root of unity (an interpolation node of the proof polynomials)"), case);
            } else if g != want as u64 {
                run.fail(&key, &format!("len={len}: choose_eval_at returned {g}; the first chunk of the stream that is a field element and not a {two_n}-th root of unity is {want} (chunk {at})"), case);
            }
        }
        Err(m) => run.fail(&key, &format!("len={len}: choose_eval_at panicked: {m}"), case),
    }
}

fn eval_points(cx: &Cx, len: usize) {
    let Ok(vdaf) = new_vdaf(len) else { return };
    let n = n_of(len);
    let two_n = 2 * n;
    let w = root(two_n.trailing_zeros() as usize);
    let roots: Vec<u32> = (0..two_n as u64).map(|j| pw(w, j) as u32).collect();
    {
        let set: HashSet<u32> = roots.iter().copied().collect();
        assert_eq!(set.len(), two_n, "harness: roots not distinct");
    }
    let terms: Vec<u32> = [0u64, 2, P - 2, 12313, (1 << 31) + 5].iter().filter(|t| pw(**t, two_n as u64) != 1).map(|t| *t as u32).collect();
    assert!(terms.len() >= 3);
    let big: [u32; 4] = [P as u32, (P + 1) as u32, u32::MAX, (P + 2) as u32];
    // (f) no root at all; (e) first of two non-roots
    for (ti, t) in terms.iter().enumerate() {
        eval_point_case(cx, &vdaf, len, &format!("plain/t={ti}"), &[*t, terms[(ti + 1) % terms.len()]]);
    }
    // (a) every single root, then a non-root (then another non-root that must not be returned)
    for (j, r) in roots.iter().enumerate() {
        for (ti, t) in terms.iter().enumerate() {
            eval_point_case(cx, &vdaf, len, &format!("single/j={j}/t={ti}"), &[*r, *t, terms[(ti + 1) % terms.len()]]);
        }
    }
    // (b) runs of k roots starting at every offset (small k), and runs crossing the 32-element buffer
    for k in [2usize, 3, 5, 31, 32, 33, 64, 65] {
        let offsets: Vec<usize> = if k <= 5 { (0..two_n).collect() } else { vec![0, 1, two_n / 2, two_n - 1] };
        for off in offsets {
            let mut c: Vec<u32> = (0..k).map(|i| roots[(off + i) % two_n]).collect();
            c.push(terms[(off + k) % terms.len()]);
            c.push(terms[(off + k + 1) % terms.len()]);
            eval_point_case(cx, &vdaf, len, &format!("run/k={k}/off={off}"), &c);
        }
    }
    // (c) all roots in order / reversed / odd ones only (the new interpolation nodes of h)
    let mut c: Vec<u32> = roots.clone();
    c.push(terms[0]);
    eval_point_case(cx, &vdaf, len, "all_roots", &c);
    let mut c: Vec<u32> = roots.iter().rev().copied().collect();
    c.push(terms[1]);
    eval_point_case(cx, &vdaf, len, "all_roots_rev", &c);
    let mut c: Vec<u32> = roots.iter().skip(1).step_by(2).copied().collect();
    c.push(terms[2]);
    eval_point_case(cx, &vdaf, len, "odd_roots", &c);
    // (d) values >= p interleaved with roots; survivor placed around the buffer boundary
    for (j, r) in roots.iter().enumerate() {
        let b = big[j % 4];
        eval_point_case(cx, &vdaf, len, &format!("rej_root/j={j}"), &[b, *r, big[(j + 1) % 4], *r, terms[j % terms.len()], terms[(j + 1) % terms.len()]]);
    }
    for total in [30usize, 31, 32, 33, 34, 63, 64, 65, 96, 97] {
        for pat in 0..3 {
            let mut c: Vec<u32> = (0..total)
                .map(|i| match pat {
                    0 => big[i % 4],
                    1 => {
                        if i % 2 == 0 {
                            big[i % 4]
                        } else {
                            roots[i % two_n]
                        }
                    }
                    _ => {
                        if i % 3 == 0 {
                            roots[(i * 7) % two_n]
                        } else {
                            big[i % 4]
                        }
                    }
                })
                .collect();
            c.push(terms[(total + pat) % terms.len()]);
            c.push(terms[(total + pat + 1) % terms.len()]);
            eval_point_case(cx, &vdaf, len, &format!("boundary/total={total}/pat={pat}"), &c);
        }
    }
    // tape alphabet as streams (ff tape = all chunks rejected, continued by a counter pattern)
    for (tn, tape) in &cx.tapes {
        for salt in 0..4u64 {
            let mut b = tape.bytes(900 + salt, 256);
            b.extend((0..1024usize).map(|i| (i as u8).wrapping_mul(37).wrapping_add(salt as u8)));
            let chunks: Vec<u32> = b.chunks_exact(4).map(|c| u32::from_le_bytes([c[0], c[1], c[2], c[3]])).collect();
            if ref_choose(&b, two_n as u64).is_some() {
                eval_point_case(cx, &vdaf, len, &format!("tape={tn}/salt={salt}"), &chunks);
            }
        }
    }
}

// ------------------------------------------------------------------------------------------------
// the field's capacity

fn capacity(cx: &Cx, thorough: bool) {
    let run = cx.run;
    let max = (1usize << 19) - 1;
    // constructor boundary
    run.count("evaluations", 2);
    if let Err(m) = new_vdaf(max) {
        run.fail("capacity/new/len=524287", &format!("Prio2::new(2^19-1) refused although 2n = 2^20 equals the order of the field's 2-power subgroup: {m}"), json!({"len": max}));
    }
    match new_vdaf(max + 1) {
        Ok(v) => {
            // accepted: then it has to work
            match shard_fixed(&v, &vec![0u32; max + 1], [0; 32], &[0; 16]) {
                Ok(_) => {}
                Err(m) => run.fail("capacity/new/len=524288", &format!("Prio2::new(2^19) succeeds (2n = 2^21 exceeds the field's capacity) but the instance cannot shard: {m}"), json!({"len": max + 1})),
            }
        }
        Err(m) => {
            if m.starts_with("PANIC") {
                cx.c16("Prio2::new(2^19)", &m);
            }
        }
    }
    for l in [usize::MAX, usize::MAX / 2, (1usize << 31) - 1, 1usize << 31, 1usize << 32] {
        if let Err(m) = new_vdaf(l) {
            if m.starts_with("PANIC") {
                cx.c16(&format!("Prio2::new({l})"), &m);
            }
        }
    }
    // the smallest length that needs a 2^20-point transform (n = 2^19): one honest report end to end
    {
        let len = 1usize << 18;
        run.count("evaluations", 1);
        match new_vdaf(len) {
            Err(m) => run.fail("capacity/len=2^18/new", &format!("Prio2::new(2^18) refused: {m}"), json!({"len": len})),
            Ok(v) => {
                let meas: Vec<u32> = (0..len).map(|i| ((i * 7 + 1) % 3 == 0) as u32).collect();
                let tape = &cx.tapes[2];
                match shard_fixed(&v, &meas, tape.1.array(1100), &tape.1.array(1101)) {
                    Err(m) => run.fail("capacity/len=2^18/shard", &format!("len=2^18 (needs a 2^20-point transform): sharding an honest 0/1 vector failed: {m}"), json!({"len": len})),
                    Ok((l, h)) => {
                        let nonce: [u8; 16] = tape.1.array(1101);
                        let vk: [u8; 32] = tape.1.array(1102);
                        match verify_report::<Prio2, 32>(&v, &vk, b"c19", &(), &nonce, &(), &[l, h], &VerifyOpts::wire()) {
                            Ok((outs, _)) => {
                                if out_sum(&outs, len) != meas.iter().map(|x| *x as u64).collect::<Vec<_>>() {
                                    run.fail("capacity/len=2^18/output_sum", "len=2^18: output shares do not sum to the measurement", json!({"len": len}));
                                }
                            }
                            Err(Failure { stage, msg }) => run.fail("capacity/len=2^18/rejected", &format!("len=2^18: honest report not accepted: {} : {msg}", stage_name(&stage)), json!({"len": len})),
                        }
                    }
                }
            }
        }
    }
    if !thorough {
        return;
    }
    let vdaf = match new_vdaf(max) {
        Ok(v) => v,
        Err(_) => return,
    };
    let vectors = binary_vectors(max, 0, run.seed, 1);
    let picks: Vec<usize> = vec![0, 1, 2, 5, 7]; // all0, all1, hot_first, alt01, seeded0
    let outs: Mutex<BTreeMap<usize, (OutputShare<FieldPrio2>, OutputShare<FieldPrio2>)>> = Mutex::new(BTreeMap::new());
    par::for_each(picks.len() as u64 + 2, |ix| {
        let ix = ix as usize;
        if ix < picks.len() {
            let (vname, meas) = &vectors[picks[ix]];
            let tape = &cx.tapes[ix % cx.tapes.len()];
            let seed: [u8; 32] = tape.1.array(1000);
            let nonce: [u8; 16] = tape.1.array(1001);
            let vk: [u8; 32] = tape.1.array(1002);
            let key = format!("capacity/len={max}/vec={vname}");
            let (l, h) = match shard_fixed(&vdaf, meas, seed, &nonce) {
                Ok(x) => x,
                Err(m) => {
                    run.fail(&format!("{key}/shard"), &format!("len=2^19-1: sharding {vname} failed: {m}"), json!({"len": max, "vector": vname}));
                    return;
                }
            };
            run.count("evaluations", 1);
            run.count("honest_reports", 1);
            match verify_report::<Prio2, 32>(&vdaf, &vk, b"c19", &(), &nonce, &(), &[l, h], &VerifyOpts::wire()) {
                Ok((o, _)) => {
                    let sum = out_sum(&o, max);
                    if sum != meas.iter().map(|x| *x as u64).collect::<Vec<_>>() {
                        run.fail(&format!("{key}/output_sum"), &format!("len=2^19-1: output shares of {vname} do not sum to the measurement"), json!({"len": max, "vector": vname}));
                    }
                    let mut it = o.into_iter();
                    outs.lock().unwrap().insert(ix, (it.next().unwrap(), it.next().unwrap()));
                    run.distinct(fnv(format!("cap/{ix}").as_bytes()));
                }
                Err(Failure { stage, msg }) => run.fail(&format!("{key}/rejected"), &format!("len=2^19-1: honest report {vname} not accepted: {} : {msg}", stage_name(&stage)), json!({"len": max, "vector": vname})),
            }
        } else {
            // one non-binary entry: with a single bad position P vanishes at 2n-1 of the 2n-th roots of
            // unity and has degree <= 2n-1, so all its roots are roots of unity: no other point
            // accepts. 2n+2 points are out of reach here, so only *systematic* acceptance is flagged.
            let pos = if ix == picks.len() { 0 } else { max - 1 };
            let mut meas = vectors[7].1.clone();
            meas[pos] = 2;
            let seed: [u8; 32] = cx.tapes[2].1.array(1003);
            let Ok((l, h)) = shard_fixed(&vdaf, &meas, seed, &[3; 16]) else { return };
            let pts = query_points(max + 1, 8, run.seed);
            let t = count_accepts(cx, &vdaf, &pts, &l, &h, None, None);
            run.count("invalid_reports", 1);
            run.count("accepting_points_of_invalid_reports", t.accepted as u64);
            if t.accepted >= 4 {
                run.fail(&format!("capacity/len={max}/nonbinary/pos={pos}"), &format!("len=2^19-1: measurement with entry 2 at position {pos} accepted at {} of 8 non-root query points", t.accepted), json!({"len": max, "position": pos, "value": 2}));
            }
            run.distinct(fnv(format!("cap/nb/{pos}").as_bytes()));
        }
    });
    let outs = outs.into_inner().unwrap();
    if outs.len() == picks.len() {
        let mut want = vec![0u64; max];
        for ix in 0..picks.len() {
            for (k, x) in vectors[picks[ix]].1.iter().enumerate() {
                want[k] += *x as u64;
            }
        }
        let want: Vec<u32> = want.iter().map(|x| *x as u32).collect();
        let a0 = catch(|| vdaf.aggregate(&(), outs.values().map(|o| o.0.clone())));
        let a1 = catch(|| vdaf.aggregate(&(), outs.values().map(|o| o.1.clone())));
        let (Ok(Ok(a0)), Ok(Ok(a1))) = (a0, a1) else {
            run.fail(&format!("capacity/len={max}/aggregate"), "len=2^19-1: aggregate() of 5 output shares failed", json!({"len": max}));
            return;
        };
        run.count("batches", 1);
        match catch(|| vdaf.unshard(&(), [a0, a1], picks.len())) {
            Ok(Ok(got)) if got == want => {}
            Ok(Ok(_)) => run.fail(&format!("capacity/len={max}/sum"), "len=2^19-1: aggregate of 5 reports differs from the element-wise sum", json!({"len": max})),
            Ok(Err(e)) => run.fail(&format!("capacity/len={max}/unshard"), &format!("unshard failed: {e}"), json!({"len": max})),
            Err(m) => run.fail(&format!("capacity/len={max}/unshard"), &format!("unshard panicked: {m}"), json!({"len": max})),
        }
    }
}

// ------------------------------------------------------------------------------------------------

fn main() {
    let run = Run::from_args("C19", Level::Exploration);
    let q = run.quick();
    run.rule("(1) lengths x 0/1 vectors (all for small lengths, edge menu beyond) x helper-seed tapes x key/nonce tapes through verify_report on the wire; singleton/pair/full batches vs integer sums. (2) each position x {2,3,p-1,p-2} on 0/1 base vectors, honest proof, judged at M > 2n-1 distinct non-root query points against the degree bound, after a harness-side reference established f*g-h != 0. (3) every leader share element +-{1,2^31}, every helper seed byte bit0/bit7, a menu of multi-element forgeries (zeroed proof, zeroed h, non-binary data under an honest proof, proof of a neighbouring vector), judged the same way; verifier share/message alterations under 8 keys. (4) encode/decode/length/truncation/extension/non-canonical elements of shares, states, verifier, output and aggregate shares. (5) choose_eval_at on scripted streams of roots of unity / values >= p vs the sampling rule. distinct = distinct (part, length, vector/alteration, tapes) cases that reached the verification code");
    run.assume("Prio2::shard draws f0,g0 from an OS-seeded generator that no hook reaches (only the helper seed is fixed): all verdicts are independent of f0,g0 (the pigeonhole bound holds for any f0,g0; degenerate draws that turn an altered report into a perfect proof are detected by the reference and not judged), but coverage counters of (3) can differ by such draws with probability ~2^-32 per case");
    run.assume("sums: batches contain at most 1024 reports of 0/1 entries, far below p = 4293918721, so the expected aggregate is the plain integer sum (wrap-around of aggregates is C13's subject)");
    run.assume("the helper's expanded share is obtained from the library's own AES-CTR sampler (C11 decides the sampler); the root-of-unity table is read from the library and its defining properties are asserted");
    run.assume("ordinary verify_init path (query point from HMAC(verify key, nonce)): acceptance of an invalid report has probability <= (2n-1)/(p-2n) per key and is only counted; the binding of the query point to key and nonce is C18's");
    let n_seeded_tapes = 1;
    let cx = Cx { run: &run, tapes: tape_alphabet(run.seed, n_seeded_tapes), c16: Mutex::new(BTreeMap::new()) };
    assert_eq!(cx.tapes.len(), 4);

    let mut lens: Vec<usize> = (0..=34).collect();
    lens.extend([63, 64, 65, 127, 128, 129]);
    if !q {
        lens.extend([255, 256, 257, 1023, 1024]);
    }
    let exh = run.pick(8, 10);

    // ---- (1)
    par::for_each(lens.len() as u64, |i| {
        // heavier lengths first
        let len = lens[lens.len() - 1 - i as usize];
        completeness(&cx, len, exh, run.pick(2, 4), 4);
    });
    eprintln!("[{:.1}s] (1) completeness and sums", run.elapsed());

    // ---- (2)+(3)
    let mut jobs: Vec<Job> = vec![];
    for &len in &lens {
        let n = n_of(len);
        let full_m = n <= run.pick(64, 256);
        let m = if full_m { 4 * n + 1 } else { 2 * n + 2 };
        let all = len <= run.pick(65, 129);
        let nbases = if len == 0 { 1 } else { run.pick(2, 3) };
        for base in 0..nbases {
            let tape = (base + len) % 4;
            let pos = pick_positions(len, all);
            // job granularity (load balance): fewer cases per job for the expensive lengths
            let (cp, ce, cb) = if n <= 64 { (8, 12, 32) } else if n <= 256 { (4, 6, 16) } else { (2, 3, 8) };
            for ch in pos.chunks(cp) {
                jobs.push(Job { len, base, tape, m, kind: Kind::NonBinary(ch.to_vec()) });
            }
            let el = pick_elems(len, all);
            for ch in el.chunks(ce) {
                jobs.push(Job { len, base, tape, m, kind: Kind::TamperLeader(ch.to_vec()) });
            }
            if base == 0 || !q {
                for ch in (0..32).collect::<Vec<usize>>().chunks(cb) {
                    jobs.push(Job { len, base, tape, m, kind: Kind::TamperHelper(ch.to_vec()) });
                }
            }
            jobs.push(Job { len, base, tape, m, kind: Kind::Forged });
        }
    }
    // heavier jobs first
    jobs.sort_by_key(|j| std::cmp::Reverse(j.len));
    run.note("robustness_jobs", json!(jobs.len()));
    par::for_each(jobs.len() as u64, |i| { let t0 = std::time::Instant::now(); robustness_job(&cx, &jobs[i as usize], 4); if std::env::var("C19_TIMING").is_ok() { eprintln!("job {} len={} {:?} {:.2}s at {:.1}", i, jobs[i as usize].len, std::mem::discriminant(&jobs[i as usize].kind), t0.elapsed().as_secs_f64(), run.elapsed()); } });
    eprintln!("[{:.1}s] (2)(3) pigeonhole robustness, {} jobs", run.elapsed(), jobs.len());

    // ---- (3b)
    let vt_lens: Vec<usize> = if q { vec![0, 1, 2, 3, 7, 8, 33, 64] } else { lens.iter().copied().filter(|l| *l <= 257).collect() };
    par::for_each(vt_lens.len() as u64, |i| verifier_tamper(&cx, vt_lens[i as usize]));
    eprintln!("[{:.1}s] (3b) verifier share/message alterations", run.elapsed());

    // ---- (4)
    par::for_each(lens.len() as u64, |i| codecs(&cx, lens[lens.len() - 1 - i as usize]));
    eprintln!("[{:.1}s] (4) codecs", run.elapsed());

    // ---- (5)
    let mut ep_lens: Vec<usize> = vec![];
    for k in 0..=6 {
        let n = 1usize << k;
        ep_lens.push(n - 1);
        if n >= 4 {
            ep_lens.push(n / 2);
        }
    }
    if !q {
        ep_lens.extend([127, 128, 255, 1023]);
    }
    par::for_each(ep_lens.len() as u64, |i| eval_points(&cx, ep_lens[ep_lens.len() - 1 - i as usize]));
    eprintln!("[{:.1}s] (5) query point exclusion", run.elapsed());

    // ---- capacity
    capacity(&cx, !q);
    eprintln!("[{:.1}s] capacity", run.elapsed());

    let c16 = cx.c16.lock().unwrap();
    for (site, msg) in c16.iter() {
        eprintln!("NOTE (for C16, not judged here): panic at {site}: {msg}");
    }
    run.note("panics_seen_for_c16", json!(c16.iter().map(|(k, v)| format!("{k}: {v}")).collect::<Vec<_>>()));
    run.note("lengths", json!(lens));
    run.note("exhaustive_vectors_up_to_length", json!(exh));
    run.note("pigeonhole_points", json!("M = 4n+1 for n <= 64 (quick) / 256 (thorough), else 2n+2; bound D = 2n-1"));
    run.sample(json!({"part": 1, "len": 5, "measurement": [1, 0, 1, 1, 0], "helper_seed_tape": "counter", "expect": "accepted by both aggregators through the wire; output shares sum to the measurement"}));
    run.sample(json!({"part": 2, "len": 5, "measurement": [1, 0, 2, 1, 0], "expect": "honest proof; f*g-h != 0 at w^6; accepted at <= 15 of 33 non-root points"}));
    run.sample(json!({"part": 3, "len": 3, "alteration": "leader share element hpoint[2] + 2^31", "expect": "accepted at <= 7 of 17 non-root points"}));
    run.sample(json!({"part": 5, "len": 3, "stream_chunks": ["w^3", "p+1", "w^5", "12313", "2"], "expect": "query point 12313"}));
    run.exhaustive(false);
    run.finish();
}
