//! C11 — seed streams are chunking-independent; field sampling follows the spec exactly.
//!
//! Engine: (1) explicit-state read-history graph on the real seed streams (state = bytes consumed,
//! action = `fill_bytes(n)` / `next_u32` / `next_u64`, every sequence of <= 3 actions, invariant =
//! the bytes returned are the corresponding slice of a fresh instance read in one call);
//! (2) every splitting of the domain-separation tag into <= 3 parts and of the binder into <= 3
//! `update` calls against the unsplit `Xof::seed_stream`, `into_seed` = stream prefix;
//! (3) scripted byte streams (a rejected / boundary chunk at every position, all pairs, runs across
//! the 32-element refill boundary, whole buffers of rejections, all GF(17) streams of length <= 6
//! over a 6-symbol alphabet) through `Prng` (`into_field_vec` / hook `prng_take`) and through the
//! unbuffered `generate_random` path (`IdpfValue::generate`, `Poplar1IdpfValue::generate`,
//! `StandardUniform`), reference = BigUint transcription of "successive element-sized chunks, clear
//! the bits above the modulus length, discard chunks >= p";
//! (4) `Prng::into_new_field` (hook `prng_switch`): reference = one contiguous walk over the byte
//! stream whose chunk size changes at the switch points.
use num_bigint::BigUint;
use num_traits::One;
use prio::codec::Encode;
use prio::field::verif::{FieldS61441, FieldV12289, FieldV17, FieldV257, FieldV97};
use prio::field::{Field128, Field255, Field64, FieldElement, FieldPrio2};
use prio::idpf::IdpfValue;
use prio::vdaf::poplar1::Poplar1IdpfValue;
use prio::vdaf::xof::{
    IntoFieldVec, SeedStreamAes128, SeedStreamFixedKeyAes128, SeedStreamTurboShake128, Xof,
    XofFixedKeyAes128, XofFixedKeyAes128Key, XofHmacSha256Aes128, XofTurboShake128,
};
use prio::verif_hooks::prng::{prng_switch, prng_take};
use pvh::engine::tape::{ScriptRng, Tape};
use pvh::engine::{catch, fnv, hex, par, Level, Run};
use pvh::kit::ints::KitField;
use rand::{Rng, RngExt};
use rand_core::TryRng;
use serde_json::{json, Value};
use std::collections::{BTreeMap, HashSet};
use std::convert::Infallible;
use std::sync::Mutex;

// ---------------------------------------------------------------------------------------------
// Deterministic failure collection: per key keep the case that is smallest in a fixed order, so
// that the reported counterexample does not depend on thread scheduling.
struct Fails(Mutex<BTreeMap<String, (Vec<u64>, String, Value)>>);

impl Fails {
    fn new() -> Self {
        Fails(Mutex::new(BTreeMap::new()))
    }
    fn offer(&self, key: &str, order: Vec<u64>, mk: impl FnOnce() -> (String, Value)) {
        let mut g = self.0.lock().unwrap();
        if let Some((o, _, _)) = g.get(key) {
            if *o <= order {
                return;
            }
        }
        let (w, c) = mk();
        g.insert(key.to_string(), (order, w, c));
    }
    fn flush(&self, run: &Run) {
        let mut g = self.0.lock().unwrap();
        for (k, (_, w, c)) in std::mem::take(&mut *g) {
            run.fail(&k, &w, c);
        }
    }
}

/// Per-worker tally (merged once per sweep, to keep the shared counters out of the hot loops).
#[derive(Default)]
struct Tally {
    evals: u64,
    hashes: Vec<u64>,
}
fn merge(run: &Run, tallies: Vec<Tally>, counter: &str) {
    for t in tallies {
        run.count("evaluations", t.evals);
        run.count(counter, t.evals);
        run.distinct_many(t.hashes);
    }
}

// ---------------------------------------------------------------------------------------------
// Seed streams under test.
#[derive(Clone, Copy, Debug, PartialEq, Eq)]
enum Kind {
    Turbo,
    FkTrait,
    FkKey,
    Hmac,
    Aes,
}
const KINDS: [Kind; 5] = [Kind::Turbo, Kind::FkTrait, Kind::FkKey, Kind::Hmac, Kind::Aes];

impl Kind {
    fn name(self) -> &'static str {
        match self {
            Kind::Turbo => "XofTurboShake128",
            Kind::FkTrait => "XofFixedKeyAes128(trait)",
            Kind::FkKey => "XofFixedKeyAes128Key.with_seed",
            Kind::Hmac => "XofHmacSha256Aes128",
            Kind::Aes => "SeedStreamAes128",
        }
    }
}

#[derive(Clone, Debug)]
struct Cfg {
    name: String,
    seed: [u8; 32],
    dst: Vec<u8>,
    binder: Vec<u8>,
}

enum AnyStream {
    T(SeedStreamTurboShake128),
    F(SeedStreamFixedKeyAes128),
    A(SeedStreamAes128),
}

// Pure delegation, so that the stream's own `next_u32` / `next_u64` / `fill_bytes` are what runs.
impl TryRng for AnyStream {
    type Error = Infallible;
    fn try_next_u32(&mut self) -> Result<u32, Infallible> {
        match self {
            AnyStream::T(s) => s.try_next_u32(),
            AnyStream::F(s) => s.try_next_u32(),
            AnyStream::A(s) => s.try_next_u32(),
        }
    }
    fn try_next_u64(&mut self) -> Result<u64, Infallible> {
        match self {
            AnyStream::T(s) => s.try_next_u64(),
            AnyStream::F(s) => s.try_next_u64(),
            AnyStream::A(s) => s.try_next_u64(),
        }
    }
    fn try_fill_bytes(&mut self, d: &mut [u8]) -> Result<(), Infallible> {
        match self {
            AnyStream::T(s) => s.try_fill_bytes(d),
            AnyStream::F(s) => s.try_fill_bytes(d),
            AnyStream::A(s) => s.try_fill_bytes(d),
        }
    }
}

fn seed16(cfg: &Cfg) -> [u8; 16] {
    cfg.seed[..16].try_into().unwrap()
}

fn open(kind: Kind, cfg: &Cfg) -> AnyStream {
    match kind {
        Kind::Turbo => AnyStream::T(XofTurboShake128::seed_stream(&cfg.seed, &[&cfg.dst], &[&cfg.binder])),
        Kind::FkTrait => AnyStream::F(XofFixedKeyAes128::seed_stream(&seed16(cfg), &[&cfg.dst], &[&cfg.binder])),
        Kind::FkKey => AnyStream::F(XofFixedKeyAes128Key::new(&[&cfg.dst], &cfg.binder).with_seed(&seed16(cfg))),
        Kind::Hmac => AnyStream::A(XofHmacSha256Aes128::seed_stream(&cfg.seed, &[&cfg.dst], &[&cfg.binder])),
        Kind::Aes => {
            let key: [u8; 16] = cfg.seed[..16].try_into().unwrap();
            let iv: [u8; 16] = cfg.seed[16..].try_into().unwrap();
            AnyStream::A(SeedStreamAes128::new(&key, &iv))
        }
    }
}

fn configs(run: &Run) -> Vec<Cfg> {
    let mut v = vec![
        Cfg {
            name: "counter".into(),
            seed: Tape::Counter.array::<32>(1),
            dst: vec![18, 0, 0, 0, 0, 1, 0, 1],
            binder: b"binder string".to_vec(),
        },
        Cfg { name: "empty".into(), seed: [0u8; 32], dst: vec![], binder: vec![] },
        Cfg {
            name: "seeded".into(),
            seed: Tape::Seeded(run.seed).array::<32>(11),
            dst: Tape::Seeded(run.seed).bytes(12, 23),
            binder: Tape::Seeded(run.seed).bytes(13, 40),
        },
        // all-0xff seed: for SeedStreamAes128 the CTR counter half of the IV starts at 2^64-1
        Cfg { name: "ff".into(), seed: [0xff; 32], dst: vec![0xff; 3], binder: vec![0xff; 17] },
    ];
    if run.quick() {
        v.truncate(3);
    }
    v
}

// ---------------------------------------------------------------------------------------------
// (1) read-history graph
#[derive(Clone, Copy, Debug, PartialEq, Eq, Hash)]
enum Act {
    Fill(usize),
    U32,
    U64,
}
impl Act {
    fn len(self) -> usize {
        match self {
            Act::Fill(n) => n,
            Act::U32 => 4,
            Act::U64 => 8,
        }
    }
    fn label(self) -> String {
        match self {
            Act::Fill(n) => format!("fill_bytes({n})"),
            Act::U32 => "next_u32".into(),
            Act::U64 => "next_u64".into(),
        }
    }
}

fn apply(s: &mut AnyStream, a: Act) -> Vec<u8> {
    match a {
        Act::Fill(n) => {
            // sentinel pattern: bytes the stream fails to write stay visible
            let mut b: Vec<u8> = (0..n).map(|i| 0xa5 ^ (i as u8)).collect();
            s.fill_bytes(&mut b);
            b
        }
        Act::U32 => s.next_u32().to_le_bytes().to_vec(),
        Act::U64 => s.next_u64().to_le_bytes().to_vec(),
    }
}

struct GraphAcc {
    states: HashSet<u32>,
    trans: HashSet<(u32, u16)>,
    evals: u64,
}

fn read_history(run: &Run, fails: &Fails, kind: Kind, ci: usize, cfg: &Cfg, acts: &[Act]) {
    let maxlen = acts.iter().map(|a| a.len()).max().unwrap();
    let ref_len = 3 * maxlen;
    let reference: Vec<u8> = {
        let mut s = open(kind, cfg);
        let mut b = vec![0u8; ref_len];
        s.fill_bytes(&mut b);
        b
    };
    {
        // determinism of the reference itself (a harness assumption, not a verdict)
        let mut s = open(kind, cfg);
        let mut b = vec![0u8; ref_len];
        s.fill_bytes(&mut b);
        assert_eq!(b, reference, "seed stream {} is not a function of its inputs", kind.name());
    }
    let na = acts.len() as u64;
    let key = format!("read/{}", kind.name());
    let accs = par::fold(
        na * na,
        4,
        || GraphAcc { states: HashSet::new(), trans: HashSet::new(), evals: 0 },
        |acc, idx| {
            let i1 = (idx / na) as usize;
            let i2 = (idx % na) as usize;
            acc.states.insert(0);
            for i3 in 0..acts.len() {
                let seq = [i1, i2, i3];
                let mut s = open(kind, cfg);
                let mut off = 0usize;
                for (depth, &ai) in seq.iter().enumerate() {
                    let a = acts[ai];
                    acc.trans.insert((off as u32, ai as u16));
                    acc.evals += 1;
                    let got = catch(|| apply(&mut s, a));
                    let want = &reference[off..off + a.len()];
                    let ok = matches!(&got, Ok(g) if g.as_slice() == want);
                    if !ok {
                        let order = vec![depth as u64, off as u64, a.len() as u64, ci as u64, i1 as u64, i2 as u64, i3 as u64];
                        fails.offer(&key, order, || {
                            let hist: Vec<String> = seq[..depth].iter().map(|&j| acts[j].label()).collect();
                            let gs = match &got {
                                Ok(g) => hex(g),
                                Err(m) => format!("panic: {m}"),
                            };
                            (
                                format!(
                                    "{} (config {}): after [{}] ({} bytes consumed) {} returned {} but bytes {}..{} of a fresh instance read in one call are {}",
                                    kind.name(), cfg.name, hist.join(", "), off, a.label(), gs, off, off + a.len(), hex(want)
                                ),
                                json!({"xof": kind.name(), "seed": hex(&cfg.seed), "dst": hex(&cfg.dst), "binder": hex(&cfg.binder),
                                       "history": hist, "offset": off, "action": a.label(), "got": gs, "expected": hex(want)}),
                            )
                        });
                        break;
                    }
                    off += a.len();
                    acc.states.insert(off as u32);
                }
            }
        },
    );
    let mut states: HashSet<u32> = HashSet::new();
    let mut trans: HashSet<(u32, u16)> = HashSet::new();
    let mut evals = 0;
    for a in accs {
        states.extend(a.states);
        trans.extend(a.trans);
        evals += a.evals;
    }
    run.count("states", states.len() as u64);
    run.count("transitions", trans.len() as u64);
    run.count("read_sequences", na * na * na);
    run.count("evaluations", evals);
    run.distinct_many(trans.iter().map(|(o, a)| fnv(format!("read/{}/{}/{o}/{a}", kind.name(), ci).as_bytes())));
}

// ---------------------------------------------------------------------------------------------
// (2) splitting independence
/// All ways of cutting `0..len` into <= 3 consecutive (possibly empty) parts; zero parts if len = 0.
fn splits(len: usize) -> Vec<Vec<(usize, usize)>> {
    let mut v = vec![];
    if len == 0 {
        v.push(vec![]);
    }
    v.push(vec![(0, len)]);
    for c in 0..=len {
        v.push(vec![(0, c), (c, len)]);
    }
    for c1 in 0..=len {
        for c2 in c1..=len {
            v.push(vec![(0, c1), (c1, c2), (c2, len)]);
        }
    }
    v
}

fn dst_pattern(len: usize) -> Vec<u8> {
    (0..len).map(|i| (i as u8).wrapping_mul(7).wrapping_add(1)).collect()
}
fn binder_pattern(len: usize) -> Vec<u8> {
    (0..len).map(|i| 0xa0u8.wrapping_add((i as u8).wrapping_mul(3))).collect()
}

fn read64<S: Rng>(mut s: S) -> [u8; 64] {
    let mut b = [0x5au8; 64];
    s.fill_bytes(&mut b);
    b
}

fn parts_of<'a>(data: &'a [u8], sp: &[(usize, usize)]) -> Vec<&'a [u8]> {
    sp.iter().map(|&(a, b)| &data[a..b]).collect()
}

fn split_check<X, const N: usize>(run: &Run, fails: &Fails, name: &str, cfgs: &[Cfg], plan: &[(usize, Vec<usize>)])
where
    X: Xof<N>,
{
    // work items: (cfg, plan entry, dst split)
    let mut items: Vec<(usize, usize, usize)> = vec![];
    let dsplits: Vec<Vec<Vec<(usize, usize)>>> = plan.iter().map(|(l, _)| splits(*l)).collect();
    for ci in 0..cfgs.len() {
        for (pi, ds) in dsplits.iter().enumerate() {
            for si in 0..ds.len() {
                items.push((ci, pi, si));
            }
        }
    }
    let max_b = plan.iter().flat_map(|(_, b)| b.iter().copied()).max().unwrap_or(0);
    let bsplits: Vec<Vec<Vec<(usize, usize)>>> = (0..=max_b).map(splits).collect();
    let fk = name.starts_with("XofFixedKeyAes128");
    let tallies = par::fold(items.len() as u64, 8, Tally::default, |acc, ix| {
        let (ci, pi, si) = items[ix as usize];
        let seed: [u8; N] = cfgs[ci].seed[..N].try_into().unwrap();
        let (dlen, blens) = &plan[pi];
        let dst = dst_pattern(*dlen);
        let dparts = parts_of(&dst, &dsplits[pi][si]);
        let mut evals = 0u64;
        let case = |blen: usize, bparts: &[&[u8]], got: String, want: String| {
            json!({"xof": name, "seed": hex(&seed), "dst": hex(&dst), "dst_parts": dparts.iter().map(|p| hex(p)).collect::<Vec<_>>(),
                   "binder": hex(&binder_pattern(blen)), "binder_parts": bparts.iter().map(|p| hex(p)).collect::<Vec<_>>(),
                   "got": got, "expected": want})
        };
        let x0 = match catch(|| X::init(&seed, &dparts)) {
            Ok(x) => x,
            Err(m) => {
                fails.offer(&format!("split/{name}/panic"), vec![*dlen as u64, 0, si as u64, 0, ci as u64], || {
                    (format!("{name}: init panicked for dst of {dlen} bytes in {} parts: {m}", dparts.len()), case(0, &[], m.clone(), "no panic".into()))
                });
                return;
            }
        };
        for &blen in blens {
            let binder = binder_pattern(blen);
            let want = read64(X::seed_stream(&seed, &[&dst], &[&binder]));
            for (bi, bs) in bsplits[blen].iter().enumerate() {
                let bparts = parts_of(&binder, bs);
                let order = vec![*dlen as u64, blen as u64, si as u64, bi as u64, ci as u64];
                let r = catch(|| {
                    let mut x = x0.clone();
                    for p in &bparts {
                        x.update(p);
                    }
                    let sd = x.clone().into_seed();
                    let st = read64(x.into_seed_stream());
                    let st2 = read64(X::seed_stream(&seed, &dparts, &bparts));
                    (sd, st, st2)
                });
                evals += 3;
                match r {
                    Err(m) => fails.offer(&format!("split/{name}/panic"), order, || {
                        (format!("{name}: panicked for dst {dlen} bytes / binder {blen} bytes: {m}"), case(blen, &bparts, m.clone(), "no panic".into()))
                    }),
                    Ok((sd, st, st2)) => {
                        let sdb: &[u8; N] = sd.as_ref();
                        if st != want {
                            fails.offer(&format!("split/{name}/stream"), order.clone(), || {
                                (
                                    format!("{name}: init(dst in {} parts)+update(binder in {} parts) gives a different stream than the unsplit dst ({dlen} bytes) / binder ({blen} bytes)", dparts.len(), bparts.len()),
                                    case(blen, &bparts, hex(&st), hex(&want)),
                                )
                            });
                        }
                        if st2 != want {
                            fails.offer(&format!("split/{name}/seed_stream_fn"), order.clone(), || {
                                (
                                    format!("{name}: seed_stream(dst in {} parts, binder in {} parts) differs from the unsplit call (dst {dlen} bytes, binder {blen} bytes)", dparts.len(), bparts.len()),
                                    case(blen, &bparts, hex(&st2), hex(&want)),
                                )
                            });
                        }
                        if sdb[..] != want[..N] {
                            fails.offer(&format!("split/{name}/into_seed"), order, || {
                                (
                                    format!("{name}: into_seed() is not the first {N} bytes of the seed stream (dst {dlen} bytes, binder {blen} bytes)"),
                                    case(blen, &bparts, hex(&sdb[..]), hex(&want[..N])),
                                )
                            });
                        }
                    }
                }
            }
            if fk {
                // the second construction of XofFixedKeyAes128: key from (dst parts, whole binder)
                let seed_a: [u8; 16] = seed[..16].try_into().unwrap();
                let mut seed_b = seed_a;
                seed_b[5] ^= 0x40;
                let order = vec![*dlen as u64, blen as u64, si as u64, 0, ci as u64];
                let r = catch(|| {
                    let k = XofFixedKeyAes128Key::new(&dparts, &binder);
                    // one key object serving two seeds = two independent constructions
                    let a = read64(k.with_seed(&seed_a));
                    let b = read64(k.with_seed(&seed_b));
                    let a2 = read64(k.with_seed(&seed_a));
                    (a, b, a2)
                });
                evals += 3;
                let want_b = read64(XofFixedKeyAes128::seed_stream(&seed_b, &[&dst], &[&binder]));
                match r {
                    Err(m) => fails.offer("split/XofFixedKeyAes128Key/panic", order, || {
                        (format!("XofFixedKeyAes128Key::new panicked for dst {dlen} bytes / binder {blen} bytes: {m}"), case(blen, &[&binder], m.clone(), "no panic".into()))
                    }),
                    Ok((a, b, a2)) => {
                        if a != want || a2 != want || b != want_b {
                            fails.offer("split/XofFixedKeyAes128Key/stream", order, || {
                                (
                                    format!("XofFixedKeyAes128Key::new(dst in {} parts, binder).with_seed(seed) differs from XofFixedKeyAes128::seed_stream(seed, [dst], [binder]) (dst {dlen} bytes, binder {blen} bytes)", dparts.len()),
                                    case(blen, &[&binder], format!("{} / {} / {}", hex(&a), hex(&a2), hex(&b)), format!("{} / same / {}", hex(&want), hex(&want_b))),
                                )
                            });
                        }
                    }
                }
            }
        }
        acc.evals += evals;
        acc.hashes.push(fnv(format!("split/{name}/{ci}/{pi}/{si}").as_bytes()));
    });
    merge(run, tallies, "split_cases");
}

/// Observation only (the property does not require it): does moving the dst/binder boundary inside
/// a fixed concatenation change the stream?
fn boundary_observation<X, const N: usize>(cfg: &Cfg) -> Value
where
    X: Xof<N>,
{
    let seed: [u8; N] = cfg.seed[..N].try_into().unwrap();
    let mut collisions = vec![];
    let mut pairs = 0u64;
    for total in 1..=6usize {
        let t: Vec<u8> = (0..total).map(|i| b'a' + i as u8).collect();
        let streams: Vec<[u8; 64]> = (0..=total).map(|i| read64(X::seed_stream(&seed, &[&t[..i]], &[&t[i..]]))).collect();
        for i in 0..=total {
            for j in i + 1..=total {
                pairs += 1;
                if streams[i] == streams[j] {
                    collisions.push(format!("len{total}:dst{i}/dst{j}"));
                }
            }
        }
    }
    json!({"pairs_compared": pairs, "all_distinct": collisions.is_empty(), "collisions": collisions})
}

// ---------------------------------------------------------------------------------------------
// (3)/(4) field sampling: reference model
trait SF: FieldElement + Send + Sync + 'static {
    const NAME: &'static str;
    /// The modulus, written down here (not taken from the library).
    const P_DEC: &'static str;
    /// Integer value, little-endian, padded to 32 bytes.
    fn repr(&self) -> [u8; 32];
    fn lib_modulus() -> Option<BigUint>;
    /// `StandardUniform` sampling where the field implements it.
    fn std_uniform(rng: &mut Capped<'_>) -> Option<Self>;
}

macro_rules! sf {
    ($t:ty, $name:expr, $p:expr) => {
        impl SF for $t {
            const NAME: &'static str = $name;
            const P_DEC: &'static str = $p;
            fn repr(&self) -> [u8; 32] {
                let mut o = [0u8; 32];
                o[..16].copy_from_slice(&KitField::val(*self).to_le_bytes());
                o
            }
            fn lib_modulus() -> Option<BigUint> {
                Some(BigUint::from(<$t as KitField>::p()))
            }
            fn std_uniform(rng: &mut Capped<'_>) -> Option<Self> {
                Some(rng.random::<$t>())
            }
        }
    };
}
sf!(FieldV17, "FieldV17", "17");
sf!(FieldV97, "FieldV97", "97");
sf!(FieldV257, "FieldV257", "257");
sf!(FieldV12289, "FieldV12289", "12289");
sf!(FieldS61441, "FieldS61441", "61441");
sf!(FieldPrio2, "FieldPrio2", "4293918721");
sf!(Field64, "Field64", "18446744069414584321");
sf!(Field128, "Field128", "340282366920938462946865773367900766209");

impl SF for Field255 {
    const NAME: &'static str = "Field255";
    const P_DEC: &'static str = "57896044618658097711785492504343953926634992332820282019728792003956564819949";
    fn repr(&self) -> [u8; 32] {
        let v = self.get_encoded().expect("Field255 encodes");
        v.as_slice().try_into().expect("Field255 encoding is 32 bytes")
    }
    fn lib_modulus() -> Option<BigUint> {
        None
    }
    fn std_uniform(_: &mut Capped<'_>) -> Option<Self> {
        None
    }
}

#[derive(Clone)]
struct FInfo {
    name: &'static str,
    p: BigUint,
    size: usize,
    bits: u64,
    mask: BigUint,
    /// number of bits of an encoded chunk that lie above the modulus length
    g: u64,
}

fn finfo<F: SF>() -> FInfo {
    let p: BigUint = F::P_DEC.parse().unwrap();
    if let Some(lp) = F::lib_modulus() {
        assert_eq!(lp, p, "{}: modulus table of the harness disagrees with the library", F::NAME);
    }
    let bits = p.bits();
    let size = F::ENCODED_SIZE;
    assert!(size as u64 * 8 >= bits && size <= 32);
    let mask = (BigUint::one() << bits) - BigUint::one();
    FInfo { name: F::NAME, p, size, bits, mask, g: size as u64 * 8 - bits }
}

fn le32(v: &BigUint) -> [u8; 32] {
    let b = v.to_bytes_le();
    assert!(b.len() <= 32);
    let mut o = [0u8; 32];
    o[..b.len()].copy_from_slice(&b);
    o
}

fn chunk_of(v: &BigUint, size: usize) -> Vec<u8> {
    let mut b = v.to_bytes_le();
    assert!(b.len() <= size, "value does not fit the encoded size");
    b.resize(size, 0);
    b
}

/// The specification procedure: one contiguous walk over the byte stream.
struct Walk<'a> {
    s: &'a [u8],
    pos: usize,
}
impl<'a> Walk<'a> {
    fn next(&mut self, f: &FInfo) -> [u8; 32] {
        loop {
            assert!(self.pos + f.size <= self.s.len(), "harness: reference stream too short ({} at byte {} of {})", f.name, self.pos, self.s.len());
            let chunk = &self.s[self.pos..self.pos + f.size];
            self.pos += f.size;
            let v = BigUint::from_bytes_le(chunk) & &f.mask;
            if v < f.p {
                return le32(&v);
            }
        }
    }
}

/// First `k` reference elements and the stream position after each.
fn ref_take(f: &FInfo, stream: &[u8], k: usize) -> (Vec<[u8; 32]>, Vec<usize>) {
    let mut w = Walk { s: stream, pos: 0 };
    let mut v = Vec::with_capacity(k);
    let mut ends = Vec::with_capacity(k);
    for _ in 0..k {
        v.push(w.next(f));
        ends.push(w.pos);
    }
    (v, ends)
}

/// Byte source handing out a pre-computed stream (script followed by filler, exactly what
/// `ScriptRng` delivers, see `full_stream`) without copying it, recording the size of every read.
/// The stream is finite: a sampler that does not terminate, or reads far beyond what the spec
/// procedure consumes, panics inside `catch` and is reported instead of hanging the check. Callers
/// assert that the stream extends at least one full look-ahead buffer beyond the reference's needs.
struct Capped<'a> {
    s: &'a [u8],
    pos: usize,
    reads: Vec<usize>,
    calls: usize,
}
impl<'a> Capped<'a> {
    fn new(stream: &'a [u8]) -> Self {
        Capped { s: stream, pos: 0, reads: Vec::with_capacity(192), calls: 0 }
    }
}
impl<'a> TryRng for Capped<'a> {
    type Error = Infallible;
    fn try_next_u32(&mut self) -> Result<u32, Infallible> {
        let mut b = [0u8; 4];
        self.try_fill_bytes(&mut b)?;
        Ok(u32::from_le_bytes(b))
    }
    fn try_next_u64(&mut self) -> Result<u64, Infallible> {
        let mut b = [0u8; 8];
        self.try_fill_bytes(&mut b)?;
        Ok(u64::from_le_bytes(b))
    }
    fn try_fill_bytes(&mut self, d: &mut [u8]) -> Result<(), Infallible> {
        self.calls += 1;
        if self.pos + d.len() > self.s.len() || self.calls > self.s.len() + 64 {
            panic!("byte source exhausted after {} bytes / {} reads (sampler does not terminate or over-reads)", self.s.len(), self.calls);
        }
        if self.reads.len() < 4096 {
            self.reads.push(d.len());
        }
        d.copy_from_slice(&self.s[self.pos..self.pos + d.len()]);
        self.pos += d.len();
        Ok(())
    }
}
/// Harness-side guarantee that the finite stream is long enough for a correct sampler: what the
/// reference consumes plus the largest look-ahead (`lookahead` bytes) the sampler may legitimately do.
fn assert_room(stream: &[u8], consumed: usize, lookahead: usize) {
    assert!(consumed + lookahead <= stream.len(), "harness: stream too short for look-ahead ({consumed}+{lookahead} > {})", stream.len());
}

/// `script` followed by the filler, as the scripted Rng will deliver it.
fn full_stream(script: &[u8], filler: &Tape, extra: usize) -> Vec<u8> {
    let mut r = ScriptRng::new(script.to_vec(), filler.clone());
    let mut b = vec![0u8; script.len() + extra];
    r.fill_bytes(&mut b);
    b
}

#[derive(Clone, Copy, Debug, PartialEq, Eq, Hash)]
enum Ck {
    RejP,     // p
    RejP1,    // p + 1
    RejMask,  // 2^bits - 1
    RejFF,    // all bytes 0xff
    RejPHi,   // p with every masked-off bit set
    AccPm1,   // p - 1
    Acc0,     // 0
    AccPm1Hi, // p - 1 with every masked-off bit set
    Acc0Hi,   // 0 with every masked-off bit set
}
const REJECTS: [Ck; 5] = [Ck::RejP, Ck::RejP1, Ck::RejMask, Ck::RejFF, Ck::RejPHi];
const SPECIALS: [Ck; 9] = [Ck::RejP, Ck::RejP1, Ck::RejMask, Ck::RejFF, Ck::RejPHi, Ck::AccPm1, Ck::Acc0, Ck::AccPm1Hi, Ck::Acc0Hi];

impl Ck {
    /// Representative of the kinds that coincide for this field (no masked-off bits).
    fn canon(self, f: &FInfo) -> Ck {
        if f.g > 0 {
            return self;
        }
        match self {
            Ck::RejMask => Ck::RejFF,
            Ck::RejPHi => Ck::RejP,
            Ck::AccPm1Hi => Ck::AccPm1,
            Ck::Acc0Hi => Ck::Acc0,
            o => o,
        }
    }
    fn bytes(self, f: &FInfo) -> Vec<u8> {
        let one = BigUint::one();
        let hi = ((BigUint::one() << f.g) - &one) << f.bits;
        let v = match self {
            Ck::RejP => f.p.clone(),
            Ck::RejP1 => &f.p + &one,
            Ck::RejMask => f.mask.clone(),
            Ck::RejFF => return vec![0xff; f.size],
            Ck::RejPHi => &f.p | &hi,
            Ck::AccPm1 => &f.p - &one,
            Ck::Acc0 => BigUint::from(0u8),
            Ck::AccPm1Hi => (&f.p - &one) | &hi,
            Ck::Acc0Hi => hi.clone(),
        };
        chunk_of(&v, f.size)
    }
}

/// Background chunk `pos`: an accepted value with distinct-ish bytes, plus (where the field has
/// masked-off bits) position-dependent garbage in them.
fn base_chunk(f: &FInfo, tape: &Tape, pos: usize) -> Vec<u8> {
    let raw = tape.bytes(pos as u64 * 37 + 5, f.size);
    let mut v = BigUint::from_bytes_le(&raw) & &f.mask;
    if v >= f.p {
        v -= &f.p;
    }
    if f.g > 0 {
        let garbage = BigUint::from((pos as u64).wrapping_mul(0x9e37) & ((1u64 << f.g.min(16)) - 1));
        v |= garbage << f.bits;
    }
    chunk_of(&v, f.size)
}

const NCH: usize = 192;

type Placement = (&'static str, Vec<(usize, Ck)>);

fn placements(quick: bool) -> Vec<Placement> {
    let mut v: Vec<Placement> = vec![("plain", vec![])];
    // one special chunk at every position
    for pos in 0..=70 {
        for ck in SPECIALS {
            v.push(("single", vec![(pos, ck)]));
        }
    }
    // pairs of rejected chunks
    let positions: Vec<usize> = if quick { (28..=36).chain(60..=68).collect() } else { (0..=70).collect() };
    let combos = [(Ck::RejP, Ck::RejP), (Ck::RejP1, Ck::RejFF), (Ck::RejFF, Ck::RejMask), (Ck::RejMask, Ck::RejPHi)];
    for (a, &i) in positions.iter().enumerate() {
        for &j in &positions[a + 1..] {
            for (c1, c2) in combos {
                v.push(("pair", vec![(i, c1), (j, c2)]));
            }
        }
    }
    // runs straddling the refill boundary
    let starts: Vec<usize> = if quick { vec![20, 27, 30, 31, 32, 33, 34] } else { (20..=34).collect() };
    let lens: Vec<usize> = if quick { vec![1, 2, 3, 7, 11, 12, 13, 30, 31, 32, 33, 40] } else { (1..=40).collect() };
    for &s in &starts {
        for &l in &lens {
            v.push(("run", (s..s + l).map(|p| (p, Ck::RejP)).collect()));
            v.push(("run", (s..s + l).map(|p| (p, REJECTS[p % REJECTS.len()])).collect()));
        }
    }
    // whole buffers of rejections
    for (s, l) in [(0usize, 31usize), (0, 32), (0, 33), (0, 63), (0, 64), (0, 65), (32, 32), (1, 32), (31, 34)] {
        v.push(("buffer", (s..s + l).map(|p| (p, Ck::RejFF)).collect()));
        v.push(("buffer", (s..s + l).map(|p| (p, REJECTS[(p + 1) % REJECTS.len()])).collect()));
    }
    // accepted boundary values everywhere
    let acc = [Ck::AccPm1, Ck::Acc0, Ck::AccPm1Hi, Ck::Acc0Hi];
    v.push(("accmix", (0..NCH).map(|p| (p, acc[p % 4])).collect()));
    v.push(("accmix", (0..NCH).map(|p| (p, acc[(p / 3) % 4])).collect()));
    v
}

fn first_diff(got: &[[u8; 32]], want: &[[u8; 32]]) -> Option<usize> {
    if got.len() != want.len() {
        return Some(got.len().min(want.len()));
    }
    (0..got.len()).find(|&i| got[i] != want[i])
}

fn show(f: &FInfo, v: Option<&[u8; 32]>) -> String {
    match v {
        Some(b) => BigUint::from_bytes_le(&b[..]).to_string(),
        None => format!("<missing> ({})", f.name),
    }
}

/// Report a sampling mismatch.
#[allow(clippy::too_many_arguments)]
fn offer_sample(fails: &Fails, key: &str, order: Vec<u64>, f: &FInfo, path: &str, stream: &[u8], k: usize, got: &[[u8; 32]], want: &[[u8; 32]], what: &str) {
    fails.offer(key, order, || {
        let i = first_diff(got, want).unwrap_or(0);
        // the part of the stream the reference needed
        let shown = &stream[..stream.len().min((want.len() + 80) * f.size)];
        (
            format!(
                "{}: {path} of {k} elements {what}: element {i} is {} but the spec procedure (chunks of {} bytes, mask 2^{}-1, discard >= p) gives {} (got {} elements, expected {})",
                f.name, show(f, got.get(i)), f.size, f.bits, show(f, want.get(i)), got.len(), want.len()
            ),
            json!({"field": f.name, "path": path, "k": k, "stream_hex": hex(shown), "chunk_size": f.size, "first_diff_index": i,
                   "got": got.iter().map(|b| BigUint::from_bytes_le(&b[..]).to_string()).collect::<Vec<_>>(),
                   "expected": want.iter().map(|b| BigUint::from_bytes_le(&b[..]).to_string()).collect::<Vec<_>>()}),
        )
    });
}

/// Buffered path on one scripted stream, every k in `ks`.
fn check_buffered<F: SF>(fails: &Fails, f: &FInfo, class: &str, order0: &[u64], script: &[u8], filler: &Tape, ks: &[usize]) -> u64 {
    let kmax = *ks.iter().max().unwrap();
    let stream = full_stream(script, filler, (kmax + 128) * f.size);
    let (want, ends) = ref_take(f, &stream, kmax);
    assert_room(&stream, ends.last().copied().unwrap_or(0), 33 * f.size);
    let mut evals = 0;
    for &k in ks {
        let mut order = order0.to_vec();
        order.push(k as u64);
        let r = catch(|| prng_take::<F, _>(Capped::new(&stream), k));
        evals += 1;
        match r {
            Ok(v) => {
                let got: Vec<[u8; 32]> = v.iter().map(|x| x.repr()).collect();
                if got.as_slice() != &want[..k] {
                    offer_sample(fails, &format!("sample/{}/prng/{class}", f.name), order, f, "Prng (prng_take)", &stream, k, &got, &want[..k], "deviates");
                }
            }
            Err(m) => fails.offer(&format!("sample/{}/prng/{class}/panic", f.name), order, || {
                (format!("{}: Prng panicked taking {k} elements: {m}", f.name), json!({"field": f.name, "k": k, "stream_hex": hex(script)}))
            }),
        }
    }
    // the public entry point, once per stream
    let r = catch(|| Capped::new(&stream).into_field_vec::<F>(kmax));
    evals += 1;
    let mut order = order0.to_vec();
    order.push(kmax as u64);
    match r {
        Ok(v) => {
            let got: Vec<[u8; 32]> = v.iter().map(|x| x.repr()).collect();
            if got != want {
                offer_sample(fails, &format!("sample/{}/into_field_vec/{class}", f.name), order, f, "into_field_vec", &stream, kmax, &got, &want, "deviates");
            }
        }
        Err(m) => fails.offer(&format!("sample/{}/into_field_vec/{class}/panic", f.name), order, || {
            (format!("{}: into_field_vec panicked: {m}", f.name), json!({"field": f.name, "stream_hex": hex(script)}))
        }),
    }
    evals
}

/// Unbuffered path (`generate_random`) on one scripted stream: `k` successive draws.
fn check_unbuffered<F: SF>(fails: &Fails, f: &FInfo, class: &str, order0: &[u64], script: &[u8], filler: &Tape, k: usize) -> u64 {
    let stream = full_stream(script, filler, (k + 128) * f.size);
    let (want, ends) = ref_take(f, &stream, k);
    assert_room(&stream, ends.last().copied().unwrap_or(0), 33 * f.size);
    let mut evals = 0;
    let order = order0.to_vec();
    // what the byte source must have seen: element-sized reads only, nothing beyond the last chunk used
    let reads_ok = |rng: &Capped, n: usize| -> Result<(), String> {
        let end = if n == 0 { 0 } else { ends[n - 1] };
        if let Some(bad) = rng.reads.iter().find(|&&r| r != f.size) {
            return Err(format!("a read of {bad} bytes was issued (element size {})", f.size));
        }
        if rng.pos != end {
            return Err(format!("{} bytes were consumed but the spec procedure consumes {end}", rng.pos));
        }
        Ok(())
    };
    let reads_fail = |path: &str, msg: String| {
        fails.offer(&format!("sample/{}/{path}/{class}/reads", f.name), order.clone(), || {
            (
                format!("{}: {path} for {k} elements: {msg}", f.name),
                json!({"field": f.name, "path": path, "k": k, "stream_hex": hex(&stream[..stream.len().min((k + 80) * f.size)])}),
            )
        })
    };
    // IdpfValue::generate for F
    {
        let mut rng = Capped::new(&stream);
        let r = catch(|| (0..k).map(|_| <F as IdpfValue>::generate(&mut rng, &()).repr()).collect::<Vec<_>>());
        evals += 1;
        match r {
            Ok(got) => {
                if got != want {
                    offer_sample(fails, &format!("sample/{}/idpf_generate/{class}", f.name), order.clone(), f, "IdpfValue::generate", &stream, k, &got, &want, "deviates");
                } else if let Err(m) = reads_ok(&rng, k) {
                    reads_fail("idpf_generate", m);
                }
            }
            Err(m) => reads_fail("idpf_generate", format!("panicked: {m}")),
        }
    }
    // Poplar1IdpfValue::generate: pairs
    {
        let mut rng = Capped::new(&stream);
        let np = k / 2;
        let r = catch(|| {
            let mut out: Vec<[u8; 32]> = vec![];
            for _ in 0..np {
                let v = Poplar1IdpfValue::<F>::generate(&mut rng, &());
                let enc = v.get_encoded().expect("Poplar1IdpfValue encodes");
                assert_eq!(enc.len(), 2 * f.size, "harness: unexpected Poplar1IdpfValue encoding length");
                for half in enc.chunks(f.size) {
                    let mut o = [0u8; 32];
                    o[..f.size].copy_from_slice(half);
                    out.push(o);
                }
            }
            out
        });
        evals += 1;
        match r {
            Ok(got) => {
                if got.as_slice() != &want[..2 * np] {
                    offer_sample(fails, &format!("sample/{}/poplar1_generate/{class}", f.name), order.clone(), f, "Poplar1IdpfValue::generate", &stream, 2 * np, &got, &want[..2 * np], "deviates");
                } else if let Err(m) = reads_ok(&rng, 2 * np) {
                    reads_fail("poplar1_generate", m);
                }
            }
            Err(m) => reads_fail("poplar1_generate", format!("panicked: {m}")),
        }
    }
    // StandardUniform
    {
        let mut rng = Capped::new(&stream);
        let r = catch(|| {
            let mut out = vec![];
            for _ in 0..k {
                match F::std_uniform(&mut rng) {
                    Some(x) => out.push(x.repr()),
                    None => return None,
                }
            }
            Some(out)
        });
        match r {
            Ok(Some(got)) => {
                evals += 1;
                if got != want {
                    offer_sample(fails, &format!("sample/{}/standard_uniform/{class}", f.name), order.clone(), f, "StandardUniform", &stream, k, &got, &want, "deviates");
                } else if let Err(m) = reads_ok(&rng, k) {
                    reads_fail("standard_uniform", m);
                }
            }
            Ok(None) => {}
            Err(m) => reads_fail("standard_uniform", format!("panicked: {m}")),
        }
    }
    evals
}

fn sampling<F: SF>(run: &Run, fails: &Fails, pl: &[Placement]) {
    let f = finfo::<F>();
    // the kinds really are what their names say (harness self-check)
    for ck in SPECIALS {
        let b = ck.bytes(&f);
        let v = BigUint::from_bytes_le(&b) & &f.mask;
        let rejected = v >= f.p;
        assert_eq!(rejected, REJECTS.contains(&ck), "{} {:?}", f.name, ck);
    }
    let tapes = [Tape::Counter, Tape::Seeded(run.seed)];
    let bases: Vec<Vec<Vec<u8>>> = tapes.iter().map(|t| (0..NCH).map(|p| base_chunk(&f, t, p)).collect()).collect();
    let spec: BTreeMap<u8, Vec<u8>> = SPECIALS.iter().map(|c| (*c as u8, c.bytes(&f))).collect();
    // canonical, de-duplicated placements for this field
    let mut seen = HashSet::new();
    let mut list: Vec<(usize, &'static str, Vec<(usize, Ck)>)> = vec![];
    for (i, (class, p)) in pl.iter().enumerate() {
        let c: Vec<(usize, Ck)> = p.iter().map(|&(pos, ck)| (pos, ck.canon(&f))).collect();
        if seen.insert(c.clone()) {
            list.push((i, class, c));
        }
    }
    let ks: Vec<usize> = (0..=70).collect();
    let n = (list.len() * tapes.len()) as u64;
    let tallies = par::fold(n, 4, Tally::default, |acc, ix| {
        let (pi, class, p) = &list[ix as usize / tapes.len()];
        let ti = ix as usize % tapes.len();
        let mut chunks: Vec<&[u8]> = bases[ti].iter().map(|c| c.as_slice()).collect();
        for (pos, ck) in p {
            chunks[*pos] = spec[&(*ck as u8)].as_slice();
        }
        let script: Vec<u8> = chunks.concat();
        let order0 = [p.len() as u64, *pi as u64, ti as u64];
        let mut evals = check_buffered::<F>(fails, &f, class, &order0, &script, &Tape::Counter, &ks);
        evals += check_unbuffered::<F>(fails, &f, class, &order0, &script, &Tape::Counter, 70);
        acc.evals += evals;
        acc.hashes.push(fnv(format!("sample/{}/{pi}/{ti}", f.name).as_bytes()));
    });
    merge(run, tallies, "sampling_runs");
    run.count("sampling_streams", n);
    fails.flush(run);
}

/// GF(17): every stream of length <= 6 over the alphabet (followed by a constant accepted filler).
fn gf17_exhaustive(run: &Run, fails: &Fails) {
    let f = finfo::<FieldV17>();
    let alphabet: [u8; 6] = [0, 16, 17, 31, 32, 255];
    let ks: Vec<usize> = if run.quick() { (0..=9).chain([31, 32, 33, 70]).collect() } else { (0..=70).collect() };
    let filler = Tape::Const(1);
    let mut total = 0u64;
    for len in 0..=6usize {
        let n = 6u64.pow(len as u32);
        total += n;
        let tallies = par::fold(n, 64, Tally::default, |acc, ix| {
            let mut script = Vec::with_capacity(len);
            let mut i = ix;
            for _ in 0..len {
                script.push(alphabet[(i % 6) as usize]);
                i /= 6;
            }
            let order0 = [len as u64, ix];
            let mut evals = check_buffered::<FieldV17>(fails, &f, "gf17-exhaustive", &order0, &script, &filler, &ks);
            evals += check_unbuffered::<FieldV17>(fails, &f, "gf17-exhaustive", &order0, &script, &filler, 10);
            acc.evals += evals;
            if ix % 16 == 0 {
                acc.hashes.push(fnv(format!("gf17/{len}/{ix}").as_bytes()));
            }
        });
        merge(run, tallies, "sampling_runs");
    }
    run.count("gf17_streams", total);
    fails.flush(run);
}

/// Real XOF output through `into_field_vec` (natural rejections for the small fields), reference
/// applied to the bytes of a fresh instance read in one call.
fn xof_sampling<F: SF>(run: &Run, fails: &Fails, cfgs: &[Cfg]) {
    let f = finfo::<F>();
    let nbytes = 70 * f.size * 8 + 2048;
    let mut refs: Vec<(Kind, usize, Vec<u8>, Vec<[u8; 32]>)> = vec![];
    for kind in KINDS {
        for (ci, cfg) in cfgs.iter().enumerate() {
            let mut stream = vec![0u8; nbytes];
            open(kind, cfg).fill_bytes(&mut stream);
            let (want, ends) = ref_take(&f, &stream, 70);
            run.count("xof_sampling_natural_rejections", (ends[69] / f.size - 70) as u64);
            run.distinct(fnv(format!("xofsample/{}/{}/{ci}", f.name, kind.name()).as_bytes()));
            refs.push((kind, ci, stream, want));
        }
    }
    par::for_each_chunked(refs.len() as u64 * 71, 16, |ix| {
        let (kind, ci, stream, want) = &refs[ix as usize / 71];
        let (kind, ci) = (*kind, *ci);
        let cfg = &cfgs[ci];
        let k = ix as usize % 71;
        let r = catch(|| open(kind, cfg).into_field_vec::<F>(k));
        match r {
            Ok(v) => {
                let got: Vec<[u8; 32]> = v.iter().map(|x| x.repr()).collect();
                if got.as_slice() != &want[..k] {
                    offer_sample(fails, &format!("sample/{}/xof/{}", f.name, kind.name()), vec![k as u64, ci as u64], &f, &format!("{}.into_field_vec (config {})", kind.name(), cfg.name), stream, k, &got, &want[..k], "deviates");
                }
            }
            Err(m) => fails.offer(&format!("sample/{}/xof/{}/panic", f.name, kind.name()), vec![k as u64, ci as u64], || {
                (format!("{}: {}.into_field_vec({k}) panicked: {m}", f.name, kind.name()), json!({"field": f.name, "k": k, "config": cfg.name}))
            }),
        }
    });
    run.count("evaluations", refs.len() as u64 * 71);
    fails.flush(run);
}

// ---------------------------------------------------------------------------------------------
// (4) switching the field of a running Prng
#[derive(Clone, Copy)]
enum Slot {
    Base,
    Rej(usize),
}

/// `n` accepted chunks in the given arrangement.
fn phase(n: usize, template: usize, which: usize) -> Vec<Slot> {
    let mut v = vec![];
    match template {
        0 => v.extend(std::iter::repeat(Slot::Base).take(n)),
        // a rejection right after the switch and right before the last element of the phase
        1 | 2 => {
            if n > 0 {
                let r = if template == 1 { 0 } else { 3 };
                v.push(Slot::Rej(r + which));
                v.extend(std::iter::repeat(Slot::Base).take(n - 1));
                v.push(Slot::Rej(r + which + 1));
                v.push(Slot::Base);
            }
        }
        // a long run of rejections right after the switch (longer than any buffer in phase 2)
        _ => {
            if n > 0 {
                let l = if which == 1 { 37 } else { 3 };
                for i in 0..l {
                    v.push(Slot::Rej(i));
                }
                v.extend(std::iter::repeat(Slot::Base).take(n));
            }
        }
    }
    v
}

fn build_switch_script(f1: &FInfo, f2: &FInfo, tape: &Tape, template: usize, n1: usize, n2: usize, n3: usize) -> Vec<u8> {
    let mut out = vec![];
    let mut pos = 0usize;
    let mut emit = |f: &FInfo, slots: Vec<Slot>, out: &mut Vec<u8>| {
        for s in slots {
            match s {
                Slot::Base => out.extend(base_chunk(f, tape, pos)),
                Slot::Rej(i) => out.extend(REJECTS[i % REJECTS.len()].bytes(f)),
            }
            pos += 1;
        }
    };
    emit(f1, phase(n1, template, 0), &mut out);
    emit(f2, phase(n2, template, 1), &mut out);
    emit(f1, phase(n3, template, 2), &mut out);
    // look-ahead room made of accepted chunks
    emit(f1, vec![Slot::Base; 40], &mut out);
    out
}

fn switching<F1: SF, F2: SF>(run: &Run, fails: &Fails) {
    let f1 = finfo::<F1>();
    let f2 = finfo::<F2>();
    let q = run.quick();
    let n1s: Vec<usize> = if q { vec![0, 1, 2, 3, 15, 16, 17, 30, 31, 32, 33, 34, 63, 64, 65, 70] } else { (0..=70).collect() };
    let n2s: Vec<usize> = if q { vec![0, 1, 2, 8, 9, 33] } else { vec![0, 1, 2, 3, 4, 5, 7, 8, 9, 15, 16, 17, 31, 32, 33, 40] };
    let n3s: Vec<usize> = if q { vec![0, 1, 33] } else { vec![0, 1, 2, 3, 31, 32, 33, 40] };
    // templates 0..=3 on crafted streams; 4.. = raw seeded tapes (natural rejections in the small fields)
    let n_raw = if q { 2 } else { 6 };
    let n_templates = 4 + n_raw;
    let name = format!("{}->{}", f1.name, f2.name);
    let total = (n1s.len() * n2s.len() * n3s.len() * n_templates) as u64;
    let tallies = par::fold(total, 8, Tally::default, |acc, ix| {
        let mut i = ix as usize;
        let t = i % n_templates;
        i /= n_templates;
        let n3 = n3s[i % n3s.len()];
        i /= n3s.len();
        let n2 = n2s[i % n2s.len()];
        i /= n2s.len();
        let n1 = n1s[i];
        let (script, filler) = if t < 4 {
            let tape = if (n1 + n2 + n3) % 2 == 0 { Tape::Counter } else { Tape::Seeded(run.seed) };
            (build_switch_script(&f1, &f2, &tape, t, n1, n2, n3), Tape::Counter)
        } else {
            // raw seeded bytes; only useful when both fields reject with noticeable probability or
            // never: the walk must terminate, so keep it to a bounded script and an accepted filler
            let tape = Tape::Seeded(run.seed.wrapping_mul(31).wrapping_add(t as u64));
            // (0x02 repeated is an accepted chunk in every field used here; checked by the walk terminating)
            (tape.bytes(7, (n1 + n3 + 8) * f1.size + (n2 + 8) * f2.size), Tape::Const(2))
        };
        let stream = full_stream(&script, &filler, 4096 + 64 * (f1.size + f2.size));
        let mut w = Walk { s: &stream, pos: 0 };
        let wa: Vec<[u8; 32]> = (0..n1).map(|_| w.next(&f1)).collect();
        let wb: Vec<[u8; 32]> = (0..n2).map(|_| w.next(&f2)).collect();
        let wc: Vec<[u8; 32]> = (0..n3).map(|_| w.next(&f1)).collect();
        let consumed = w.pos;
        assert_room(&stream, consumed, 33 * f1.size + f2.size);
        let r = catch(|| prng_switch::<F1, F2, _>(Capped::new(&stream), n1, n2, n3));
        let order = vec![(n1 + n2 + n3) as u64, n1 as u64, n2 as u64, n3 as u64, t as u64];
        let key = format!("switch/{name}/{}", if t < 4 { format!("template{t}") } else { "raw".to_string() });
        match r {
            Ok((a, b, c)) => {
                let ga: Vec<[u8; 32]> = a.iter().map(|x| x.repr()).collect();
                let gb: Vec<[u8; 32]> = b.iter().map(|x| x.repr()).collect();
                let gc: Vec<[u8; 32]> = c.iter().map(|x| x.repr()).collect();
                if ga != wa || gb != wb || gc != wc {
                    fails.offer(&key, order, || {
                        let (ph, g, wv, fi) = if ga != wa {
                            (1, &ga, &wa, &f1)
                        } else if gb != wb {
                            (2, &gb, &wb, &f2)
                        } else {
                            (3, &gc, &wc, &f1)
                        };
                        let i = first_diff(g, wv).unwrap_or(0);
                        let dec = |v: &Vec<[u8; 32]>| v.iter().map(|b| BigUint::from_bytes_le(&b[..]).to_string()).collect::<Vec<_>>();
                        (
                            format!(
                                "Prng {name}: {n1} x {} then into_new_field, {n2} x {}, then back, {n3} x {}: phase {ph} element {i} is {} but one contiguous walk over the stream ({}-byte / {}-byte chunks) gives {}",
                                f1.name, f2.name, f1.name, show(fi, g.get(i)), f1.size, f2.size, show(fi, wv.get(i))
                            ),
                            json!({"f1": f1.name, "f2": f2.name, "n1": n1, "n2": n2, "n3": n3, "template": t,
                                   "stream_hex": hex(&stream[..(consumed + 64).min(stream.len())]), "bytes_consumed_by_reference": consumed,
                                   "got": [dec(&ga), dec(&gb), dec(&gc)], "expected": [dec(&wa), dec(&wb), dec(&wc)]}),
                        )
                    });
                }
            }
            Err(m) => fails.offer(&format!("{key}/panic"), order, || {
                (
                    format!("Prng {name}: panicked ({n1},{n2},{n3}): {m}"),
                    json!({"f1": f1.name, "f2": f2.name, "n1": n1, "n2": n2, "n3": n3, "template": t, "stream_hex": hex(&stream[..(consumed + 64).min(stream.len())])}),
                )
            }),
        }
        acc.evals += 1;
        if n2 > 0 {
            acc.hashes.push(fnv(format!("switch/{name}/{n1}/{n2}/{n3}/{t}").as_bytes()));
        }
    });
    merge(run, tallies, "switch_runs");
    fails.flush(run);
}

// ---------------------------------------------------------------------------------------------
fn main() {
    let run = Run::from_args("C11", Level::ModelChecking);
    let q = run.quick();
    let fails = Fails::new();
    let cfgs = configs(&run);

    run.rule(
        "(1) per seed stream (XofTurboShake128, XofFixedKeyAes128 via trait and via XofFixedKeyAes128Key, XofHmacSha256Aes128, \
         SeedStreamAes128) x config: every sequence of <=3 actions from {fill_bytes(n), next_u32, next_u64}, state = bytes consumed, \
         each returned block compared with the slice of a fresh instance read in one call; (2) every cut of dst (lengths 0..=24, 167..=169) \
         into <=3 parts x every cut of binder (lengths 0..=20) into <=3 update calls vs the unsplit seed_stream, into_seed = prefix; \
         (3) scripted streams through Prng / into_field_vec / IdpfValue::generate / Poplar1IdpfValue::generate / StandardUniform for \
         FieldPrio2, Field64, Field128, Field255, FieldV17, FieldV97, FieldV257, FieldV12289, FieldS61441: special chunk \
         (p, p+1, 2^bits-1, all-ff, p|highbits, p-1, 0, with/without garbage in masked bits) at every position 0..=70, pairs, runs across \
         the refill boundary, whole buffers, every output length 0..=70; all GF(17) streams of length <=6 over {0,16,17,31,32,255}; real \
         XOF output through into_field_vec; (4) Prng::into_new_field for 12 field pairs x (n1,n2,n3) x stream templates vs one contiguous \
         BigUint walk over the byte stream",
    );
    run.assume("TurboSHAKE128, AES-128, HMAC-SHA256 and AES-CTR primitives are trusted: the reference stream is a fresh instance of the same XOF read in one fill_bytes call");
    run.assume("next_u32/next_u64 are compared as little-endian views of the stream (rand_core convention, next_word_via_fill)");
    run.assume("integer values of field elements are observed through Integer::from(F) (make_field! fields) or the canonical encoding (Field255, Poplar1IdpfValue); those conversions are the subject of C07/C09");

    // ---- (1) read-history graph
    let mut sizes: Vec<usize> = if q { vec![0, 1, 2, 15, 16, 17, 31, 32, 33, 47, 48, 64] } else { (0..=48).chain([64]).collect() };
    sizes.dedup();
    let mut acts: Vec<Act> = sizes.iter().map(|&n| Act::Fill(n)).collect();
    acts.push(Act::U32);
    acts.push(Act::U64);
    for kind in KINDS {
        for (ci, cfg) in cfgs.iter().enumerate() {
            read_history(&run, &fails, kind, ci, cfg, &acts);
        }
    }
    run.note("read_actions", json!(acts.iter().map(|a| a.label()).collect::<Vec<_>>()));
    run.sample(json!({"part": "read-history", "xofs": KINDS.iter().map(|k| k.name()).collect::<Vec<_>>(), "configs": cfgs.iter().map(|c| c.name.clone()).collect::<Vec<_>>(), "actions": acts.len(), "depth": 3}));
    fails.flush(&run);
    eprintln!("[{:.1}s] read-history graph", run.elapsed());

    // ---- (2) splitting
    let all_b: Vec<usize> = (0..=20).collect();
    let plan: Vec<(usize, Vec<usize>)> = if q {
        let mut v: Vec<(usize, Vec<usize>)> = [0usize, 1, 2, 3, 7, 8, 16, 24].iter().map(|&l| (l, vec![0, 1, 2, 3, 8, 20])).collect();
        v.extend([167usize, 168, 169].iter().map(|&l| (l, vec![0, 3])));
        v
    } else {
        let mut v: Vec<(usize, Vec<usize>)> = (0..=24).map(|l| (l, all_b.clone())).collect();
        v.extend([167usize, 168, 169].iter().map(|&l| (l, vec![0, 1, 3, 20])));
        v
    };
    let scfgs = &cfgs[..2.min(cfgs.len())];
    split_check::<XofTurboShake128, 32>(&run, &fails, "XofTurboShake128", scfgs, &plan);
    split_check::<XofFixedKeyAes128, 16>(&run, &fails, "XofFixedKeyAes128", scfgs, &plan);
    split_check::<XofHmacSha256Aes128, 32>(&run, &fails, "XofHmacSha256Aes128", scfgs, &plan);
    run.note(
        "dst_length_encoding",
        json!({"XofTurboShake128": "u16 LE total dst length || dst || u8 seed length || seed || binder",
               "XofFixedKeyAes128": "key = TurboSHAKE128(u16 LE total dst length || dst || binder), D=2; seed is the AES input block",
               "XofHmacSha256Aes128": "HMAC key = seed; message = u8 total dst length || dst || binder"}),
    );
    let obs = json!({
        "XofTurboShake128": boundary_observation::<XofTurboShake128, 32>(&cfgs[0]),
        "XofFixedKeyAes128": boundary_observation::<XofFixedKeyAes128, 16>(&cfgs[0]),
        "XofHmacSha256Aes128": boundary_observation::<XofHmacSha256Aes128, 32>(&cfgs[0]),
    });
    eprintln!("observation (not part of the property): moving the dst/binder boundary inside a fixed concatenation changes the stream: {}", obs);
    run.note("boundary_placement_observation", obs);
    run.sample(json!({"part": "splitting", "plan_dst_len->binder_lens": plan.iter().map(|(l, b)| json!([l, b])).collect::<Vec<_>>(), "seeds": scfgs.len()}));
    fails.flush(&run);
    eprintln!("[{:.1}s] splitting", run.elapsed());

    // ---- (3) sampling
    let pl = placements(q);
    sampling::<FieldV17>(&run, &fails, &pl);
    sampling::<FieldV97>(&run, &fails, &pl);
    sampling::<FieldV257>(&run, &fails, &pl);
    sampling::<FieldV12289>(&run, &fails, &pl);
    sampling::<FieldS61441>(&run, &fails, &pl);
    eprintln!("[{:.1}s] sampling small fields", run.elapsed());
    sampling::<FieldPrio2>(&run, &fails, &pl);
    sampling::<Field64>(&run, &fails, &pl);
    sampling::<Field128>(&run, &fails, &pl);
    sampling::<Field255>(&run, &fails, &pl);
    eprintln!("[{:.1}s] sampling deployed fields", run.elapsed());
    gf17_exhaustive(&run, &fails);
    eprintln!("[{:.1}s] GF(17) exhaustive", run.elapsed());
    xof_sampling::<FieldV17>(&run, &fails, &cfgs);
    xof_sampling::<FieldV97>(&run, &fails, &cfgs);
    xof_sampling::<FieldV257>(&run, &fails, &cfgs);
    xof_sampling::<FieldV12289>(&run, &fails, &cfgs);
    xof_sampling::<FieldS61441>(&run, &fails, &cfgs);
    xof_sampling::<FieldPrio2>(&run, &fails, &cfgs);
    xof_sampling::<Field64>(&run, &fails, &cfgs);
    xof_sampling::<Field128>(&run, &fails, &cfgs);
    xof_sampling::<Field255>(&run, &fails, &cfgs);
    run.sample(json!({"part": "sampling", "placements": pl.len(), "chunks_per_script": NCH, "backgrounds": ["counter", "seeded"], "k": "0..=70"}));
    run.sample(json!({"part": "sampling", "example": "FieldV17 stream 11 1f 20 ff 10 -> rejected(17), rejected(31), 0 (32 masked), rejected(255->31), 16"}));
    eprintln!("[{:.1}s] XOF-driven sampling", run.elapsed());

    // ---- (4) switching
    switching::<Field64, Field255>(&run, &fails);
    switching::<Field255, Field64>(&run, &fails);
    switching::<Field64, Field128>(&run, &fails);
    switching::<Field128, Field64>(&run, &fails);
    switching::<FieldPrio2, Field128>(&run, &fails);
    switching::<Field128, FieldPrio2>(&run, &fails);
    switching::<FieldV17, Field255>(&run, &fails);
    switching::<Field255, FieldV17>(&run, &fails);
    switching::<FieldV17, FieldV12289>(&run, &fails);
    switching::<FieldV12289, FieldV17>(&run, &fails);
    switching::<FieldV97, FieldV257>(&run, &fails);
    switching::<FieldV12289, Field64>(&run, &fails);
    run.sample(json!({"part": "switching", "pairs": 12, "templates": "plain / rejections around each switch (two kinds) / long rejection run after the switch / raw seeded tapes"}));
    eprintln!("[{:.1}s] switching", run.elapsed());

    fails.flush(&run);
    run.exhaustive(true);
    run.note("exhaustive_scope", json!("read histories of depth <=3 over the listed action set; all cuts into <=3 parts for the listed lengths; all GF(17) streams of length <=6 over the 6-symbol alphabet; the crafted-stream families are complete for the listed positions/lengths, not over all byte streams"));
    run.finish();
}
