//! C01 — Prio3 end-to-end: honest reports always verify and aggregate exactly.
//!
//! Engine: bounded-exhaustive sweep over (type instance x aggregators x proofs x measurement x
//! tape), every message through its wire encoding, against a plain-integer aggregate. Second pass
//! over small fields GF(97)/GF(193)/GF(12289) where rejection sampling and refused query randomness
//! occur constantly (the only permitted failure is the specified refusal, predicted by the harness).
use prio::codec::{Encode, ParameterizedDecode};
use prio::field::verif::{FieldV12289, FieldV193, FieldV97};
use prio::field::{Field128, Field64};
use prio::flp::gadgets::{Mul, ParallelSum};
use prio::flp::types::{Average, Count, Histogram, L1BoundSum, MultihotCountVec, Sum, SumVec};
use prio::flp::Type;
use prio::vdaf::prio3::Prio3;
use prio::vdaf::test_utils::TestVectorClient;
use prio::vdaf::xof::{IntoFieldVec, Xof, XofHmacSha256Aes128, XofTurboShake128};
use prio::vdaf::{Aggregator, Collector};
use pvh::engine::tape::{tape_alphabet, Tape};
use pvh::engine::{fnv, par, Level, Run};
use pvh::kit::ints::{addmod, modpow, IntConv, KitField};
use pvh::kit::p3cases::*;
use pvh::kit::vdafkit::{verify_report, Failure, Stage, VerifyOpts};
use serde_json::json;
use std::sync::Mutex;

type P3<T, X = XofTurboShake128> = Prio3<T, X, 32>;

fn ctx_for(i: usize) -> Vec<u8> {
    match i % 3 {
        0 => vec![],
        1 => vec![0x61],
        _ => (0..300).map(|k| (k * 7 + 3) as u8).collect(),
    }
}

struct Config {
    aggs: Vec<u8>,
    proofs: Vec<u8>,
}

/// Recompute the query randomness exactly as the specification derives it (public XOF API only),
/// to predict the one permitted failure over tiny fields: a gadget point that is a P-th root of unity.
fn spec_query_rands<F: KitField, X: Xof<32>>(alg: u32, num_proofs: u8, verify_key: &[u8; 32], ctx: &[u8], nonce: &[u8; 16], len: usize) -> Vec<F>
where
    F::Integer: IntConv,
{
    let mut dst = [0u8; 8];
    dst[0] = 18;
    dst[1] = 0;
    dst[2..6].copy_from_slice(&alg.to_be_bytes());
    dst[6..8].copy_from_slice(&5u16.to_be_bytes());
    let mut xof = X::init(verify_key, &[&dst, ctx]);
    xof.update(&[num_proofs]);
    xof.update(nonce);
    xof.into_seed_stream().into_field_vec(len)
}

fn run_case<T>(run: &Run, case: &Case<T>, cfg: &Config, tapes: &[(String, Tape)], small_field: bool)
where
    T: Type + Clone + Send + Sync + 'static,
    T::Field: KitField,
    <T::Field as prio::field::FieldElementWithInteger>::Integer: IntConv,
    T::Measurement: Send + Sync,
{
    run_case_x::<T, XofTurboShake128>(run, case, cfg, tapes, small_field, "")
}

/// The sweep proper, for any XOF with 32-byte seeds (`tag` distinguishes the XOF in case keys).
fn run_case_x<T, X>(run: &Run, case: &Case<T>, cfg: &Config, tapes: &[(String, Tape)], small_field: bool, tag: &str)
where
    X: Xof<32> + Send + Sync + 'static,
    T: Type + Clone + Send + Sync + 'static,
    T::Field: KitField,
    <T::Field as prio::field::FieldElementWithInteger>::Integer: IntConv,
    T::Measurement: Send + Sync,
{
    let p = <T::Field as KitField>::p();
    let jr = case.typ.joint_rand_len() > 0;
    // work items: (aggs, proofs, tape)
    let mut items = vec![];
    for &a in &cfg.aggs {
        for &pr in &cfg.proofs {
            for (ti, _) in tapes.iter().enumerate() {
                items.push((a, pr, ti));
            }
        }
    }
    let refused = Mutex::new(0u64);
    par::for_each(items.len() as u64, |ix| {
        let (na, np, ti) = items[ix as usize];
        let (tname, tape) = &tapes[ti];
        // the client holds an instance built afresh (never cloned); aggregators and collector hold a
        // clone of it: a clone denotes the same instance
        let client: P3<T, X> = match Prio3::new(na, np, case.alg, (case.make)()) {
            Ok(v) => v,
            Err(e) => {
                run.fail(&format!("{}/new", case.name), &format!("{}: Prio3::new({na},{np}) failed: {e}", case.name), json!({"case": case.name, "aggs": na, "proofs": np}));
                return;
            }
        };
        let vdaf: P3<T, X> = client.clone();
        let mut ctx = ctx_for(ti + na as usize);
        if !tag.is_empty() {
            ctx.truncate(200); // the HMAC XOF's domain-separation tag is limited to 255 bytes
        }
        let verify_key: [u8; 32] = tape.array(1000 + ix);
        let rand_len = if jr { 2 * na as usize * 32 } else { na as usize * 32 };
        // per-measurement output shares (one report each)
        let mut outs: Vec<Option<Vec<<P3<T, X> as prio::vdaf::Vdaf>::OutputShare>>> = vec![];
        for (mi, m) in case.meas.iter().enumerate() {
            let nonce: [u8; 16] = tape.array(2000 + mi as u64);
            let random = tape.bytes(3000 + mi as u64 * 17 + ix, rand_len);
            let key = format!("{}{tag}/a{na}/p{np}", case.name);
            let casej = || json!({"case": case.name, "aggs": na, "proofs": np, "tape": tname, "measurement_index": mi, "ctx_len": ctx.len()});
            let (ps, shares) = match pvh::engine::catch(|| client.shard_with_random(&ctx, m, &nonce, &random)) {
                Ok(Ok(x)) => x,
                Ok(Err(e)) => {
                    run.fail(&format!("{key}/shard"), &format!("{}: sharding a valid measurement failed: {e}", case.name), casej());
                    return;
                }
                Err(msg) => {
                    run.fail(&format!("{key}/shard_panic"), &format!("{}: sharding panicked: {msg}", case.name), casej());
                    return;
                }
            };
            if shares.len() != na as usize {
                run.fail(&format!("{key}/share_count"), &format!("{}: {} input shares for {na} aggregators", case.name, shares.len()), casej());
                return;
            }
            run.count("evaluations", 1);
            match verify_report::<P3<T, X>, 32>(&vdaf, &verify_key, &ctx, &(), &nonce, &ps, &shares, &VerifyOpts::wire()) {
                Ok((o, _tr)) => outs.push(Some(o)),
                Err(Failure { stage, msg }) => {
                    // small fields: the specified refusal of query randomness is the one permitted failure
                    // (decided by the independent prediction below, not by the wording of the library's error)
                    if small_field && matches!(stage, Stage::VerifyInit(_)) {
                        let qlen = case.typ.query_rand_len();
                        let qr: Vec<T::Field> = spec_query_rands::<T::Field, X>(case.alg, np, &verify_key, &ctx, &nonce, qlen * np as usize);
                        let any_root = (0..np as usize).any(|k| modpow(qr[k * qlen + qlen - 1].val(), case.wire_poly_len as u128, p) == 1);
                        if any_root {
                            *refused.lock().unwrap() += 1;
                            outs.push(None);
                            continue;
                        }
                    }
                    run.fail(&format!("{key}/verify/{:?}", std::mem::discriminant(&stage)), &format!("{}: honest report rejected at {:?}: {msg} (aggs={na} proofs={np} tape={tname} measurement #{mi})", case.name, stage), casej());
                    return;
                }
            }
        }
        // aggregation: singletons, all ordered pairs (incl. repeats), the full batch
        let n = case.meas.len();
        let mut batches: Vec<Vec<usize>> = (0..n).map(|i| vec![i]).collect();
        if n <= 64 {
            for i in 0..n {
                for j in i..n {
                    batches.push(vec![i, j]);
                }
            }
        } else {
            for i in 0..n {
                batches.push(vec![i, (i * 7 + 3) % n]);
            }
        }
        batches.push((0..n).collect());
        batches.push((0..n).chain(0..n).chain(0..n).collect()); // triple batch: wrap-around for max=p-1
        for b in &batches {
            if b.iter().any(|i| outs[*i].is_none()) {
                continue;
            }
            let mut agg_shares = vec![];
            for a in 0..na as usize {
                let it = b.iter().map(|i| outs[*i].as_ref().unwrap()[a].clone());
                let sh = match vdaf.aggregate(&(), it) {
                    Ok(s) => s,
                    Err(e) => {
                        run.fail(&format!("{}/aggregate", case.name), &format!("{}: aggregate failed: {e}", case.name), json!({"case": case.name}));
                        return;
                    }
                };
                // wire
                let bytes = sh.get_encoded().unwrap();
                let sh2 = match <P3<T, X> as prio::vdaf::Vdaf>::AggregateShare::get_decoded_with_param(&(&vdaf, &()), &bytes) {
                    Ok(s) => s,
                    Err(e) => {
                        run.fail(&format!("{}/aggshare_codec", case.name), &format!("{}: aggregate share does not decode: {e}", case.name), json!({"case": case.name}));
                        return;
                    }
                };
                agg_shares.push(sh2);
            }
            // different merge order for odd batches (merge is checked in depth by C13)
            if b.len() % 2 == 1 {
                agg_shares.reverse();
            }
            let mut want: Vec<u128> = vec![];
            for i in b {
                let c = (case.contrib)(&case.meas[*i]);
                if want.is_empty() {
                    want = vec![0; c.len()];
                }
                for (w, x) in want.iter_mut().zip(&c) {
                    *w = addmod(*w, *x, p);
                }
            }
            let mut big_average = false;
            if case.average {
                // the mean of the measurements as f64 (sums up to 2^64-1 are converted through u64 by
                // the library; larger sums have no exact u64 form)
                big_average = want[0] > u64::MAX as u128;
                want = vec![if big_average { ((want[0] as f64) / (b.len() as f64)).to_bits() as u128 } else { (((want[0] as u64) as f64) / (b.len() as f64)).to_bits() as u128 }];
            }
            run.count("aggregations", 1);
            match pvh::engine::catch(|| vdaf.unshard(&(), agg_shares, b.len())) {
                Ok(Ok(r)) => {
                    let got = (case.result)(&r);
                    if got != want {
                        run.fail(&format!("{}/a{na}/p{np}/aggregate_value", case.name), &format!("{}: aggregate of batch {:?} is {:?}, plain aggregate mod p is {:?} (aggs={na} proofs={np} tape={tname})", case.name, b, got, want), json!({"case": case.name, "aggs": na, "proofs": np, "tape": tname, "batch": b}));
                        return;
                    }
                }
                Ok(Err(e)) => {
                    if big_average {
                        run.fail("Average/sum>=2^64/unshard", &format!("{}: unshard of a batch whose plain sum is >= 2^64 fails instead of returning the mean: {e}", case.name), json!({"case": case.name, "batch": b}));
                        continue;
                    }
                    run.fail(&format!("{}/unshard", case.name), &format!("{}: unshard failed: {e}", case.name), json!({"case": case.name, "batch": b}));
                    return;
                }
                Err(m) => {
                    run.fail(&format!("{}/unshard_panic", case.name), &format!("{}: unshard panicked: {m}", case.name), json!({"case": case.name, "batch": b}));
                    return;
                }
            }
        }
        run.distinct(fnv(format!("{}{tag}/{na}/{np}/{tname}", case.name).as_bytes()));
    });
    run.count("refused_query_randomness_small_field", *refused.lock().unwrap());
}

/// The library's named constructors must denote the same instance as `Prio3::new` with the
/// specification's algorithm identifier and the same type parameters (in the same order): shards of
/// the same measurement under the same randomness are byte-identical, and the constructor-built
/// instance verifies and aggregates the reference instance's report.
fn same_instance<T>(run: &Run, ctor: &str, lib: Result<P3<T>, prio::vdaf::VdafError>, case: &Case<T>, na: u8, tapes: &[(String, Tape)])
where
    T: Type + Clone + Send + Sync + 'static,
    T::Field: KitField,
    <T::Field as prio::field::FieldElementWithInteger>::Integer: IntConv,
{
    let key = format!("ctor/{ctor}/{}", case.name);
    let lib = match lib {
        Ok(v) => v,
        Err(e) => {
            run.fail(&format!("{key}/new"), &format!("{ctor} refused admissible parameters of {}: {e}", case.name), json!({"ctor": ctor, "case": case.name, "aggs": na}));
            return;
        }
    };
    let reference: P3<T> = Prio3::new(na, 1, case.alg, case.typ.clone()).unwrap();
    let jr = case.typ.joint_rand_len() > 0;
    let rand_len = if jr { 2 * na as usize * 32 } else { na as usize * 32 };
    for (ti, (tname, tape)) in tapes.iter().enumerate() {
        let ctx = ctx_for(ti);
        let verify_key: [u8; 32] = tape.array(77);
        let mut outs: Vec<Vec<<P3<T> as prio::vdaf::Vdaf>::OutputShare>> = vec![];
        for (mi, m) in case.meas.iter().enumerate() {
            let nonce: [u8; 16] = tape.array(500 + mi as u64);
            let random = tape.bytes(900 + mi as u64, rand_len);
            let casej = || json!({"ctor": ctor, "case": case.name, "aggs": na, "tape": tname, "measurement_index": mi});
            let a = pvh::engine::catch(|| lib.shard_with_random(&ctx, m, &nonce, &random));
            let b = pvh::engine::catch(|| reference.shard_with_random(&ctx, m, &nonce, &random));
            let ((ps_a, sh_a), (ps_b, sh_b)) = match (a, b) {
                (Ok(Ok(a)), Ok(Ok(b))) => (a, b),
                (a, b) => {
                    let show = |r: Result<Result<_, prio::vdaf::VdafError>, String>| r.map(|r: Result<(_, Vec<_>), _>| r.map(|_| ()).map_err(|e| e.to_string()));
                    run.fail(&format!("{key}/shard"), &format!("{ctor}: sharding an in-range measurement of {} failed: constructor-built instance {:?}, Prio3::new(.., clone of the type) {:?}", case.name, show(a), show(b)), casej());
                    return;
                }
            };
            let enc_a: Vec<Vec<u8>> = std::iter::once(ps_a.get_encoded().unwrap()).chain(sh_a.iter().map(|s| s.get_encoded().unwrap())).collect();
            let enc_b: Vec<Vec<u8>> = std::iter::once(ps_b.get_encoded().unwrap()).chain(sh_b.iter().map(|s| s.get_encoded().unwrap())).collect();
            if enc_a != enc_b {
                run.fail(&format!("{key}/shares_differ"), &format!("{ctor} does not denote Prio3::new(.., algorithm {:#x}, {}): shares of the same measurement under the same randomness differ", case.alg, case.name), casej());
                return;
            }
            // the constructor-built instance verifies the reference instance's report
            match verify_report::<P3<T>, 32>(&lib, &verify_key, &ctx, &(), &nonce, &ps_b, &sh_b, &VerifyOpts::wire()) {
                Ok((o, _)) => outs.push(o),
                Err(Failure { stage, msg }) => {
                    run.fail(&format!("{key}/verify"), &format!("{ctor}: honest report of {} rejected at {:?}: {msg}", case.name, stage), casej());
                    return;
                }
            }
            run.count("constructor_reports", 1);
        }
        // full batch through the constructor-built instance
        let n = case.meas.len();
        let mut agg = vec![];
        for a in 0..na as usize {
            match lib.aggregate(&(), outs.iter().map(|o| o[a].clone())) {
                Ok(s) => agg.push(s),
                Err(e) => {
                    run.fail(&format!("{key}/aggregate"), &format!("{ctor}: aggregate failed: {e}"), json!({"ctor": ctor, "case": case.name}));
                    return;
                }
            }
        }
        let p = <T::Field as KitField>::p();
        let mut want: Vec<u128> = vec![];
        for m in &case.meas {
            let c = (case.contrib)(m);
            if want.is_empty() {
                want = vec![0; c.len()];
            }
            for (w, x) in want.iter_mut().zip(&c) {
                *w = addmod(*w, *x, p);
            }
        }
        if case.average {
            want = vec![(((want[0] as u64) as f64) / (n as f64)).to_bits() as u128];
        }
        match pvh::engine::catch(|| lib.unshard(&(), agg, n)) {
            Ok(Ok(r)) if (case.result)(&r) == want => {}
            other => {
                run.fail(&format!("{key}/aggregate_value"), &format!("{ctor}: full batch of {} unshards to {:?}, plain aggregate is {:?}", case.name, other.map(|r| r.map(|x| (case.result)(&x)).map_err(|e| e.to_string())), want), json!({"ctor": ctor, "case": case.name, "tape": tname}));
                return;
            }
        }
        run.distinct(fnv(format!("{key}/{na}/{tname}").as_bytes()));
    }
}

fn main() {
    let run = Run::from_args("C01", Level::Exploration);
    run.rule("instances (7 Prio3 types x parameter lattice x aggregators x proofs) x measurement domain (full when small, else edges) x tape alphabet (zero, 0xff, counter, seeded) x ctx {empty,1,300 bytes} x XOF {TurboSHAKE128, HMAC-SHA256+AES128 on 9 instances}; the 7 named constructors denote the same instances as Prio3::new with the specification's algorithm ids (byte-identical shards); every message through its wire encoding; client on a freshly built instance, aggregators and collector on a clone of it; batches = singletons, all pairs, full, tripled; reference = plain integer aggregate mod p. distinct = distinct (instance, aggregators, proofs, tape) combinations fully verified");
    run.assume("sharding randomness / nonce / verify key / ctx come from a fixed tape alphabet (32-byte seeds are not enumerable)");

    let q = run.quick();
    let tapes = tape_alphabet(run.seed, if q { 4 } else { 16 });
    let p64 = Field64::p();
    let std = Config { aggs: vec![2, 3], proofs: vec![1, 2] };
    let wide = Config { aggs: if q { vec![1, 2, 5, 254] } else { vec![1, 2, 3, 4, 5, 16, 254] }, proofs: if q { vec![1, 3, 255] } else { vec![1, 2, 3, 255] } };
    let one = Config { aggs: vec![2], proofs: vec![1] };
    // the 254-aggregator x 255-proof corner is exercised with Count only in the quick tier
    let wide_count = Config { aggs: wide.aggs.clone(), proofs: wide.proofs.clone() };
    let wide = if q { Config { aggs: vec![2, 5, 254], proofs: vec![1, 3] } } else { wide };

    // ---- deployed instantiations
    run_case(&run, &count_case::<Field64>(), &wide_count, &tapes, false);
    for max in [1u128, 2, 3, 4, 7, 8, 127, 128, 129, 255, 256, (1 << 31) - 1, 1 << 31, (1 << 32) - 1, 1 << 32, (1 << 32) + 1, (1u128 << 63) - 1, 1 << 63, (1u128 << 63) + 1, p64 - 2, p64 - 1] {
        run_case(&run, &sum_case::<Field64>(max), if max == 255 { &wide } else { &one }, &tapes, false);
    }
    for max in [1u128, 3, 255, 1 << 32, (1 << 64) - 1, 1 << 64, Field128::p() - 1] {
        run_case(&run, &sum_case::<Field128>(max), &one, &tapes, false);
        if max < (1 << 40) {
            run_case(&run, &average_case::<Field128>(max), &std, &tapes, false);
        }
    }
    run_case(&run, &average_case::<Field128>((1 << 62) + 5), &one, &tapes, false);
    run_case(&run, &average_case::<Field128>(1 << 64), &one, &tapes[..1], false);
    // SumVec: every chunk length 1..flattened+2 for small shapes
    for (max, len) in [(1u128, 1usize), (1, 9), (3, 5), (255, 2), (6, 3)] {
        let flat = bits_of(max) * len;
        for chunk in 1..=flat + 2 {
            if q && chunk > 4 && chunk < flat - 1 && chunk % 3 != 0 {
                continue;
            }
            run_case(&run, &sumvec_case::<Field128>(max, len, chunk), if chunk == 3 { &std } else { &one }, &tapes, false);
        }
    }
    run_case(&run, &sumvec_case::<Field128>((1 << 64) - 1, 2, 11), &one, &tapes, false);
    run_case(&run, &sumvec_case::<Field128>(Field128::p() - 1, 1, 7), &one, &tapes, false);
    run_case(&run, &sumvec_case::<Field128>(255, 3, 5), &wide, &tapes, false);
    run_case(&run, &sumvec_case::<Field64>(255, 3, 5), &one, &tapes, false);
    // a LARGE instance: shares, states and aggregate shares above 64 KiB (any 16-bit length or count in a codec
    // or in parameter derivation shows here)
    run_case(&run, &sumvec_case::<Field128>(1, 5000, 70), &one, &tapes[..1], false);
    run_case(&run, &histogram_case::<Field128>(4500, 67), &one, &tapes[3..4], false);
    // Histogram: lengths 1..9 x every chunk length 1..len+2
    for len in 1..=9usize {
        for chunk in 1..=len + 2 {
            if q && len > 4 && len < 9 && chunk % 2 == 0 {
                continue;
            }
            run_case(&run, &histogram_case::<Field128>(len, chunk), if (len, chunk) == (9, 4) { &wide } else { &one }, &tapes, false);
        }
    }
    run_case(&run, &histogram_case::<Field128>(100, 10), &one, &tapes, false);
    run_case(&run, &histogram_case::<Field128>(257, 16), &one, &tapes, false);
    // Multihot
    for len in 1..=5usize {
        for maxw in [1, len.saturating_sub(1).max(1), len, len + 1] {
            for chunk in [1, 2, 3, len, len + bits_of(maxw as u128), len + bits_of(maxw as u128) + 1] {
                if q && len == 4 {
                    continue;
                }
                run_case(&run, &multihot_case::<Field128>(len, maxw, chunk), &one, &tapes, false);
            }
        }
    }
    run_case(&run, &multihot_case::<Field128>(4, 2, 3), &wide, &tapes, false);
    run_case(&run, &multihot_case::<Field128>(30, 7, 6), &one, &tapes, false);
    // L1BoundSum
    for (max, len) in [(1u128, 1usize), (1, 3), (2, 2), (3, 3), (7, 4), (8, 2), (255, 2)] {
        let flat = bits_of(max) * (len + 1);
        for chunk in [1, 2, 3, flat - 1, flat, flat + 1] {
            if chunk == 0 {
                continue;
            }
            run_case(&run, &l1_case::<Field128>(max, len, chunk), if (max, len, chunk) == (7, 4, 3) { &std } else { &one }, &tapes, false);
        }
    }
    run_case(&run, &l1_case::<Field128>(7, 4, 3), &wide, &tapes, false);
    eprintln!("[{:.1}s] deployed fields done", run.elapsed());

    // ---- small fields: the same generic Prio3 code where rejection sampling and refused query
    // randomness are frequent
    let small_cfg = Config { aggs: vec![2, 3], proofs: vec![1, 2] };
    let tapes_small = tape_alphabet(run.seed ^ 0x55, if q { 6 } else { 40 });
    run_case(&run, &count_case::<FieldV97>(), &small_cfg, &tapes_small, true);
    run_case(&run, &sum_case::<FieldV97>(5), &small_cfg, &tapes_small, true);
    run_case(&run, &sumvec_case::<FieldV97>(1, 3, 2), &small_cfg, &tapes_small, true);
    run_case(&run, &histogram_case::<FieldV97>(3, 2), &small_cfg, &tapes_small, true);
    run_case(&run, &count_case::<FieldV193>(), &small_cfg, &tapes_small, true);
    run_case(&run, &sumvec_case::<FieldV193>(3, 3, 2), &small_cfg, &tapes_small, true);
    run_case(&run, &multihot_case::<FieldV193>(3, 2, 2), &small_cfg, &tapes_small, true);
    run_case(&run, &l1_case::<FieldV193>(2, 2, 2), &small_cfg, &tapes_small, true);
    run_case(&run, &count_case::<FieldV12289>(), &small_cfg, &tapes_small, true);
    run_case(&run, &sum_case::<FieldV12289>(100), &small_cfg, &tapes_small, true);
    run_case(&run, &histogram_case::<FieldV12289>(9, 4), &small_cfg, &tapes_small, true);
    run_case(&run, &sumvec_case::<FieldV12289>(7, 4, 3), &small_cfg, &tapes_small, true);
    eprintln!("[{:.1}s] small fields done", run.elapsed());

    // ---- the other XOF shipped with the library (HMAC-SHA256 + AES128, 32-byte seeds)
    let hm = Config { aggs: vec![2, 3], proofs: vec![1, 2] };
    run_case_x::<_, XofHmacSha256Aes128>(&run, &count_case::<Field64>(), &hm, &tapes, false, "#hmac");
    run_case_x::<_, XofHmacSha256Aes128>(&run, &sum_case::<Field64>(255), &hm, &tapes, false, "#hmac");
    run_case_x::<_, XofHmacSha256Aes128>(&run, &sumvec_case::<Field64>(255, 3, 5), &hm, &tapes, false, "#hmac");
    run_case_x::<_, XofHmacSha256Aes128>(&run, &sumvec_case::<Field128>(3, 5, 4), &hm, &tapes, false, "#hmac");
    run_case_x::<_, XofHmacSha256Aes128>(&run, &histogram_case::<Field128>(9, 4), &hm, &tapes, false, "#hmac");
    run_case_x::<_, XofHmacSha256Aes128>(&run, &multihot_case::<Field128>(4, 2, 3), &hm, &tapes, false, "#hmac");
    run_case_x::<_, XofHmacSha256Aes128>(&run, &l1_case::<Field128>(7, 4, 3), &hm, &tapes, false, "#hmac");
    run_case_x::<_, XofHmacSha256Aes128>(&run, &average_case::<Field128>(255), &hm, &tapes, false, "#hmac");
    run_case_x::<_, XofHmacSha256Aes128>(&run, &sumvec_case::<FieldV193>(3, 3, 2), &small_cfg, &tapes_small, true, "#hmac");
    eprintln!("[{:.1}s] HMAC XOF done", run.elapsed());

    // ---- the library's named constructors (parameters chosen pairwise distinct so that a swapped
    // argument changes the instance)
    let ct = &tapes[..tapes.len().min(3)];
    for na in [2u8, 3] {
        same_instance(&run, "new_count", Prio3::new_count(na), &count_case::<Field64>(), na, ct);
        for max in [1u128, 5, 255, 256, (1 << 32) + 1] {
            same_instance(&run, "new_sum", Prio3::new_sum(na, max as u64), &sum_case::<Field64>(max), na, ct);
            same_instance(&run, "new_average", Prio3::new_average(na, max), &average_case::<Field128>(max), na, ct);
        }
        for (max, len, chunk) in [(1u128, 2usize, 3usize), (3, 5, 4), (255, 2, 7), (6, 3, 2), (2, 7, 5)] {
            same_instance(&run, "new_sum_vec", Prio3::new_sum_vec(na, max, len, chunk), &sumvec_case::<Field128>(max, len, chunk), na, ct);
        }
        for (len, chunk) in [(1usize, 2usize), (2, 1), (5, 3), (3, 5), (9, 4), (4, 9)] {
            same_instance(&run, "new_histogram", Prio3::new_histogram(na, len, chunk), &histogram_case::<Field128>(len, chunk), na, ct);
        }
        for (len, maxw, chunk) in [(5usize, 2usize, 3usize), (5, 3, 2), (3, 2, 5), (4, 1, 2), (2, 2, 4)] {
            same_instance(&run, "new_multihot_count_vec", Prio3::new_multihot_count_vec(na, len, maxw, chunk), &multihot_case::<Field128>(len, maxw, chunk), na, ct);
        }
        for (max, len, chunk) in [(7u128, 4usize, 3usize), (3, 2, 5), (2, 5, 3), (5, 3, 2)] {
            same_instance(&run, "new_l1_bound_sum", Prio3::new_l1_bound_sum(na, max, len, chunk), &l1_case::<Field128>(max, len, chunk), na, ct);
        }
    }
    eprintln!("[{:.1}s] named constructors done", run.elapsed());
    run.sample(json!({"case": "Histogram(len=9,chunk=4)@Field128", "aggregators": 254, "proofs": 255, "tape": "counter", "batch": [0, 8]}));
    run.sample(json!({"case": "Sum(max=p-1)@Field64", "aggregators": 2, "proofs": 1, "tape": "ff", "batch": "tripled full batch (wraps mod p)"}));
    run.sample(json!({"case": "Count@97", "aggregators": 3, "proofs": 2, "tape": "seeded3", "note": "small field: refusals predicted from the spec's query-randomness derivation"}));
    run.exhaustive(false);
    run.finish();
}
