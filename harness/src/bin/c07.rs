//! C07 — Wire encodings are canonical, round-trip, and report their exact length.
//!
//! Engine: bounded-exhaustive sweep over the catalogue of every (decodable type, decoding
//! parameter) pair (`../codec_catalogue.rs`, shared with C08). For every entry the byte strings are
//!   crafted header extremes; each base string (honest encodings produced in-process by sharding,
//!   verification and the ping-pong routines under the listed tapes; the all-zero and the
//!   all-maximal record synthesised from the grammar) and, per base string: every field slot set to
//!   0, p-1, p, p+1, all-ones, p + top bit; every padding bit; every truncation; extensions by 1-2
//!   bytes; single-byte substitutions (all 255 alternatives at tag / length / padding bytes; the
//!   sub-alphabet {^1, ^0x80, +1, 0, 0xff} elsewhere in the quick tier, all 255 in the thorough
//!   tier); and all strings of length <= 2.
//! Oracles, against a reference grammar of the wire format written in the harness (records of
//! opaque bytes, little-endian field elements below a literal modulus, tags, big-endian length
//! prefixes, packed bits with zero padding):
//!   (a) the library accepts a string iff the reference grammar does (so elements >= p, non-zero
//!       padding bits, trailing bytes, unknown tags, truncations are rejected, and every canonical
//!       string, in particular the extremes 0 and p-1 in every slot, is accepted);
//!   (b) every accepted string re-encodes to exactly itself; `encoded_len()`, when `Some`, equals
//!       the produced length; decode(encode(v)) == v under `PartialEq`;
//!   (c) honest values: typed decode(encode(v)) == v for the client's outputs, and the wire round
//!       trip + `encoded_len` of every message inside `vdafkit::verify_report`.
#[path = "../codec_catalogue.rs"]
mod catalogue;

use catalogue::{Entry, Limits, Outcome, Profile};
use pvh::engine::{fnv, hex, par, Level, Run};
use serde_json::json;
use std::collections::HashMap;
use std::sync::atomic::{AtomicBool, AtomicU64, Ordering};
use std::sync::{Arc, Mutex};

/// Key of a failure: oracle / kind of string / type / decoding parameter. The two defects that were
/// found and fixed earlier keep the key shapes under which they are recorded.
fn fail_key(e: &Entry, oracle: &str, kind: &str, bytes: &[u8]) -> String {
    if e.ty == "Poplar1AggregationParam" && bytes.len() >= 2 && bytes[0] == 0xff && bytes[1] == 0xff {
        return format!("poplar1/agg_param/level=65535/{oracle}");
    }
    if oracle == "encoded_len" {
        return format!("codec/encoded_len/{}/{}", e.ty, e.param);
    }
    let kind = kind.split('(').next().unwrap_or(kind);
    format!("codec/{oracle}/{kind}/{}/{}", e.ty, e.param)
}

struct Stats {
    cases: AtomicU64,
    accepted: AtomicU64,
    rejected: AtomicU64,
    decode_panics: AtomicU64,
    per_oracle_reports: Mutex<HashMap<String, u32>>,
}

fn report(run: &Run, st: &Stats, e: &Entry, oracle: &str, kind: &str, k: u64, bytes: &[u8], what: String) {
    // at most 12 reports per (oracle, type): a systematic defect is one finding, not a thousand
    {
        let mut g = st.per_oracle_reports.lock().unwrap();
        let c = g.entry(format!("{oracle}/{}", e.ty)).or_insert(0);
        *c += 1;
        if *c > 12 {
            run.count("failures_beyond_report_cap", 1);
            return;
        }
    }
    let shown = if bytes.len() <= 96 { hex(bytes) } else { format!("{}...({} bytes)", hex(&bytes[..96]), bytes.len()) };
    run.fail(
        &fail_key(e, oracle, kind, bytes),
        &format!("{} | {}: {what} [string kind {kind}, case {k}, bytes {shown}]", e.ty, e.param),
        json!({"type": e.ty, "param": e.param, "kind": kind, "case": k, "bytes": hex(bytes)}),
    );
}

fn check_case(run: &Run, st: &Stats, e: &Entry, k: u64, kind: &str, bytes: &[u8]) {
    st.cases.fetch_add(1, Ordering::Relaxed);
    let reference = e.reference(bytes, false).is_some();
    match e.decode(bytes, true) {
        Outcome::Panic(m) => {
            // not terminating with a value or an error is C08's subject; here it only matters that a
            // string the grammar refuses was not *rejected*, or a canonical one not accepted
            st.decode_panics.fetch_add(1, Ordering::Relaxed);
            if reference {
                report(run, st, e, "canonical_not_accepted", kind, k, bytes, format!("decoder panicked on a canonical encoding: {m}"));
            } else {
                report(run, st, e, "noncanonical_not_rejected", kind, k, bytes, format!("decoder panicked instead of rejecting: {m}"));
            }
        }
        Outcome::Rejected(err) => {
            st.rejected.fetch_add(1, Ordering::Relaxed);
            if reference {
                report(run, st, e, "canonical_rejected", kind, k, bytes, format!("the grammar accepts this string but the decoder rejects it: {err}"));
            }
        }
        Outcome::Accepted(info) => {
            st.accepted.fetch_add(1, Ordering::Relaxed);
            let info = info.expect("harness: full decode requested");
            if !reference {
                report(run, st, e, "noncanonical_accepted", kind, k, bytes, "the decoder accepts a string the grammar refuses".to_string());
            }
            match &info.reenc {
                Err(m) => report(run, st, e, "reencode_failed", kind, k, bytes, format!("accepted value cannot be re-encoded: {m}")),
                Ok(b) => {
                    if b != bytes {
                        let shown = if b.len() <= 96 { hex(b) } else { format!("{}...({} bytes)", hex(&b[..96]), b.len()) };
                        report(run, st, e, "reencode_differs", kind, k, bytes, format!("accepted string re-encodes to different bytes {shown}: the value has two accepted encodings"));
                    }
                    if let Some(l) = info.enc_len {
                        if l != b.len() {
                            report(run, st, e, "encoded_len", kind, k, bytes, format!("encoded_len() = {l} but encode() produced {} bytes", b.len()));
                        }
                    }
                    if info.eq == Some(false) {
                        report(run, st, e, "roundtrip_eq", kind, k, bytes, "decode(encode(v)) != v".to_string());
                    }
                }
            }
        }
    }
}

/// The opaque fields INSIDE a ping-pong message are decoded by the ping-pong routines themselves, against the
/// receiver's state: a field that carries its canonical encoding followed by extra bytes (or cut short) is a
/// second encoding of the same message and must be refused by `helper_initialized` / `leader_continued` /
/// `helper_continued`, for every field of every message of a Poplar1 (two rounds) and a Prio3 exchange.
fn pingpong_inner_fields(run: &Run) {
    use prio::codec::Encode;
    use prio::idpf::IdpfInput;
    use prio::topology::ping_pong::{PingPongMessage, PingPongState, PingPongTopology};
    use prio::vdaf::poplar1::{Poplar1, Poplar1AggregationParam};
    use prio::vdaf::prio3::Prio3;
    use prio::vdaf::test_utils::TestVectorClient;
    use prio::vdaf::xof::XofTurboShake128;
    use prio::vdaf::Aggregator;
    use pvh::engine::catch;
    fn variants(m: &PingPongMessage) -> Vec<(String, PingPongMessage)> {
        let mut out = vec![];
        let alter = |v: &Vec<u8>| -> Vec<(&'static str, Vec<u8>)> {
            let mut a = vec![("+00", [v.clone(), vec![0]].concat()), ("+8 bytes", [v.clone(), vec![0xA5; 8]].concat()), ("+32 bytes", [v.clone(), vec![0; 32]].concat())];
            if !v.is_empty() {
                a.push(("-1 byte", v[..v.len() - 1].to_vec()));
                a.push(("doubled", [v.clone(), v.clone()].concat()));
            }
            a
        };
        match m {
            PingPongMessage::Initialize { verifier_share } => {
                for (l, v) in alter(verifier_share) {
                    out.push((format!("Initialize.verifier_share {l}"), PingPongMessage::Initialize { verifier_share: v }));
                }
            }
            PingPongMessage::Continue { verifier_message, verifier_share } => {
                for (l, v) in alter(verifier_message) {
                    out.push((format!("Continue.verifier_message {l}"), PingPongMessage::Continue { verifier_message: v, verifier_share: verifier_share.clone() }));
                }
                for (l, v) in alter(verifier_share) {
                    out.push((format!("Continue.verifier_share {l}"), PingPongMessage::Continue { verifier_message: verifier_message.clone(), verifier_share: v }));
                }
            }
            PingPongMessage::Finish { verifier_message } => {
                for (l, v) in alter(verifier_message) {
                    out.push((format!("Finish.verifier_message {l}"), PingPongMessage::Finish { verifier_message: v }));
                }
            }
        }
        out
    }
    fn drive<V>(run: &Run, name: &str, vdaf: &V, vk: &[u8; 32], param: &V::AggregationParam, nonce: &[u8; 16], ps: &V::PublicShare, shares: &[V::InputShare])
    where
        V: Aggregator<32, 16> + PingPongTopology<32, 16, PingPongContinuation = prio::topology::ping_pong::PingPongContinuation<32, 16, V>>,
        V::VerifyState: Clone,
    {
        let ctx = b"c07 pp";
        let judge = |what: &str, label: &str, accepted: bool| {
            run.count("evaluations", 1);
            run.count("pingpong_inner_field_cases", 1);
            if accepted {
                run.fail(&format!("pingpong_inner/{name}/{}", label.split(' ').next().unwrap_or("")), &format!("{name}: {what} accepted a message whose {label}: the same message has two accepted encodings"), json!({"vdaf": name, "routine": what, "alteration": label}));
            }
        };
        let Ok(Ok(lc)) = catch(|| vdaf.leader_initialized(vk, ctx, param, nonce, ps, &shares[0])) else { panic!("{name}: leader_initialized failed on an honest report") };
        let init = lc.message.clone();
        for (label, m) in variants(&init) {
            let r = catch(|| vdaf.helper_initialized(vk, ctx, param, nonce, ps, &shares[1], &m).and_then(|c| c.evaluate(ctx, vdaf)));
            judge("helper_initialized", &label, matches!(r, Ok(Ok(_))));
        }
        let Ok(Ok(hc)) = catch(|| vdaf.helper_initialized(vk, ctx, param, nonce, ps, &shares[1], &init)) else { panic!("{name}: helper_initialized failed") };
        let Ok(Ok(hs)) = catch(|| hc.evaluate(ctx, vdaf)) else { panic!("{name}: helper continuation failed") };
        let (helper_state, to_leader) = match hs {
            PingPongState::Continued(c) => (Some(c.verifier_state.clone()), c.message.clone()),
            PingPongState::FinishedWithOutbound { message, .. } => (None, message),
            PingPongState::Finished { .. } => return,
        };
        for (label, m) in variants(&to_leader) {
            let st = lc.verifier_state.clone();
            let r = catch(|| vdaf.leader_continued(ctx, param, st, &m).and_then(|c| c.evaluate(ctx, vdaf)));
            judge("leader_continued", &label, matches!(r, Ok(Ok(_))));
        }
        let st = lc.verifier_state.clone();
        let Ok(Ok(lc2)) = catch(|| vdaf.leader_continued(ctx, param, st, &to_leader).and_then(|c| c.evaluate(ctx, vdaf))) else { panic!("{name}: leader_continued failed on the honest message") };
        if let (Some(hst), PingPongState::FinishedWithOutbound { message, .. } | PingPongState::Continued(prio::topology::ping_pong::Continued { message, .. })) = (helper_state, lc2) {
            for (label, m) in variants(&message) {
                let st = hst.clone();
                let r = catch(|| vdaf.helper_continued(ctx, param, st, &m).and_then(|c| c.evaluate(ctx, vdaf)));
                judge("helper_continued", &label, matches!(r, Ok(Ok(_))));
            }
        }
        let _ = init.get_encoded();
    }
    let tape = pvh::engine::tape::Tape::Seeded(run.seed ^ 0xC707);
    for (bits, level) in [(3usize, 1usize), (3, 2), (1, 0)] {
        let vdaf: Poplar1<XofTurboShake128, 32> = Poplar1::new(bits);
        let input: Vec<bool> = (0..bits).map(|i| i % 2 == 0).collect();
        let nonce: [u8; 16] = tape.array(1);
        let (ps, shares) = vdaf.shard_with_random(b"c07 pp", &IdpfInput::from_bools(&input), &nonce, &tape.bytes(2, 32 + 96)).unwrap();
        let param = Poplar1AggregationParam::try_from_prefixes(vec![IdpfInput::from_bools(&input[..=level])]).unwrap();
        drive(run, &format!("Poplar1(bits={bits},level={level})"), &vdaf, &tape.array(3), &param, &nonce, &ps, &shares);
    }
    let nonce: [u8; 16] = tape.array(4);
    let vdaf = Prio3::new_count(2).unwrap();
    let (ps, shares) = vdaf.shard_with_random(b"c07 pp", &true, &nonce, &tape.bytes(5, 64)).unwrap();
    drive(run, "Prio3Count", &vdaf, &tape.array(6), &(), &nonce, &ps, &shares);
    let vdaf = Prio3::new_histogram(2, 4, 2).unwrap();
    let (ps, shares) = vdaf.shard_with_random(b"c07 pp", &2usize, &nonce, &tape.bytes(7, 128)).unwrap();
    drive(run, "Prio3Histogram", &vdaf, &tape.array(8), &(), &nonce, &ps, &shares);
}

fn main() {
    let run = Run::from_args("C07", Level::Exploration);
    let lim = run.pick(Limits::quick(), Limits::thorough());
    let pf = Profile { thorough: !run.quick(), wide: false, bits0: false, seed: run.seed };
    let cat = catalogue::build(&pf);
    run.note("catalogue_build_s", json!(run.elapsed()));
    run.rule(
        "every (decodable type, decoding parameter) pair of the crate (Prio3: 7 types x 1..4 aggregators x 1..3 proofs, \
         plus 1- and 2-byte fields; Poplar1 with 32- and 16-byte seeds, bits 1..9, every level, both rounds; Prio2; \
         ping-pong messages and continuations over Prio3Count, Prio3Histogram, Poplar1, Prio2 and the dummy VDAF; seeds, \
         18 fields, IDPF values and public shares, integers, vector helpers) x {crafted header extremes; honest encodings \
         produced in-process under the tape alphabet, all-zero and all-maximal records; per base string: every field slot \
         in {0,p-1,p,p+1,all-ones,p+topbit}, every padding bit, every truncation, extensions by 1-2 bytes, single-byte \
         substitutions (all 255 at tags/lengths/padding; sub-alphabet or all 255 elsewhere by tier); all strings of \
         length <= 2}; oracle = reference grammar + re-encoding identity + encoded_len + PartialEq round trip",
    );
    run.assume("long base strings: substitution positions, truncation lengths and field slots beyond the per-tier cap are a fixed subset (first and last quarter of the cap, even stride between)");
    run.assume("the FLP lengths (input_len, proof_len, verifier_len, output_len) that size the Prio3 records are taken from the library's Type trait (they are C05's subject)");
    for f in &cat.findings {
        run.fail(&f.key, &f.what, f.case.clone());
    }
    pingpong_inner_fields(&run);
    for n in &cat.notes {
        eprintln!("note: {n}");
    }
    run.note("catalogue_entries", json!(cat.entries.len()));
    run.note("catalogue_notes", json!(cat.notes));
    let st = Stats { cases: AtomicU64::new(0), accepted: AtomicU64::new(0), rejected: AtomicU64::new(0), decode_panics: AtomicU64::new(0), per_oracle_reports: Mutex::new(HashMap::new()) };
    let mut by_group: HashMap<&str, u64> = HashMap::new();
    for e in &cat.entries {
        *by_group.entry(e.group).or_insert(0) += 1;
    }
    run.note("entries_by_group", json!(by_group));
    // every honest encoding must be accepted by the reference grammar: a disagreement there is
    // either a library defect or a wrong grammar, and it is reported through the "honest" cases
    let normal: Vec<usize> = (0..cat.entries.len()).filter(|i| !cat.entries[*i].hang_risk && cat.entries[*i].has_reference()).collect();
    let risky: Vec<usize> = (0..cat.entries.len()).filter(|i| cat.entries[*i].hang_risk && cat.entries[*i].has_reference()).collect();
    let kinds_seen: Mutex<std::collections::HashSet<u64>> = Mutex::new(Default::default());
    par::for_each(normal.len() as u64, |ix| {
        let e = &cat.entries[normal[ix as usize]];
        let mut local: std::collections::HashSet<u64> = Default::default();
        let ekey = e.key();
        e.cases(&lim, 0, &mut |k, kind, bytes| {
            check_case(&run, &st, e, k, kind, bytes);
            local.insert(fnv(format!("{ekey}|{kind}").as_bytes()));
        });
        kinds_seen.lock().unwrap().extend(local);
    });
    run.note("sweep_done_s", json!(run.elapsed()));
    // entries whose decoder may not terminate (vectors of zero-sized items): each on its own
    // thread, abandoned when it makes no progress for 2 s (that defect is C08's to report)
    let cat = Arc::new(cat);
    let run = Arc::new(run);
    let st = Arc::new(st);
    let mut stalled = vec![];
    let mut watch: Vec<(usize, Arc<AtomicU64>, Arc<AtomicBool>, u64, std::time::Instant, bool)> = vec![];
    for &i in &risky {
        let progress = Arc::new(AtomicU64::new(0));
        let done = Arc::new(AtomicBool::new(false));
        let (c2, r2, s2, p2, d2, l2) = (cat.clone(), run.clone(), st.clone(), progress.clone(), done.clone(), lim.clone());
        std::thread::spawn(move || {
            let e = &c2.entries[i];
            e.cases(&l2, 0, &mut |k, kind, bytes| {
                p2.store(2 * k + 1, Ordering::SeqCst);
                check_case(&r2, &s2, e, k, kind, bytes);
                p2.store(2 * k + 2, Ordering::SeqCst);
            });
            d2.store(true, Ordering::SeqCst);
        });
        watch.push((i, progress, done, u64::MAX, std::time::Instant::now(), false));
    }
    loop {
        let mut open = 0;
        for w in watch.iter_mut() {
            if w.5 || w.2.load(Ordering::SeqCst) {
                continue;
            }
            open += 1;
            let p = w.1.load(Ordering::SeqCst);
            if p != w.3 {
                w.3 = p;
                w.4 = std::time::Instant::now();
            } else if p % 2 == 1 && w.4.elapsed().as_secs_f64() > 2.0 {
                // inside one decode call for 2 s: abandon the thread
                let k = p / 2;
                let e = &cat.entries[w.0];
                let b = e.case_bytes(&lim, k).map(|(_, b)| hex(&b)).unwrap_or_default();
                stalled.push(json!({"type": e.ty, "param": e.param, "case": k, "bytes": b}));
                w.5 = true;
            }
        }
        if open == 0 {
            break;
        }
        std::thread::sleep(std::time::Duration::from_millis(5));
    }
    if !stalled.is_empty() {
        run.note("decoders_not_terminating (reported by C08; C07 oracles not evaluated beyond that case)", json!(stalled));
        run.assume("entries whose decoder did not return within 2 s on some string (vectors of zero-sized items) are examined only up to that string; the non-termination itself is C08's finding");
    }
    run.count("evaluations", st.cases.load(Ordering::Relaxed));
    run.count("accepted", st.accepted.load(Ordering::Relaxed));
    run.count("rejected", st.rejected.load(Ordering::Relaxed));
    run.count("decode_panics_seen", st.decode_panics.load(Ordering::Relaxed));
    run.count("entries", (normal.len() + risky.len()) as u64);
    run.distinct_many(kinds_seen.lock().unwrap().iter().copied());
    // samples: one honest encoding of a few entries
    for e in cat.entries.iter().filter(|e| !e.honest.is_empty()).step_by((cat.entries.len() / 10).max(1)) {
        let h = &e.honest[0];
        run.sample(json!({"type": e.ty, "param": e.param, "honest_len": h.len(), "honest_prefix": hex(&h[..h.len().min(24)]), "honest_encodings": e.honest.len(), "crafted": e.extras.len()}));
    }
    run.exhaustive(false);
    run.finish();
}
