//! C15 — the DP noise samplers realise the exact discrete Laplace / Gaussian laws, scaled right.
//!
//! Engine: weighted stateless path enumeration (prefix replay), one sampler layer at a time
//! (assume–guarantee). The layer under test runs for real; every call it makes to a lower layer is
//! intercepted (hook H3), the intercept learns the arguments and the explorer branches over the
//! lower layer's outcomes, each weighted by the lower layer's *specified* law for those arguments.
//! Masses are rigorous fixed-point intervals (192 fractional bits, outward rounding); e^-x comes
//! from an alternating-series enclosure. The enumerated output law (plus the unexplored residual)
//! must intersect the closed-form law of Canonne–Kamath–Steinke 2020 for every integer.
//! The lowest layer (uniform big integers) is checked through the public `Rng` interface with
//! scripted words. Public API plumbing (scale = sensitivity / epsilon) and the projection of the
//! noise into the field are checked with the top sampler layer intercepted.
use num_bigint::{BigInt, BigUint};
use num_integer::Integer;
use num_rational::Ratio;
use num_traits::{One, Signed, ToPrimitive, Zero};
use prio::dp::distributions::{
    DiscreteGaussian, DiscreteLaplace, PureDpDiscreteLaplace, ZCdpDiscreteGaussian,
};
use prio::dp::{DifferentialPrivacyStrategy, PureDpBudget, Rational, ZCdpBudget};
use prio::field::{Field128, Field64};
use prio::flp::gadgets::{Mul, ParallelSum};
use prio::flp::types::{Histogram, L1BoundSum, SumVec};
use prio::flp::{Type, TypeWithNoise};
use prio::vdaf::prio3::Prio3;
use prio::vdaf::xof::XofTurboShake128;
use prio::vdaf::{AggregateShare, AggregatorWithNoise};
use prio::verif_hooks::dp as hk;
use pvh::engine::{catch, fnv, par, splitmix, Level, Run};
use pvh::kit::ints::{IntConv, KitField};
use rand::distr::Distribution;
use rand_core::TryRng;
use serde_json::{json, Value};
use std::cell::RefCell;
use std::collections::{BTreeMap, BinaryHeap, HashMap};
use std::convert::Infallible;
use std::rc::Rc;

type Q = Ratio<BigUint>;

thread_local! {
    static TL_FAILS: std::cell::Cell<u64> = const { std::cell::Cell::new(0) };
}
/// `run.fail` plus a per-thread count (used to stop a sweep after its first failing member).
fn vfail(run: &Run, key: &str, what: &str, case: Value) {
    TL_FAILS.with(|c| c.set(c.get() + 1));
    run.fail(key, what, case);
}
thread_local! {
    static NOISE_BASE: std::cell::Cell<u64> = const { std::cell::Cell::new(0) };
}
fn tl_fails() -> u64 {
    TL_FAILS.with(|c| c.get())
}

// ---------------------------------------------------------------------------------------------
// Fixed-point intervals: value = n / 2^FRAC, [lo, hi] encloses the real number.
const FRAC: u64 = 192;

fn fx_one() -> BigUint {
    BigUint::one() << FRAC
}
fn ceil_shr(x: BigUint) -> BigUint {
    let mask = fx_one() - BigUint::one();
    let rem = &x & &mask;
    let q = x >> FRAC;
    if rem.is_zero() {
        q
    } else {
        q + BigUint::one()
    }
}
fn ceil_div(n: &BigUint, d: &BigUint) -> BigUint {
    let (q, r) = n.div_rem(d);
    if r.is_zero() {
        q
    } else {
        q + BigUint::one()
    }
}

#[derive(Clone, Debug, PartialEq, Eq)]
struct Iv {
    lo: BigUint,
    hi: BigUint,
}

impl Iv {
    fn zero() -> Iv {
        Iv { lo: BigUint::zero(), hi: BigUint::zero() }
    }
    fn one() -> Iv {
        Iv { lo: fx_one(), hi: fx_one() }
    }
    fn from_ratio(n: &BigUint, d: &BigUint) -> Iv {
        assert!(!d.is_zero());
        let num = n << FRAC;
        let (q, r) = num.div_rem(d);
        let hi = if r.is_zero() { q.clone() } else { &q + BigUint::one() };
        Iv { lo: q, hi }
    }
    fn from_q(q: &Q) -> Iv {
        Iv::from_ratio(q.numer(), q.denom())
    }
    fn mul(&self, o: &Iv) -> Iv {
        Iv { lo: (&self.lo * &o.lo) >> FRAC, hi: ceil_shr(&self.hi * &o.hi) }
    }
    fn add(&self, o: &Iv) -> Iv {
        Iv { lo: &self.lo + &o.lo, hi: &self.hi + &o.hi }
    }
    fn add_assign(&mut self, o: &Iv) {
        self.lo += &o.lo;
        self.hi += &o.hi;
    }
    /// 1 - x for x in [0,1].
    fn one_minus(&self) -> Iv {
        let one = fx_one();
        assert!(self.hi <= one, "one_minus of a value above 1");
        Iv { lo: &one - &self.hi, hi: &one - &self.lo }
    }
    fn div(&self, o: &Iv) -> Iv {
        assert!(!o.lo.is_zero(), "interval division by an interval containing 0");
        Iv { lo: (&self.lo << FRAC) / &o.hi, hi: ceil_div(&(&self.hi << FRAC), &o.lo) }
    }
    fn disjoint(&self, o: &Iv) -> bool {
        self.lo > o.hi || o.lo > self.hi
    }
    fn is_zero(&self) -> bool {
        self.hi.is_zero()
    }
    fn f(x: &BigUint) -> f64 {
        // x / 2^192 as f64 (display only)
        let bits = x.bits();
        if bits == 0 {
            return 0.0;
        }
        let shift = bits.saturating_sub(60);
        let top = (x >> shift).to_u64().unwrap() as f64;
        top * 2f64.powi(shift as i32 - FRAC as i32)
    }
    fn lo_f(&self) -> f64 {
        Iv::f(&self.lo)
    }
    fn hi_f(&self) -> f64 {
        Iv::f(&self.hi)
    }
    fn show(&self) -> String {
        format!("[{:e}, {:e}] (0x{:x}..0x{:x} / 2^192)", self.lo_f(), self.hi_f(), self.lo, self.hi)
    }
}

thread_local! {
    static EXP_CACHE: RefCell<HashMap<(BigUint, BigUint), Iv>> = RefCell::new(HashMap::new());
}

/// Enclosure of e^-f for f in [0,1]: the alternating Taylor series has decreasing terms, so
/// consecutive partial sums bracket the limit (odd partial sums below, even ones above).
fn exp_neg_frac(f: &Q) -> Iv {
    assert!(f <= &Q::one());
    let fi = Iv::from_q(f);
    let one = BigInt::from(fx_one());
    let mut term = Iv::one();
    // running enclosure of the partial sum S_k (signed arithmetic, tiny negatives possible by rounding)
    let mut s_lo = one.clone();
    let mut s_hi = one.clone();
    let mut lower = BigInt::zero(); // best lower bound (from an odd partial sum)
    let mut upper = one.clone(); // best upper bound (from an even partial sum)
    let thr = BigUint::from(4u8); // 2^-190
    let mut k: u64 = 0;
    loop {
        k += 1;
        let t = term.mul(&fi);
        let kk = BigUint::from(k);
        term = Iv { lo: &t.lo / &kk, hi: ceil_div(&t.hi, &kk) };
        if k % 2 == 1 {
            s_lo -= BigInt::from(term.hi.clone());
            s_hi -= BigInt::from(term.lo.clone());
            lower = s_lo.clone();
        } else {
            s_lo += BigInt::from(term.lo.clone());
            s_hi += BigInt::from(term.hi.clone());
            upper = s_hi.clone();
        }
        if term.hi < thr && k >= 2 {
            break;
        }
        assert!(k < 400, "exp series did not converge");
    }
    if lower.is_negative() {
        lower = BigInt::zero();
    }
    if upper > one {
        upper = one;
    }
    assert!(lower <= upper);
    Iv { lo: lower.to_biguint().unwrap(), hi: upper.to_biguint().unwrap() }
}

fn iv_pow(base: &Iv, mut n: u64) -> Iv {
    let mut acc = Iv::one();
    let mut b = base.clone();
    while n > 0 {
        if n & 1 == 1 {
            acc = acc.mul(&b);
        }
        n >>= 1;
        if n > 0 {
            b = b.mul(&b);
        }
    }
    acc
}

/// Enclosure of e^-x for a non-negative rational x: e^-x = (e^-1)^floor(x) * e^-(x - floor x).
fn exp_neg(x: &Q) -> Iv {
    let key = (x.numer().clone(), x.denom().clone());
    if let Some(v) = EXP_CACHE.with(|c| c.borrow().get(&key).cloned()) {
        return v;
    }
    let n = x.floor().to_integer();
    let frac = x - Q::from_integer(n.clone());
    let mut r = exp_neg_frac(&frac);
    if !n.is_zero() {
        let n64 = n.to_u64().expect("exp_neg argument absurdly large");
        // beyond 192 bits of underflow the enclosure is [0, 1ulp] anyway
        let e1 = exp_neg_frac(&Q::one());
        r = r.mul(&iv_pow(&e1, n64.min(1_000_000)));
    }
    EXP_CACHE.with(|c| {
        let mut c = c.borrow_mut();
        if c.len() > 2_000_000 {
            c.clear();
        }
        c.insert(key, r.clone());
    });
    r
}

// ---------------------------------------------------------------------------------------------
// Calls and answers (harness-side mirror of the hook types, with equality).
#[derive(Clone, Copy, Debug, PartialEq, Eq, Hash, PartialOrd, Ord)]
enum Kind {
    Uniform,
    Bern,
    BernExp1,
    BernExp,
    Geom,
    Lap,
    Gauss,
}

impl Kind {
    fn name(&self) -> &'static str {
        match self {
            Kind::Uniform => "uniform",
            Kind::Bern => "bernoulli",
            Kind::BernExp1 => "bernoulli_exp1",
            Kind::BernExp => "bernoulli_exp",
            Kind::Geom => "geometric",
            Kind::Lap => "laplace",
            Kind::Gauss => "gaussian",
        }
    }
}

/// A call with its argument in lowest terms (`Uniform`: num = bound, den = 1).
#[derive(Clone, Debug, PartialEq, Eq, Hash)]
struct Cl {
    kind: Kind,
    num: BigUint,
    den: BigUint,
}

impl Cl {
    fn new(kind: Kind, q: &Q) -> Cl {
        let g = q.numer().gcd(q.denom());
        Cl { kind, num: q.numer() / &g, den: q.denom() / &g }
    }
    fn uniform(b: &BigUint) -> Cl {
        Cl { kind: Kind::Uniform, num: b.clone(), den: BigUint::one() }
    }
    fn from_call(c: &hk::Call) -> Result<Cl, String> {
        let (kind, q) = match c {
            hk::Call::UniformBelow(b) => return Ok(Cl::uniform(b)),
            hk::Call::Bernoulli(q) => (Kind::Bern, q),
            hk::Call::BernoulliExp1(q) => (Kind::BernExp1, q),
            hk::Call::BernoulliExp(q) => (Kind::BernExp, q),
            hk::Call::GeometricExp(q) => (Kind::Geom, q),
            hk::Call::Laplace(q) => (Kind::Lap, q),
            hk::Call::Gaussian(q) => (Kind::Gauss, q),
        };
        if q.denom().is_zero() {
            return Err(format!("{} called with a zero denominator", kind.name()));
        }
        Ok(Cl::new(kind, q))
    }
    fn q(&self) -> Q {
        Q::new(self.num.clone(), self.den.clone())
    }
    fn show(&self) -> String {
        if self.den.is_one() {
            format!("{}({})", self.kind.name(), self.num)
        } else {
            format!("{}({}/{})", self.kind.name(), self.num, self.den)
        }
    }
    fn hash_into(&self, h: u64) -> u64 {
        let mut v = h.to_le_bytes().to_vec();
        v.push(self.kind as u8);
        v.extend(self.num.to_bytes_le());
        v.push(0xfe);
        v.extend(self.den.to_bytes_le());
        fnv(&v)
    }
    /// Is the call inside the domain on which the lower layer's law is specified?
    fn domain(&self) -> Result<(), String> {
        match self.kind {
            Kind::Uniform if self.num.is_zero() => Err("uniform draw below 0".into()),
            Kind::Bern | Kind::BernExp1 if self.num > self.den => {
                Err(format!("{} called with an argument above 1", self.show()))
            }
            _ => Ok(()),
        }
    }
}

/// Lower-layer outcomes are always small; compact representation.
#[derive(Clone, Copy, Debug, PartialEq, Eq, Hash)]
enum Ans {
    B(bool),
    N(u64),
    I(i64),
}

impl Ans {
    fn to_answer(self) -> hk::Answer {
        match self {
            Ans::B(b) => hk::Answer::Bool(b),
            Ans::N(n) => hk::Answer::Nat(BigUint::from(n)),
            Ans::I(i) => hk::Answer::Int(BigInt::from(i)),
        }
    }
    fn show(&self) -> String {
        match self {
            Ans::B(b) => format!("{b}"),
            Ans::N(n) => format!("{n}"),
            Ans::I(i) => format!("{i}"),
        }
    }
}

const MAX_UNIFORM_ENUM: u64 = 1 << 20;

/// The j-th outcome (roughly decreasing mass) of the lower layer `cl` and its mass under the
/// layer's *specified* law. `None` when the outcomes are exhausted.
fn branch(cl: &Cl, j: u64) -> Option<(Ans, Iv)> {
    match cl.kind {
        Kind::Uniform => {
            let b = cl.num.to_u64().filter(|b| *b <= MAX_UNIFORM_ENUM).unwrap_or_else(|| {
                panic!("harness: uniform bound {} too large to enumerate", cl.num)
            });
            if j < b {
                Some((Ans::N(j), Iv::from_ratio(&BigUint::one(), &cl.num)))
            } else {
                None
            }
        }
        Kind::Bern => {
            if j > 1 {
                return None;
            }
            let p = Iv::from_ratio(&cl.num, &cl.den);
            let true_first = &cl.num * 2u8 >= cl.den;
            let want_true = (j == 0) == true_first;
            Some(if want_true { (Ans::B(true), p) } else { (Ans::B(false), p.one_minus()) })
        }
        Kind::BernExp1 | Kind::BernExp => {
            if j > 1 {
                return None;
            }
            let e = exp_neg(&cl.q());
            let true_first = &e.lo * 2u8 >= fx_one();
            let want_true = (j == 0) == true_first;
            Some(if want_true { (Ans::B(true), e) } else { (Ans::B(false), e.one_minus()) })
        }
        Kind::Geom => {
            let g = cl.q();
            if g.is_zero() {
                return if j == 0 { Some((Ans::N(0), Iv::one())) } else { None };
            }
            let head = exp_neg(&g).one_minus();
            let tail = exp_neg(&(&g * Q::from_integer(BigUint::from(j))));
            Some((Ans::N(j), head.mul(&tail)))
        }
        Kind::Lap => {
            let s = cl.q();
            if s.is_zero() {
                return if j == 0 { Some((Ans::I(0), Iv::one())) } else { None };
            }
            let y: i64 = if j == 0 {
                0
            } else if j % 2 == 1 {
                ((j + 1) / 2) as i64
            } else {
                -((j / 2) as i64)
            };
            Some((Ans::I(y), laplace_pmf(&s, &BigInt::from(y))))
        }
        Kind::Gauss => panic!("harness: the Gaussian layer is never a lower layer"),
    }
}

// ---------------------------------------------------------------------------------------------
// Closed-form laws (Canonne–Kamath–Steinke 2020).

/// P(X = x) = (1 - e^-g) e^(-g x), x >= 0.
fn geometric_pmf(g: &Q, x: &BigInt) -> Iv {
    if x.is_negative() {
        return Iv::zero();
    }
    if g.is_zero() {
        return if x.is_zero() { Iv::one() } else { Iv::zero() };
    }
    let xu = x.to_biguint().unwrap();
    exp_neg(g).one_minus().mul(&exp_neg(&(g * Q::from_integer(xu))))
}

/// P(Y = y) = (e^(1/s) - 1)/(e^(1/s) + 1) e^(-|y|/s) = (1 - e^(-1/s))/(1 + e^(-1/s)) e^(-|y|/s).
fn laplace_pmf(s: &Q, y: &BigInt) -> Iv {
    if s.is_zero() {
        return if y.is_zero() { Iv::one() } else { Iv::zero() };
    }
    let g = s.recip();
    let e = exp_neg(&g);
    let c = e.one_minus().div(&Iv::one().add(&e));
    let a = y.abs().to_biguint().unwrap();
    c.mul(&exp_neg(&(g * Q::from_integer(a))))
}

/// Normaliser Z = sum_y e^(-y^2/(2 sigma^2)) as an interval: truncated sum plus the rigorous tail
/// bound sum_{|y|>Y} e^(-y^2/2s^2) <= 2 q^(Y+1)/(1-q), q = e^(-(Y+1)/(2 s^2)) (as y^2 >= (Y+1) y).
fn gaussian_normaliser(sigma: &Q) -> Iv {
    let two_s2 = sigma * sigma * Q::from_integer(BigUint::from(2u8));
    let ymax: u64 = sigma.ceil().to_integer().to_u64().unwrap() * 14 + 8;
    let mut z = Iv::one();
    for y in 1..=ymax {
        let t = exp_neg(&(Q::from_integer(BigUint::from(y * y)) / &two_s2));
        z.add_assign(&t);
        z.add_assign(&t);
    }
    let y1 = ymax + 1;
    let q = exp_neg(&(Q::from_integer(BigUint::from(y1)) / &two_s2));
    let qy = exp_neg(&(Q::from_integer(BigUint::from(y1 * y1)) / &two_s2));
    let tail = qy.div(&q.one_minus());
    let tail_hi = &tail.hi * 2u8;
    assert!(tail_hi < (BigUint::one() << (FRAC - 90)), "gaussian tail bound too weak");
    Iv { lo: z.lo, hi: z.hi + tail_hi }
}

fn gaussian_pmf(sigma: &Q, z: &Iv, y: &BigInt) -> Iv {
    if sigma.is_zero() {
        return if y.is_zero() { Iv::one() } else { Iv::zero() };
    }
    let two_s2 = sigma * sigma * Q::from_integer(BigUint::from(2u8));
    let a = y.abs().to_biguint().unwrap();
    exp_neg(&(Q::from_integer(&a * &a) / two_s2)).div(z)
}

// ---------------------------------------------------------------------------------------------
// The explorer.

/// An `Rng` that must never be used: while a layer is intercepted all randomness has to come
/// through the layer below.
struct PoisonRng {
    used: bool,
}
impl TryRng for PoisonRng {
    type Error = Infallible;
    fn try_next_u32(&mut self) -> Result<u32, Infallible> {
        self.used = true;
        Ok(0)
    }
    fn try_next_u64(&mut self) -> Result<u64, Infallible> {
        self.used = true;
        Ok(0)
    }
    fn try_fill_bytes(&mut self, dst: &mut [u8]) -> Result<(), Infallible> {
        self.used = true;
        dst.fill(0);
        Ok(())
    }
}

#[derive(Clone, Copy, PartialEq, Eq, Debug)]
enum Mode {
    /// every lower-layer call is answered by the explorer
    Layer,
    /// only the uniform layer is answered, everything above runs for real
    EndToEnd,
}

struct Cfg {
    entry: Cl,
    mode: Mode,
    renewal: bool,
    target_bits: u64,
    max_runs: u64,
    max_heap: usize,
}

#[derive(Clone, Debug, PartialEq)]
enum End {
    Out(BigInt),
    Renewal,
    Aborted,
    Panic(String),
    Domain(String),
    Diverged(String),
}

struct St {
    entry: Cl,
    mode: Mode,
    prefix: Vec<Ans>,
    expect_calls: Option<Vec<Cl>>,
    expect_hash: Option<u64>,
    base: usize,
    renewal: bool,
    root: Option<Cl>,
    calls: Vec<Cl>,
    answers: Vec<Ans>,
    hash: u64,
    mass: Iv,
    masses_before: Vec<Iv>,
    abort: Option<End>,
    entry_seen: bool,
    answered: u64,
    thr: BigUint,
    depth_cap: usize,
}

struct RunOut {
    calls: Vec<Cl>,
    answers: Vec<Ans>,
    /// mass before each *new* position (index prefix.len()..)
    masses_before: Vec<Iv>,
    mass: Iv,
    hash: u64,
    end: End,
    rng_used: bool,
    answered: u64,
}

const ABORT_MSG: &str = "C15-ABORT";

fn hook(st: &Rc<RefCell<St>>, c: &hk::Call) -> Option<hk::Answer> {
    let mut abort = false;
    let mut ret = None;
    {
        let mut s = st.borrow_mut();
        let s = &mut *s;
        match Cl::from_call(c) {
            Err(e) => {
                s.abort = Some(End::Domain(e));
                abort = true;
            }
            Ok(cl) => {
                if !s.entry_seen {
                    s.entry_seen = true;
                    if cl == s.entry {
                        return None; // the layer under test itself runs for real
                    }
                    s.abort = Some(End::Diverged(format!(
                        "first intercepted call is {} instead of the entry call {}",
                        cl.show(),
                        s.entry.show()
                    )));
                    abort = true;
                } else if s.mode == Mode::EndToEnd && cl.kind != Kind::Uniform {
                    return None;
                } else if let Err(e) = cl.domain() {
                    s.abort = Some(End::Domain(e));
                    abort = true;
                } else {
                    let i = s.calls.len();
                    if s.renewal && s.root.is_none() && i == 0 {
                        s.root = Some(cl.clone());
                    }
                    if s.root.as_ref().is_some_and(|r| i > s.base && *r == cl) {
                        s.abort = Some(End::Renewal);
                        abort = true;
                    } else if i < s.prefix.len() {
                        if let Some(exp) = &s.expect_calls {
                            if exp[i] != cl {
                                s.abort = Some(End::Diverged(format!(
                                    "replay: call #{i} is {} but was {}",
                                    cl.show(),
                                    exp[i].show()
                                )));
                                abort = true;
                            }
                        }
                        if !abort {
                            s.hash = cl.hash_into(s.hash);
                            if i + 1 == s.prefix.len() {
                                if let Some(h) = s.expect_hash {
                                    if h != s.hash {
                                        s.abort = Some(End::Diverged(
                                            "replay: call sequence differs from the recorded prefix".into(),
                                        ));
                                        abort = true;
                                    }
                                }
                            }
                        }
                        if !abort {
                            let a = s.prefix[i];
                            s.calls.push(cl);
                            s.answers.push(a);
                            s.answered += 1;
                            ret = Some(a.to_answer());
                        }
                    } else {
                        let (a, w) = branch(&cl, 0).expect("a call has at least one outcome");
                        let m = s.mass.mul(&w);
                        if m.hi < s.thr || i >= s.depth_cap {
                            s.abort = Some(End::Aborted);
                            abort = true;
                        } else {
                            s.masses_before.push(std::mem::replace(&mut s.mass, m));
                            s.hash = cl.hash_into(s.hash);
                            s.calls.push(cl);
                            s.answers.push(a);
                            s.answered += 1;
                            ret = Some(a.to_answer());
                        }
                    }
                }
            }
        }
    }
    if abort {
        panic!("{}", ABORT_MSG);
    }
    ret
}

type Subject<'a> = &'a dyn Fn(&mut PoisonRng) -> BigInt;

#[allow(clippy::too_many_arguments)]
fn run_once(
    subject: Subject,
    cfg: &Cfg,
    prefix: &[Ans],
    expect_calls: Option<Vec<Cl>>,
    expect_hash: Option<u64>,
    start_mass: &Iv,
    base: usize,
    root: Option<&Cl>,
) -> RunOut {
    let st = Rc::new(RefCell::new(St {
        entry: cfg.entry.clone(),
        mode: cfg.mode,
        prefix: prefix.to_vec(),
        expect_calls,
        expect_hash,
        base,
        renewal: cfg.renewal,
        root: root.cloned(),
        calls: Vec::new(),
        answers: Vec::new(),
        hash: 0,
        mass: start_mass.clone(),
        masses_before: Vec::new(),
        abort: None,
        entry_seen: false,
        answered: 0,
        thr: fx_one() >> (cfg.target_bits + 40),
        depth_cap: 5000,
    }));
    let st2 = st.clone();
    hk::set_intercept(Some(Box::new(move |c| hook(&st2, c))));
    let mut rng = PoisonRng { used: false };
    let res = catch(|| subject(&mut rng));
    hk::set_intercept(None);
    let mut s = st.borrow_mut();
    let end = match (s.abort.take(), res) {
        (Some(e), _) => e,
        (None, Ok(v)) => {
            if !s.entry_seen {
                End::Diverged("the entry call was never intercepted".into())
            } else if s.answers.len() < prefix.len() {
                End::Diverged("the subject consumed fewer answers than the replayed prefix".into())
            } else {
                End::Out(v)
            }
        }
        (None, Err(m)) => End::Panic(m),
    };
    RunOut {
        calls: std::mem::take(&mut s.calls),
        answers: std::mem::take(&mut s.answers),
        masses_before: std::mem::take(&mut s.masses_before),
        mass: s.mass.clone(),
        hash: s.hash,
        end,
        rng_used: rng.used,
        answered: s.answered,
    }
}

struct Node {
    key: BigUint,
    seq: u64,
    answers: Vec<Ans>,
    hash_before_last: u64,
    last_call: Option<Cl>,
    last_idx: u64,
    parent_mass: Iv,
    mass: Iv,
}
impl PartialEq for Node {
    fn eq(&self, o: &Self) -> bool {
        self.key == o.key && self.seq == o.seq
    }
}
impl Eq for Node {}
impl PartialOrd for Node {
    fn partial_cmp(&self, o: &Self) -> Option<std::cmp::Ordering> {
        Some(self.cmp(o))
    }
}
impl Ord for Node {
    fn cmp(&self, o: &Self) -> std::cmp::Ordering {
        self.key.cmp(&o.key).then(o.seq.cmp(&self.seq))
    }
}

struct Leaf {
    answers: Vec<Ans>,
    calls: Vec<Cl>,
    mass: Iv,
    /// `None` = renewal leaf
    out: Option<BigInt>,
}

struct Explored {
    /// output -> (mass, first path reaching it)
    law: BTreeMap<BigInt, (Iv, Vec<Ans>)>,
    renewal_mass: Iv,
    /// kept only in renewal mode
    leaves: Vec<Leaf>,
    n_leaves: u64,
    root: Option<Cl>,
    explored_lo: BigUint,
    runs: u64,
    answered: u64,
    budget_hit: bool,
    max_depth: usize,
    problems: Vec<(String, String, Value)>,
    nonconforming: u64,
    first_nonconforming: Option<String>,
    hashes: Vec<u64>,
}

impl Explored {
    /// upper bound on the unexplored mass
    fn residual_hi(&self) -> BigUint {
        let one = fx_one();
        if self.explored_lo >= one {
            BigUint::zero()
        } else {
            one - &self.explored_lo
        }
    }
}

fn show_path(calls: &[Cl], answers: &[Ans]) -> String {
    calls
        .iter()
        .zip(answers)
        .map(|(c, a)| format!("{}->{}", c.show(), a.show()))
        .collect::<Vec<_>>()
        .join(" ")
}

/// Weighted best-first exploration of all answer sequences of `subject`.
fn explore(
    subject: Subject,
    cfg: &Cfg,
    model: Option<&dyn Fn(&[(Cl, Ans)]) -> Step>,
) -> Explored {
    let mut ex = Explored {
        law: BTreeMap::new(),
        renewal_mass: Iv::zero(),
        leaves: Vec::new(),
        n_leaves: 0,
        root: None,
        explored_lo: BigUint::zero(),
        runs: 0,
        answered: 0,
        budget_hit: false,
        max_depth: 0,
        problems: Vec::new(),
        nonconforming: 0,
        first_nonconforming: None,
        hashes: Vec::new(),
    };
    let mut heap: BinaryHeap<Node> = BinaryHeap::new();
    let mut seq = 0u64;
    heap.push(Node {
        key: fx_one(),
        seq,
        answers: vec![],
        hash_before_last: 0,
        last_call: None,
        last_idx: 0,
        parent_mass: Iv::one(),
        mass: Iv::one(),
    });
    // stop when the residual (scaled by 4 in renewal mode, where it is divided by 1-r > 1/4) is
    // below 2^-target
    let stop_at = fx_one() >> (cfg.target_bits + if cfg.renewal { 2 } else { 0 });
    while let Some(node) = heap.pop() {
        if ex.residual_hi() < stop_at {
            break;
        }
        if ex.runs >= cfg.max_runs || heap.len() > cfg.max_heap {
            ex.budget_hit = true;
            break;
        }
        // next sibling of the node's last answer (lazy sibling chain)
        if let Some(lc) = &node.last_call {
            if let Some((a, w)) = branch(lc, node.last_idx + 1) {
                let m = node.parent_mass.mul(&w);
                if !m.is_zero() {
                    let mut answers = node.answers.clone();
                    *answers.last_mut().unwrap() = a;
                    seq += 1;
                    heap.push(Node {
                        key: m.hi.clone(),
                        seq,
                        answers,
                        hash_before_last: node.hash_before_last,
                        last_call: Some(lc.clone()),
                        last_idx: node.last_idx + 1,
                        parent_mass: node.parent_mass.clone(),
                        mass: m,
                    });
                }
            }
        }
        let expect_hash = node.last_call.as_ref().map(|lc| lc.hash_into(node.hash_before_last));
        let plen = node.answers.len();
        let r = run_once(subject, cfg, &node.answers, None, expect_hash, &node.mass, 0, ex.root.as_ref());
        ex.runs += 1;
        ex.answered += r.answered;
        ex.max_depth = ex.max_depth.max(r.calls.len());
        if cfg.renewal && ex.root.is_none() && !r.calls.is_empty() {
            ex.root = Some(r.calls[0].clone());
        }
        if let End::Diverged(m) = &r.end {
            panic!("harness: {} {}: {m}; path: {}", cfg.entry.show(), "exploration diverged", show_path(&r.calls, &r.answers));
        }
        if r.rng_used {
            ex.problems.push((
                "rng".into(),
                format!("{}: the random source was used directly, not through the layer below", cfg.entry.show()),
                json!({"path": show_path(&r.calls, &r.answers)}),
            ));
        }
        // siblings of the newly taken default answers
        let mut h = node.last_call.as_ref().map(|lc| lc.hash_into(node.hash_before_last)).unwrap_or(0);
        for i in plen..r.answers.len() {
            let before = &r.masses_before[i - plen];
            if let Some((a, w)) = branch(&r.calls[i], 1) {
                let m = before.mul(&w);
                if !m.is_zero() {
                    let mut answers = r.answers[..i].to_vec();
                    answers.push(a);
                    seq += 1;
                    heap.push(Node {
                        key: m.hi.clone(),
                        seq,
                        answers,
                        hash_before_last: h,
                        last_call: Some(r.calls[i].clone()),
                        last_idx: 1,
                        parent_mass: before.clone(),
                        mass: m,
                    });
                }
            }
            h = r.calls[i].hash_into(h);
        }
        assert_eq!(h, r.hash, "harness: rolling call hash out of step");
        match &r.end {
            End::Out(_) | End::Renewal => {
                let out = if let End::Out(x) = &r.end { Some(x.clone()) } else { None };
                ex.explored_lo += &r.mass.lo;
                ex.n_leaves += 1;
                if ex.hashes.len() < 200_000 {
                    ex.hashes.push(fnv(format!("{}|{:?}", cfg.entry.show(), r.answers).as_bytes()));
                }
                if let Some(model) = model {
                    if let Some(dev) = conformance(model, &r.calls, &r.answers, out.as_ref(), ex.root.as_ref()) {
                        ex.nonconforming += 1;
                        if ex.first_nonconforming.is_none() {
                            ex.first_nonconforming =
                                Some(format!("{dev}; path: {}", show_path(&r.calls, &r.answers)));
                        }
                    }
                }
                match &out {
                    Some(x) => {
                        let e = ex.law.entry(x.clone()).or_insert_with(|| (Iv::zero(), r.answers.clone()));
                        e.0.add_assign(&r.mass);
                    }
                    None => ex.renewal_mass.add_assign(&r.mass),
                }
                if cfg.renewal {
                    ex.leaves.push(Leaf { answers: r.answers, calls: r.calls, mass: r.mass, out });
                }
            }
            End::Aborted => {}
            End::Panic(m) => ex.problems.push((
                "panic".into(),
                format!("{} panicked: {m}", cfg.entry.show()),
                json!({"path": show_path(&r.calls, &r.answers)}),
            )),
            End::Domain(m) => ex.problems.push((
                "domain".into(),
                format!("{}: lower layer called outside its domain: {m}", cfg.entry.show()),
                json!({"path": show_path(&r.calls, &r.answers)}),
            )),
            End::Diverged(_) => unreachable!(),
        }
    }
    ex
}

/// Regenerative structure: every renewal leaf p (the sampler is about to repeat its first call)
/// must behave below p exactly like the root: for every first-iteration path w, the run p·w makes
/// the calls of w and ends like w. Checked for all concatenations of up to `depth` renewal
/// segments followed by any segment, with product mass >= 2^-target (depth as the budget allows,
/// at least 1). A mismatch is a harness error (the regenerative reading does not apply).
fn verify_renewal(subject: Subject, cfg: &Cfg, ex: &mut Explored, budget: u64) -> (u32, u64) {
    let root = match &ex.root {
        Some(r) => r.clone(),
        None => return (0, 0),
    };
    let ren: Vec<usize> = (0..ex.leaves.len()).filter(|i| ex.leaves[*i].out.is_none()).collect();
    if ren.is_empty() {
        return (0, 0);
    }
    let thr = 2f64.powi(-(cfg.target_bits as i32));
    let mf: Vec<f64> = ex.leaves.iter().map(|l| l.mass.hi_f()).collect();
    // prefixes at the current depth: (list of renewal leaf indices, mass)
    let mut level: Vec<(Vec<usize>, f64)> = ren.iter().map(|i| (vec![*i], mf[*i])).collect();
    let mut depth = 0u32;
    let mut pairs = 0u64;
    loop {
        // count the work of this level
        let mut work = 0u64;
        for (_, pm) in &level {
            work += mf.iter().filter(|w| pm * **w >= thr).count() as u64;
        }
        if depth >= 1 && pairs + work > budget {
            break;
        }
        for (p, pm) in &level {
            let mut pa: Vec<Ans> = vec![];
            let mut pc: Vec<Cl> = vec![];
            for i in p {
                pa.extend_from_slice(&ex.leaves[*i].answers);
                pc.extend_from_slice(&ex.leaves[*i].calls);
            }
            let base = pa.len();
            for (wi, w) in ex.leaves.iter().enumerate() {
                if pm * mf[wi] < thr {
                    continue;
                }
                let mut a = pa.clone();
                a.extend_from_slice(&w.answers);
                let mut c = pc.clone();
                c.extend_from_slice(&w.calls);
                let n = c.len();
                let r = run_once(subject, cfg, &a, Some(c), None, &Iv::one(), base, Some(&root));
                ex.runs += 1;
                ex.answered += r.answered;
                pairs += 1;
                let ok = match (&r.end, &w.out) {
                    (End::Out(x), Some(y)) => x == y && r.calls.len() == n,
                    (End::Renewal, None) => r.calls.len() == n,
                    _ => false,
                };
                if let End::Panic(m) = &r.end {
                    ex.problems.push((
                        "panic".into(),
                        format!("{} panicked: {m}", cfg.entry.show()),
                        json!({"path": show_path(&r.calls, &r.answers)}),
                    ));
                    continue;
                }
                if r.rng_used {
                    ex.problems.push((
                        "rng".into(),
                        format!("{}: the random source was used directly", cfg.entry.show()),
                        json!({"path": show_path(&r.calls, &r.answers)}),
                    ));
                }
                if !ok {
                    panic!(
                        "harness: {}: regenerative structure not confirmed: after renewal prefix of {} answers the continuation {} ended {:?} with {} calls (expected {:?} with {} calls)",
                        cfg.entry.show(), base, show_path(&w.calls, &w.answers), r.end, r.calls.len(), w.out, n
                    );
                }
            }
        }
        depth += 1;
        // next level
        let mut next = vec![];
        let mut too_many = false;
        'outer: for (p, pm) in &level {
            for i in &ren {
                if pm * mf[*i] >= thr {
                    let mut q = p.clone();
                    q.push(*i);
                    next.push((q, pm * mf[*i]));
                    if next.len() as u64 > budget {
                        too_many = true;
                        break 'outer;
                    }
                }
            }
        }
        if too_many || next.is_empty() || depth >= 8 {
            break;
        }
        level = next;
    }
    (depth, pairs)
}

// ---------------------------------------------------------------------------------------------
// Boring reference models of the layers (the algorithms of CKS20 as straight-line state
// machines): given the history of (call, answer) pairs, what happens next. Used as a diagnostic
// (which call deviates) — the verdict is the law.
enum Step {
    Call(Cl),
    Return(BigInt),
}

fn qi(n: u64) -> Q {
    Q::from_integer(BigUint::from(n))
}

fn model_step(layer: Kind, param: &Q, hist: &[(Cl, Ans)]) -> Step {
    let b2i = |b: bool| BigInt::from(b as u8);
    match layer {
        Kind::Bern => match hist.first() {
            // one uniform draw u in [0, d), s = u + 1, output s <= n
            None => Step::Call(Cl::uniform(param.denom())),
            Some((_, Ans::N(u))) => Step::Return(b2i(BigUint::from(*u) + 1u8 <= *param.numer())),
            _ => Step::Return(BigInt::from(-1)),
        },
        Kind::BernExp1 => {
            // k = 1, 2, ...: Bernoulli(gamma/k); true -> next k; false -> k odd
            let k = hist.len() as u64 + 1;
            match hist.last() {
                Some((_, Ans::B(false))) => Step::Return(b2i((k - 1) % 2 == 1)),
                _ => Step::Call(Cl::new(Kind::Bern, &(param / qi(k)))),
            }
        }
        Kind::BernExp => {
            let n = param.floor().to_integer();
            if let Some((_, Ans::B(false))) = hist.last() {
                return Step::Return(b2i(false));
            }
            let i = BigUint::from(hist.len() as u64);
            if i < n {
                Step::Call(Cl::new(Kind::BernExp1, &Q::one()))
            } else if i == n {
                Step::Call(Cl::new(Kind::BernExp1, &(param - Q::from_integer(n))))
            } else {
                Step::Return(b2i(true))
            }
        }
        Kind::Geom => {
            if param.is_zero() {
                return Step::Return(BigInt::zero());
            }
            let (s, t) = (param.numer(), param.denom());
            // phase 1: (uniform u, accept with e^{-u/t}) until accepted
            let mut i = 0;
            let mut u = 0u64;
            loop {
                if i >= hist.len() {
                    return Step::Call(Cl::uniform(t));
                }
                if let Ans::N(x) = hist[i].1 {
                    u = x;
                }
                if i + 1 >= hist.len() {
                    return Step::Call(Cl::new(Kind::BernExp1, &Q::new(BigUint::from(u), t.clone())));
                }
                let acc = hist[i + 1].1 == Ans::B(true);
                i += 2;
                if acc {
                    break;
                }
            }
            // phase 2: v = number of successes of Bernoulli(e^-1)
            let mut v = 0u64;
            loop {
                if i >= hist.len() {
                    return Step::Call(Cl::new(Kind::BernExp1, &Q::one()));
                }
                if hist[i].1 == Ans::B(true) {
                    v += 1;
                    i += 1;
                } else {
                    let x = BigUint::from(u) + t * BigUint::from(v);
                    return Step::Return(BigInt::from(x / s));
                }
            }
        }
        Kind::Lap => {
            if param.is_zero() {
                return Step::Return(BigInt::zero());
            }
            let mut i = 0;
            loop {
                if i >= hist.len() {
                    return Step::Call(Cl::new(Kind::Bern, &Q::new(BigUint::one(), BigUint::from(2u8))));
                }
                let neg = hist[i].1 == Ans::B(true);
                if i + 1 >= hist.len() {
                    return Step::Call(Cl::new(Kind::Geom, &param.recip()));
                }
                let y = match hist[i + 1].1 {
                    Ans::N(y) => y as i64,
                    _ => -1,
                };
                i += 2;
                if neg && y == 0 {
                    continue;
                }
                return Step::Return(BigInt::from(if neg { -y } else { y }));
            }
        }
        Kind::Gauss => {
            if param.is_zero() {
                return Step::Return(BigInt::zero());
            }
            let t = Q::from_integer(param.floor().to_integer() + 1u8);
            let s2 = param * param;
            let mut i = 0;
            loop {
                if i >= hist.len() {
                    return Step::Call(Cl::new(Kind::Lap, &t));
                }
                let y = match hist[i].1 {
                    Ans::I(y) => y,
                    _ => 0,
                };
                if i + 1 >= hist.len() {
                    // (|y| - sigma^2/t)^2 / (2 sigma^2)
                    let a = qi(y.unsigned_abs());
                    let c = &s2 / &t;
                    let d = if a >= c { a - c } else { c - a };
                    let arg = &d * &d / (&s2 * qi(2));
                    return Step::Call(Cl::new(Kind::BernExp, &arg));
                }
                let acc = hist[i + 1].1 == Ans::B(true);
                i += 2;
                if acc {
                    return Step::Return(BigInt::from(y));
                }
            }
        }
        Kind::Uniform => unreachable!(),
    }
}

/// `None` if the path follows the model; otherwise a description of the first deviation.
fn conformance(
    model: &dyn Fn(&[(Cl, Ans)]) -> Step,
    calls: &[Cl],
    answers: &[Ans],
    out: Option<&BigInt>,
    root: Option<&Cl>,
) -> Option<String> {
    let hist: Vec<(Cl, Ans)> = calls.iter().cloned().zip(answers.iter().cloned()).collect();
    for i in 0..=hist.len() {
        let step = model(&hist[..i]);
        if i < hist.len() {
            match step {
                Step::Call(c) if c == hist[i].0 => {}
                Step::Call(c) => return Some(format!("call #{i} is {} where CKS20 prescribes {}", hist[i].0.show(), c.show())),
                Step::Return(x) => return Some(format!("call #{i} is {} where CKS20 returns {x}", hist[i].0.show())),
            }
        } else {
            match (step, out) {
                (Step::Return(x), Some(o)) if x == *o => {}
                (Step::Return(x), Some(o)) => return Some(format!("returned {o} where CKS20 returns {x}")),
                (Step::Call(c), None) if Some(&c) == root => {}
                (Step::Call(c), Some(o)) => return Some(format!("returned {o} where CKS20 goes on with {}", c.show())),
                (s, None) => {
                    return Some(format!(
                        "restarted where CKS20 {}",
                        match s {
                            Step::Return(x) => format!("returns {x}"),
                            Step::Call(c) => format!("calls {}", c.show()),
                        }
                    ))
                }
            }
        }
    }
    None
}

// ---------------------------------------------------------------------------------------------
// Law comparison.

fn qs(q: &Q) -> String {
    if q.denom().is_one() {
        format!("{}", q.numer())
    } else {
        format!("{}/{}", q.numer(), q.denom())
    }
}

struct LayerReport {
    residual_bits: f64,
    leaves: u64,
    runs: u64,
    answered: u64,
    renewal_depth: u32,
    renewal_pairs: u64,
    budget_hit: bool,
    nonconforming: u64,
}

/// Compare the enumerated law with `expected` on every observed output and every candidate.
/// Sound: P(x) lies in [A_lo(x), A_hi(x) + U] / (1 - r) where A = explored mass ending in x,
/// r = mass of renewal leaves, U = unexplored mass; a failure needs disjoint intervals.
#[allow(clippy::too_many_arguments)]
fn law_check(
    run: &Run,
    key: &str,
    title: &str,
    ex: &Explored,
    expected: &dyn Fn(&BigInt) -> Iv,
    candidates: &[BigInt],
) -> f64 {
    let one = fx_one();
    let u_hi = ex.residual_hi();
    let r = &ex.renewal_mass;
    assert!(r.hi < one, "harness: renewal mass is not below 1");
    let den = Iv { lo: &one - &r.hi, hi: &one - &r.lo };
    let prob = |a: &Iv| -> Iv {
        let up = Iv { lo: a.lo.clone(), hi: &a.hi + &u_hi };
        if r.is_zero() {
            up
        } else {
            up.div(&den)
        }
    };
    let mut xs: Vec<BigInt> = ex.law.keys().cloned().collect();
    xs.extend(candidates.iter().cloned());
    xs.sort();
    xs.dedup();
    // all failing outputs; the one with the largest defined mass is reported
    let mut worst: Option<(BigInt, Iv, Iv)> = None;
    let mut n_bad = 0u64;
    for x in &xs {
        let zero = Iv::zero();
        let a = ex.law.get(x).map(|e| &e.0).unwrap_or(&zero);
        let p = prob(a);
        let e = expected(x);
        run.count("evaluations", 1);
        if p.disjoint(&e) {
            n_bad += 1;
            let m = e.hi.clone().max(p.lo.clone());
            if worst.as_ref().is_none_or(|w| m > w.1.hi.clone().max(w.2.lo.clone())) {
                worst = Some((x.clone(), e, p));
            }
        }
    }
    if let Some((x, e, p)) = worst {
        let path = ex.law.get(&x).map(|e| &e.1);
        let mut what = format!(
            "{title}: P(output = {x}) enumerated in [{:e}, {:e}] but the definition gives [{:e}, {:e}] ({n_bad} outputs disagree)",
            p.lo_f(), p.hi_f(), e.lo_f(), e.hi_f()
        );
        if let Some(d) = &ex.first_nonconforming {
            what.push_str(&format!("; first deviation from CKS20: {d}"));
        }
        vfail(
            run,
            &format!("{key}/law"),
            &what,
            json!({"output": x.to_string(), "observed": p.show(), "expected": e.show(),
                   "residual": Iv::f(&u_hi), "renewal_mass": r.hi_f(), "outputs_disagreeing": n_bad,
                   "a_path_to_output": path.map(|p| p.iter().map(|a| a.show()).collect::<Vec<_>>()),
                   "first_deviation_from_cks20": ex.first_nonconforming}),
        );
    }
    let res = prob(&Iv::zero());
    -(res.hi_f().max(1e-300)).log2()
}

fn report_problems(run: &Run, key: &str, ex: &Explored) {
    for (k, what, case) in &ex.problems {
        vfail(run, &format!("{key}/{k}"), what, case.clone());
    }
}

/// One layer, one parameter: explore, verify the regenerative structure where used, compare laws.
fn check_layer(run: &Run, layer: Kind, param: &Q, mode: Mode) -> LayerReport {
    let quick = run.quick();
    let e2e = mode == Mode::EndToEnd;
    let renewal = !e2e && matches!(layer, Kind::Geom | Kind::Gauss);
    let cfg = Cfg {
        entry: Cl::new(layer, param),
        mode,
        renewal,
        target_bits: if e2e { run.pick(20, 30) } else { run.pick(40, 64) },
        max_runs: if e2e { run.pick(3_000, 30_000) } else { run.pick(400_000, 4_000_000) },
        max_heap: 1_000_000,
    };
    let p = param.clone();
    let subject = move |rng: &mut PoisonRng| -> BigInt {
        match layer {
            Kind::Bern => BigInt::from(hk::call_bernoulli(&p, rng) as u8),
            Kind::BernExp1 => BigInt::from(hk::call_bernoulli_exp1(&p, rng) as u8),
            Kind::BernExp => BigInt::from(hk::call_bernoulli_exp(&p, rng) as u8),
            Kind::Geom => BigInt::from(hk::call_geometric_exp(&p, rng)),
            Kind::Lap => hk::call_discrete_laplace(&p, rng),
            Kind::Gauss => hk::call_discrete_gaussian(&p, rng),
            Kind::Uniform => unreachable!(),
        }
    };
    let p2 = param.clone();
    let model = move |h: &[(Cl, Ans)]| model_step(layer, &p2, h);
    let mut ex = explore(&subject, &cfg, if e2e { None } else { Some(&model) });
    let (rd, rp) = if renewal {
        verify_renewal(&subject, &cfg, &mut ex, run.pick(300_000, 4_000_000))
    } else {
        (0, 0)
    };
    let key = format!("{}{}/{}={}", if e2e { "e2e/" } else { "" }, layer.name(), pname(layer), qs(param));
    let title = format!("{}{}({})", if e2e { "end-to-end " } else { "" }, layer.name(), qs(param));
    report_problems(run, &key, &ex);
    // closed forms
    let z = if layer == Kind::Gauss && !param.is_zero() { Some(gaussian_normaliser(param)) } else { None };
    let pq = param.clone();
    let expected = move |x: &BigInt| -> Iv {
        match layer {
            Kind::Bern => {
                let pr = Iv::from_q(&pq);
                if x.is_one() {
                    pr
                } else if x.is_zero() {
                    pr.one_minus()
                } else {
                    Iv::zero()
                }
            }
            Kind::BernExp1 | Kind::BernExp => {
                let e = exp_neg(&pq);
                if x.is_one() {
                    e
                } else if x.is_zero() {
                    e.one_minus()
                } else {
                    Iv::zero()
                }
            }
            Kind::Geom => geometric_pmf(&pq, x),
            Kind::Lap => laplace_pmf(&pq, x),
            Kind::Gauss => gaussian_pmf(&pq, z.as_ref().unwrap_or(&Iv::one()), x),
            Kind::Uniform => unreachable!(),
        }
    };
    // candidates: the expected support down to the residual
    let floor = &ex.residual_hi() * 2u8 + BigUint::from(16u8);
    let mut cands: Vec<BigInt> = vec![BigInt::from(-1), BigInt::zero(), BigInt::one()];
    if matches!(layer, Kind::Geom | Kind::Lap | Kind::Gauss) {
        let mut x = 0i64;
        while x < 200_000 && expected(&BigInt::from(x)).hi > floor {
            cands.push(BigInt::from(x));
            cands.push(BigInt::from(-x));
            x += 1;
        }
        cands.push(BigInt::from(x));
        cands.push(BigInt::from(-x));
    }
    let bits = law_check(run, &key, &title, &ex, &expected, &cands);
    // exact count for a Bernoulli whose tree is a single uniform draw
    if layer == Kind::Bern && !e2e {
        bernoulli_exact_count(run, &key, param, &subject, &cfg);
    }
    run.distinct_many(ex.hashes.iter().cloned());
    let _ = quick;
    LayerReport {
        residual_bits: bits,
        leaves: ex.n_leaves,
        runs: ex.runs,
        answered: ex.answered,
        renewal_depth: rd,
        renewal_pairs: rp,
        budget_hit: ex.budget_hit,
        nonconforming: ex.nonconforming,
    }
}

fn pname(layer: Kind) -> &'static str {
    match layer {
        Kind::Lap => "scale",
        Kind::Gauss => "sigma",
        _ => "gamma",
    }
}

/// Bernoulli(n/d): if the layer makes exactly one uniform draw below b, then #{u : true} * d must
/// equal n * b exactly (integers, no intervals).
fn bernoulli_exact_count(run: &Run, key: &str, g: &Q, subject: Subject, cfg: &Cfg) {
    let r0 = run_once(subject, cfg, &[], None, None, &Iv::one(), 0, None);
    if r0.calls.len() != 1 || r0.calls[0].kind != Kind::Uniform {
        return;
    }
    let b = r0.calls[0].num.to_u64().unwrap();
    let exp = vec![r0.calls[0].clone()];
    let mut trues = 0u64;
    for u in 0..b {
        let r = run_once(subject, cfg, &[Ans::N(u)], Some(exp.clone()), None, &Iv::one(), 0, None);
        run.count("evaluations", 1);
        match r.end {
            End::Out(x) if r.calls.len() == 1 => {
                if x.is_one() {
                    trues += 1;
                }
            }
            _ => return, // not the single-draw shape; the interval check above decides
        }
    }
    if BigUint::from(trues) * g.denom() != g.numer() * BigUint::from(b) {
        vfail(run, 
            &format!("{key}/count"),
            &format!("bernoulli({}): {trues} of the {b} equally likely uniform draws give true; P(true) = {trues}/{b} != {}", qs(g), qs(g)),
            json!({"gamma": qs(g), "true_draws": trues, "draws": b}),
        );
    }
}

// ---------------------------------------------------------------------------------------------
// Bernoulli with huge denominators: boundary draws.

/// One real `sample_bernoulli(g)` with every uniform draw answered by `u`.
/// Returns (outcome or panic message, calls seen, bound of the last uniform draw, rng used).
fn bern_with_draw(g: &Q, u: &BigUint) -> (Result<bool, String>, Vec<String>, Option<BigUint>, bool) {
    let seen: Rc<RefCell<Vec<String>>> = Rc::new(RefCell::new(vec![]));
    let seen_bound: Rc<RefCell<Option<BigUint>>> = Rc::new(RefCell::new(None));
    let (s2, sb2, u2, mut first) = (seen.clone(), seen_bound.clone(), u.clone(), true);
    let entry = Cl::new(Kind::Bern, g);
    hk::set_intercept(Some(Box::new(move |c| {
        let cl = Cl::from_call(c).ok()?;
        if first && cl == entry {
            first = false;
            return None;
        }
        first = false;
        s2.borrow_mut().push(cl.show());
        if cl.kind == Kind::Uniform {
            *sb2.borrow_mut() = Some(cl.num.clone());
            Some(hk::Answer::Nat(u2.clone()))
        } else {
            None
        }
    })));
    let mut rng = PoisonRng { used: false };
    let r = catch(|| hk::call_bernoulli(g, &mut rng));
    hk::set_intercept(None);
    let calls = seen.borrow().clone();
    let b = seen_bound.borrow().clone();
    (r, calls, b, rng.used)
}

fn bernoulli_big(run: &Run) {
    let ds: Vec<(String, BigUint)> = vec![
        ("2^64-1".into(), (BigUint::one() << 64u32) - 1u8),
        ("2^64".into(), BigUint::one() << 64u32),
        ("2^128+1".into(), (BigUint::one() << 128u32) + 1u8),
        ("2^127-1".into(), (BigUint::one() << 127u32) - 1u8),
    ];
    for (dn, d) in &ds {
        let ns: Vec<BigUint> = vec![
            BigUint::zero(),
            BigUint::one(),
            BigUint::from(2u8),
            d >> 1u32,
            (d >> 1u32) + 1u8,
            d - 2u8,
            d - 1u8,
            d.clone(),
        ];
        'n: for (ni, n) in ns.iter().enumerate() {
            let g = Q::new(n.clone(), d.clone());
            let (n, d) = (g.numer().clone(), g.denom().clone()); // lowest terms
            let key = format!("bernoulli/big/d={dn}/n#{ni}");
            run.distinct(fnv(key.as_bytes()));
            // draws u in [0, d): s = u + 1
            let mut us: Vec<BigUint> = vec![BigUint::zero(), BigUint::one(), &d - 1u8];
            if d > BigUint::from(2u8) {
                us.push(&d - 2u8);
            }
            for delta in 0..3u8 {
                if n >= BigUint::from(delta) {
                    us.push(&n - delta); // s = u + 1 in {n-1, n, n+1}
                }
            }
            us.push((&d - &n) % &d);
            if d > n {
                us.push(&d - &n - 1u8);
            }
            us.retain(|u| *u < d);
            us.sort();
            us.dedup();
            let mut lower_ok = true; // true iff u + 1 <= n   (CKS20: s <= n)
            let mut upper_ok = true; // true iff u >= d - n   (mirror image, equally exact)
            let mut obs = vec![];
            for u in &us {
                let (r, calls, b, used) = bern_with_draw(&g, u);
                run.count("evaluations", 1);
                run.count("transitions", calls.len() as u64);
                let out = match r {
                    Err(m) => {
                        vfail(run, &format!("{key}/panic"), &format!("bernoulli({n}/{dn}) panicked: {m}"), json!({"n": n.to_string(), "d": dn, "u": u.to_string()}));
                        continue 'n;
                    }
                    Ok(b) => b,
                };
                if used {
                    vfail(run, &format!("{key}/rng"), "bernoulli used the random source directly", json!({"n": n.to_string(), "d": dn}));
                }
                if calls != vec![Cl::uniform(&d).show()] {
                    // not "one draw below d": decide by exact count if it is one small draw
                    let small = b.as_ref().and_then(|b| b.to_u64()).filter(|b| *b <= 1 << 16);
                    match (calls.len(), small) {
                        (1, Some(b)) => {
                            let mut trues = 0u64;
                            for v in 0..b {
                                run.count("evaluations", 1);
                                if let (Ok(true), _, _, _) = bern_with_draw(&g, &BigUint::from(v)) {
                                    trues += 1;
                                }
                            }
                            if BigUint::from(trues) * &d != &n * BigUint::from(b) {
                                vfail(run, &format!("{key}/count"), &format!("bernoulli({n}/{d}): {trues} of the {b} equally likely uniform draws give true"), json!({"n": n.to_string(), "d": d.to_string(), "draws": b, "true_draws": trues}));
                            }
                        }
                        (1, None) if b.as_ref().is_some_and(|b| !((&n * b) % &d).is_zero()) => {
                            let b = b.unwrap();
                            vfail(run, &format!("{key}/draw"), &format!("bernoulli({n}/{dn}) makes one uniform draw below {b}; no count of outcomes c gives c/{b} = n/d"), json!({"n": n.to_string(), "d": dn, "draw_below": b.to_string()}));
                        }
                        _ => panic!("harness: bernoulli with d={dn} made the calls {calls:?}; the boundary check assumes a single uniform draw below d"),
                    }
                    continue 'n;
                }
                lower_ok &= out == (u + 1u8 <= n);
                upper_ok &= out == (u + &n >= d);
                obs.push(json!({"u": u.to_string(), "out": out}));
            }
            if !lower_ok && !upper_ok {
                vfail(
                    run,
                    &key,
                    &format!("bernoulli({n}/{d}): the outcomes at the boundary draws fit neither threshold form (true iff u+1<=n, or true iff u>=d-n), so #true != n"),
                    json!({"n": n.to_string(), "d": d.to_string(), "observations": obs}),
                );
            }
        }
    }
}

// ---------------------------------------------------------------------------------------------
// L0: uniform big integers through the public Rng interface.

/// Scripted rng: the script, then zero bytes; records the size of every read; panics (inside
/// `catch`) after too many reads so that a sampler that never accepts cannot hang the harness.
struct WordsRng {
    script: Vec<u8>,
    pos: usize,
    reads: Vec<usize>,
    other_calls: u32,
}
impl WordsRng {
    fn new(script: Vec<u8>) -> Self {
        WordsRng { script, pos: 0, reads: vec![], other_calls: 0 }
    }
}
impl TryRng for WordsRng {
    type Error = Infallible;
    fn try_next_u32(&mut self) -> Result<u32, Infallible> {
        self.other_calls += 1;
        let mut b = [0u8; 4];
        self.try_fill_bytes(&mut b)?;
        Ok(u32::from_le_bytes(b))
    }
    fn try_next_u64(&mut self) -> Result<u64, Infallible> {
        self.other_calls += 1;
        let mut b = [0u8; 8];
        self.try_fill_bytes(&mut b)?;
        Ok(u64::from_le_bytes(b))
    }
    fn try_fill_bytes(&mut self, dst: &mut [u8]) -> Result<(), Infallible> {
        assert!(self.reads.len() < 64, "C15-NONTERMINATING");
        self.reads.push(dst.len());
        for d in dst.iter_mut() {
            *d = self.script.get(self.pos).copied().unwrap_or(0);
            self.pos += 1;
        }
        Ok(())
    }
}

struct Obs {
    out: Option<BigUint>,
    reads: Vec<usize>,
}

fn uni(run: &Run, inclusive: bool, low: &BigUint, high: &BigUint, script: &[u8]) -> Result<Obs, String> {
    let mut r = WordsRng::new(script.to_vec());
    run.count("evaluations", 1);
    let out = catch(|| {
        if inclusive {
            hk::call_uniform_inclusive(low, high, &mut r)
        } else {
            hk::call_uniform(low, high, &mut r)
        }
    })?;
    Ok(Obs { out, reads: r.reads.clone() })
}

fn flip(w: &mut [u8], j: usize) {
    w[j / 8] ^= 1 << (j % 8);
}

/// Structure-agnostic exhaustive check for a small range: find the bits of the first attempt's
/// bytes that influence the outcome, enumerate all their settings (x patterns of the other bits)
/// and require every value of the range to have the same number (>= 1) of accepting settings.
fn uniform_small(run: &Run, key: &str, inclusive: bool, low: &BigUint, high: &BigUint, bound: u64) {
    let fail = |k: &str, what: String, case: Value| vfail(run, &format!("{key}/{k}"), &what, case);
    let o0 = match uni(run, inclusive, low, high, &[]) {
        Ok(o) => o,
        Err(m) => {
            if m.contains("C15-NONTERMINATING") {
                panic!("harness: uniform sampler does not accept all-zero words ({key})");
            }
            return fail("panic", format!("uniform draw from [{low}, {high}{} panicked: {m}", if inclusive { "]" } else { ")" }), json!({}));
        }
    };
    if o0.out.is_none() {
        return fail("none", format!("uniform draw from the non-empty range {low}..{high} was refused"), json!({}));
    }
    if o0.reads.is_empty() {
        // no randomness consumed: only right for a one-element range
        if bound != 1 || o0.out.as_ref() != Some(low) {
            fail("law", format!("uniform draw from {low}..{high} consumed no randomness and returned {:?}", o0.out), json!({"bound": bound}));
        }
        return;
    }
    let n1 = o0.reads[0];
    assert!(n1 > 0 && n1 <= 8, "harness: unexpected attempt size {n1} for bound {bound}");
    // outcome of the first attempt: Some(v) accepted, None rejected
    let g = |w: &[u8]| -> Result<(Option<BigUint>, Obs), String> {
        let o = uni(run, inclusive, low, high, w)?;
        if o.reads.iter().any(|r| *r != n1) {
            panic!("harness: attempts of different sizes {:?} ({key})", o.reads);
        }
        let out = o.out.clone().expect("non-empty range");
        if o.reads.len() == 1 {
            Ok((Some(out), o))
        } else {
            Ok((None, o))
        }
    };
    let check_range = |v: &BigUint, w: &[u8]| -> Option<u64> {
        let ok = v >= low && (v - low) < BigUint::from(bound);
        if !ok {
            fail("range", format!("uniform draw from {low}..{high} returned {v}, outside the range"), json!({"words": pvh::engine::hex(w), "out": v.to_string()}));
            return None;
        }
        Some((v - low).to_u64().unwrap())
    };
    let nb = n1 * 8;
    let mut st = run.seed ^ 0xC15;
    let mut bases: Vec<Vec<u8>> = vec![vec![0; n1], vec![0xff; n1], vec![0xaa; n1], vec![0x55; n1]];
    for _ in 0..3 {
        bases.push(splitmix(&mut st).to_le_bytes()[..n1].to_vec());
    }
    let mut infl = vec![false; nb];
    for b in &bases {
        let g0 = match g(b) {
            Ok(x) => x.0,
            Err(m) => return fail("panic", format!("uniform draw from {low}..{high} panicked: {m}"), json!({"words": pvh::engine::hex(b)})),
        };
        for j in 0..nb {
            let mut w = b.clone();
            flip(&mut w, j);
            match g(&w) {
                Ok(x) => infl[j] |= x.0 != g0,
                Err(m) => return fail("panic", format!("uniform draw from {low}..{high} panicked: {m}"), json!({"words": pvh::engine::hex(&w)})),
            }
        }
    }
    let s: Vec<usize> = (0..nb).filter(|j| infl[*j]).collect();
    assert!(s.len() <= 16, "harness: {} influential bits for bound {bound}: structure not enumerable", s.len());
    let patterns: Vec<Vec<u8>> = vec![bases[0].clone(), bases[1].clone(), bases[4].clone(), bases[5].clone()];
    let mut reference: Vec<Option<u64>> = vec![];
    let mut rejected: Vec<Vec<u8>> = vec![];
    let mut accepted: BTreeMap<u64, Vec<u8>> = BTreeMap::new();
    for (pi, pat) in patterns.iter().enumerate() {
        let mut counts = vec![0u64; bound as usize];
        for a in 0..(1u64 << s.len()) {
            let mut w = pat.clone();
            for (k, j) in s.iter().enumerate() {
                let want = (a >> k) & 1 == 1;
                let have = (w[j / 8] >> (j % 8)) & 1 == 1;
                if want != have {
                    flip(&mut w, *j);
                }
            }
            let v = match g(&w) {
                Ok((Some(v), _)) => match check_range(&v, &w) {
                    Some(v) => Some(v),
                    None => return,
                },
                Ok((None, _)) => None,
                Err(m) => return fail("panic", format!("uniform draw from {low}..{high} panicked: {m}"), json!({"words": pvh::engine::hex(&w)})),
            };
            if pi == 0 {
                reference.push(v);
                match v {
                    Some(v) => {
                        accepted.entry(v).or_insert(w.clone());
                    }
                    None => rejected.push(w.clone()),
                }
            } else if reference[a as usize] != v {
                panic!("harness: a bit outside the influential set changed the outcome (bound {bound}, words {})", pvh::engine::hex(&w));
            }
            if let Some(v) = v {
                counts[v as usize] += 1;
            }
        }
        let c0 = counts[0];
        if let Some(v) = (0..bound as usize).find(|v| counts[*v] != c0 || counts[*v] == 0) {
            return fail(
                "law",
                format!("uniform draw from {low}..{high}: one attempt yields {low}+0 for {c0} of the 2^{} equally likely settings of the bits it reads but {low}+{v} for {}; not uniform", s.len(), counts[v]),
                json!({"bound": bound, "influential_bits": s, "counts": counts}),
            );
        }
    }
    run.count("states", 1u64 << s.len());
    // later attempts are judged like the first: k rejected attempts then an accepted one
    if !rejected.is_empty() {
        let rej: Vec<&Vec<u8>> = vec![&rejected[0], &rejected[rejected.len() / 2], &rejected[rejected.len() - 1]];
        let vals: Vec<u64> = vec![0, 1.min(bound - 1), bound - 1, bound / 2];
        for k in 1..=3usize {
            for (ri, _) in rej.iter().enumerate() {
                for v in &vals {
                    let mut script = vec![];
                    for i in 0..k {
                        script.extend_from_slice(rej[(ri + i) % rej.len()]);
                    }
                    script.extend_from_slice(&accepted[v]);
                    match uni(run, inclusive, low, high, &script) {
                        Ok(o) => {
                            let want = low + BigUint::from(*v);
                            if o.reads.len() != k + 1 || o.out.as_ref() != Some(&want) {
                                return fail(
                                    "redraw",
                                    format!("uniform draw from {low}..{high}: after {k} rejected attempts the words of an accepted attempt for {want} gave {:?} after {} attempts; attempts are not judged alike", o.out.map(|x| x.to_string()), o.reads.len()),
                                    json!({"script": pvh::engine::hex(&script), "k": k}),
                                );
                            }
                        }
                        Err(m) => return fail("panic", format!("uniform draw from {low}..{high} panicked: {m}"), json!({"script": pvh::engine::hex(&script)})),
                    }
                    run.count("states", 1);
                }
            }
        }
    }
    run.distinct(fnv(key.as_bytes()));
}

/// Word-boundary sizes: calibrate with single-bit words which input bit feeds which bit of the
/// candidate (or makes the attempt fail), require every bit needed for [0, bound) to be fed, then
/// drive boundary candidates through scripted words (accepted iff < bound; rejected attempts are
/// followed by fresh ones judged the same way).
fn uniform_large(run: &Run, label: &str, low: &BigUint, bound: &BigUint) {
    let key = format!("uniform/bound={label}/low={}", if low.is_zero() { "0".to_string() } else { format!("{}b", low.bits()) });
    let fail = |k: &str, what: String, case: Value| vfail(run, &format!("{key}/{k}"), &what, case);
    let need = (bound - 1u8).bits(); // bits needed to write every value of [0, bound)
    let high = low + bound;
    let o0 = match uni(run, false, low, &high, &[]) {
        Ok(o) => o,
        Err(m) => return fail("panic", format!("uniform draw below {label} panicked: {m}"), json!({})),
    };
    assert!(!o0.reads.is_empty(), "harness: a draw below {label} consumed no randomness");
    let n1 = o0.reads[0];
    let nb = n1 * 8;
    if low.is_zero() {
        run.note(&format!("uniform_words_per_attempt/bound={label}"), json!(n1 as f64 / 4.0));
    }
    if (nb as u64) < need {
        return fail("bits", format!("uniform draw below a bound needing {need} bits reads only {nb} random bits per attempt; cannot be uniform"), json!({"bits": need, "read_bits": nb}));
    }
    let draw = |s: &[u8]| -> Result<(Option<BigUint>, usize), String> {
        let o = uni(run, false, low, &high, s)?;
        if o.reads.iter().any(|r| *r != n1) {
            panic!("harness: attempts of different sizes {:?} ({key})", o.reads);
        }
        Ok((o.out.map(|x| if x >= *low { x - low } else { panic!("harness: output below low") }), o.reads.len()))
    };
    // calibration with single-bit words: which input bit feeds which candidate bit; input bits whose
    // single-bit word is rejected ("reject bits": the candidate they produce is >= bound)
    let mut inv: BTreeMap<u64, usize> = BTreeMap::new();
    let mut ignored: Vec<usize> = vec![];
    let mut rbits: Vec<usize> = vec![];
    for j in 0..nb {
        let mut w = vec![0u8; n1];
        flip(&mut w, j);
        let (out, attempts) = match draw(&w) {
            Ok(o) => o,
            Err(m) => return fail("panic", format!("uniform draw below {label} panicked: {m}"), json!({"words": pvh::engine::hex(&w)})),
        };
        let out = out.expect("non-empty range");
        if attempts != 1 {
            rbits.push(j);
        } else if out.is_zero() {
            ignored.push(j);
        } else {
            if out >= *bound {
                return fail("range", format!("uniform draw below {label} returned {out:#x}"), json!({"words": pvh::engine::hex(&w)}));
            }
            assert!(out.count_ones() == 1, "harness: single input bit produced {out:#x}: not a bit-selection sampler");
            let m = out.bits() - 1;
            assert!(inv.insert(m, j).is_none(), "harness: two input bits feed candidate bit {m}");
        }
    }
    if let Some(m) = (0..need).find(|m| !inv.contains_key(m)) {
        return fail(
            "unreachable",
            format!("uniform draw below {label}: no random bit feeds bit {m} of the result, so values with that bit set are never produced"),
            json!({"needed_bits": need, "missing_bit": m}),
        );
    }
    let words_for = |c: &BigUint, fill: bool, rbit: Option<usize>| -> Vec<u8> {
        let mut w = vec![0u8; n1];
        for m in 0..need {
            if c.bit(m) {
                flip(&mut w, inv[&m]);
            }
        }
        if fill {
            for j in &ignored {
                flip(&mut w, *j);
            }
        }
        if let Some(j) = rbit {
            flip(&mut w, j);
        }
        w
    };
    // boundary candidates (all below 2^need)
    let full = (BigUint::one() << need) - 1u8;
    let mut cs: Vec<BigUint> = vec![
        BigUint::zero(),
        BigUint::one(),
        BigUint::from(2u8),
        bound - 2u8,
        bound - 1u8,
        bound.clone(),
        bound + 1u8,
        full.clone(),
        BigUint::one() << (need - 1),
        (BigUint::one() << (need - 1)) - 1u8,
    ];
    for limb in 0..need.div_ceil(32) {
        let m = (BigUint::from(u32::MAX) << (32 * limb)) & &full;
        cs.push(&full ^ &m);
        cs.push(m);
    }
    cs.retain(|c| *c <= full);
    cs.sort();
    cs.dedup();
    // attempts: (words, expected outcome: Some(v) accepted / None rejected)
    let mut tries: Vec<(Vec<u8>, Option<BigUint>, String)> = vec![];
    for c in &cs {
        for fill in [false, true] {
            tries.push((words_for(c, fill, None), if c < bound { Some(c.clone()) } else { None }, format!("{c:#x}")));
        }
    }
    for j in [rbits.first(), rbits.last()].into_iter().flatten() {
        for c in [BigUint::zero(), bound - 1u8] {
            tries.push((words_for(&c, false, Some(*j)), None, format!("{c:#x} with reject bit {j}")));
        }
    }
    let rejects: Vec<&(Vec<u8>, Option<BigUint>, String)> = tries.iter().filter(|t| t.1.is_none()).collect();
    let accepts: Vec<BigUint> = vec![bound - 1u8, BigUint::one(), bound >> 1u32];
    for (w, want, desc) in &tries {
        let mut scripts: Vec<(Vec<u8>, usize, BigUint)> = vec![];
        match want {
            Some(v) => scripts.push((w.clone(), 1, v.clone())),
            None => {
                for (ai, a) in accepts.iter().enumerate() {
                    for k in 1..=3usize {
                        let mut s = w.clone();
                        for i in 1..k {
                            s.extend_from_slice(&rejects[(ai + i) % rejects.len()].0);
                        }
                        s.extend(words_for(a, true, None));
                        scripts.push((s, k + 1, a.clone()));
                    }
                }
            }
        }
        for (s, attempts, want) in scripts {
            match draw(&s) {
                Ok((out, n)) => {
                    if out.as_ref() != Some(&want) || n != attempts {
                        return fail(
                            "boundary",
                            format!("uniform draw from [low, low+{label}): candidate {desc} (then accepted candidates) gave {:?} after {n} attempts, expected {want:#x} after {attempts}", out.map(|x| format!("{x:#x}"))),
                            json!({"script": pvh::engine::hex(&s), "candidate": desc, "bound": format!("{bound:#x}")}),
                        );
                    }
                    run.count("states", 1);
                }
                Err(m) => return fail("panic", format!("uniform draw panicked: {m}"), json!({"script": pvh::engine::hex(&s)})),
            }
        }
    }
    run.distinct(fnv(key.as_bytes()));
}

fn uniform_empty(run: &Run) {
    let big = BigUint::one() << 64u32;
    let cases: Vec<(bool, BigUint, BigUint, Option<BigUint>)> = vec![
        (false, BigUint::zero(), BigUint::zero(), None),
        (false, BigUint::from(5u8), BigUint::from(5u8), None),
        (false, BigUint::from(6u8), BigUint::from(5u8), None),
        (false, big.clone(), big.clone(), None),
        (false, &big + 1u8, BigUint::from(3u8), None),
        (true, BigUint::one(), BigUint::zero(), None),
        (true, BigUint::from(6u8), BigUint::from(5u8), None),
        (true, &big + 1u8, big.clone(), None),
        (true, BigUint::from(5u8), BigUint::from(5u8), Some(BigUint::from(5u8))),
        (true, big.clone(), big.clone(), Some(big.clone())),
        (false, big.clone(), &big + 1u8, Some(big.clone())),
    ];
    for (i, (incl, lo, hi, want)) in cases.iter().enumerate() {
        let key = format!("uniform/degenerate#{i}");
        match uni(run, *incl, lo, hi, &[0xff; 64]) {
            Err(m) => vfail(run, &key, &format!("uniform range ({lo}, {hi}, inclusive={incl}) panicked: {m}"), json!({})),
            Ok(o) => {
                if o.out != *want {
                    vfail(run, &key, &format!("uniform range ({lo}, {hi}, inclusive={incl}) gave {:?}, expected {:?}", o.out, want), json!({}));
                }
                if want.is_none() && !o.reads.is_empty() {
                    vfail(run, &format!("{key}/rng"), "an empty range consumed randomness", json!({}));
                }
            }
        }
        run.distinct(fnv(key.as_bytes()));
    }
}

// ---------------------------------------------------------------------------------------------
// Public API plumbing: the rational handed to the top sampler layer.

/// Exact value of an f32 (finite, non-negative), decoded from its bits.
fn f32_exact(x: f32) -> Q {
    let bits = x.to_bits();
    assert!(bits >> 31 == 0);
    let e = ((bits >> 23) & 0xff) as i32;
    let m = bits & 0x7f_ffff;
    assert!(e != 0xff);
    let (m, e) = if e == 0 { (m as u64, 1 - 150) } else { ((m | 0x80_0000) as u64, e - 150) };
    if e >= 0 {
        Q::from_integer(BigUint::from(m) << (e as u32))
    } else {
        Q::new(BigUint::from(m), BigUint::one() << ((-e) as u32))
    }
}

/// (name, exact value, library value)
fn eps_lattice() -> Vec<(String, Q, Rational)> {
    let mut v = vec![];
    let pairs: Vec<(u128, u128)> = vec![
        (1, 1),
        (2, 1),
        (1, 2),
        (1, 3),
        (7, 3),
        (100, 1),
        (1, 100),
        (6, 4),
        (u128::MAX, 1),
        (1, u128::MAX),
        ((1 << 64) + 1, (1 << 64) - 1),
    ];
    for (n, d) in pairs {
        v.push((
            format!("{n}/{d}"),
            Q::new(BigUint::from(n), BigUint::from(d)),
            Rational::from_unsigned(n, d).expect("nonzero denominator"),
        ));
    }
    for f in [0.1f32, 1.5, 3.1415927, 1e-3, f32::MIN_POSITIVE, f32::MAX, 1.0e-45, 16777216.0, 0.33333334] {
        v.push((format!("f32:{f:e}"), f32_exact(f), Rational::try_from(f).expect("finite float")));
    }
    v
}

fn sens_lattice() -> Vec<BigUint> {
    vec![
        BigUint::one(),
        BigUint::from(2u8),
        BigUint::from(3u8),
        BigUint::from(2550u32),
        BigUint::one() << 64u32,
        (BigUint::one() << 127u32) - 1u8,
    ]
}

fn same_q(a: &Q, b: &Q) -> bool {
    a.numer() * b.denom() == b.numer() * a.denom()
}

/// Run `f` with an intercept that records every call and answers the top layers with `answers`
/// (cycled). Returns the recorded calls.
fn with_top_intercept<T>(answers: Vec<BigInt>, f: impl FnOnce() -> T) -> (Result<T, String>, Vec<Cl>, Vec<String>) {
    let calls: Rc<RefCell<Vec<Cl>>> = Rc::new(RefCell::new(vec![]));
    let bad: Rc<RefCell<Vec<String>>> = Rc::new(RefCell::new(vec![]));
    let (c2, b2) = (calls.clone(), bad.clone());
    hk::set_intercept(Some(Box::new(move |c| match Cl::from_call(c) {
        Ok(cl) => {
            let i = c2.borrow().len();
            let top = matches!(cl.kind, Kind::Lap | Kind::Gauss);
            c2.borrow_mut().push(cl);
            if top {
                Some(hk::Answer::Int(answers[i % answers.len()].clone()))
            } else {
                None
            }
        }
        Err(e) => {
            b2.borrow_mut().push(e);
            None
        }
    })));
    let r = catch(f);
    hk::set_intercept(None);
    let c = calls.borrow().clone();
    let b = bad.borrow().clone();
    (r, c, b)
}

fn api_checks(run: &Run) {
    let eps = eps_lattice();
    // Rational::try_from(f32) is exact
    for (name, exact, lib) in &eps {
        run.count("evaluations", 1);
        if !same_q(exact, &hk::rational_inner(lib)) {
            vfail(run, &format!("api/rational/{name}"), &format!("Rational for {name} is {} but the exact value is {}", qs(&hk::rational_inner(lib)), qs(exact)), json!({"eps": name}));
        }
    }
    // DiscreteLaplace::new(scale).sample / DiscreteGaussian::new(std).sample hand over the rational unchanged
    for (name, exact, lib) in &eps {
        for gauss in [false, true] {
            let kind = if gauss { Kind::Gauss } else { Kind::Lap };
            let key = format!("api/{}/new/{name}", kind.name());
            let lib2 = lib.clone();
            let (r, calls, bad) = with_top_intercept(vec![BigInt::from(-42)], move || {
                let mut rng = PoisonRng { used: false };
                let v = if gauss {
                    DiscreteGaussian::new(lib2).map(|d| d.sample(&mut rng)).map_err(|e| e.to_string())
                } else {
                    DiscreteLaplace::new(lib2).map(|d| d.sample(&mut rng)).map_err(|e| e.to_string())
                };
                (v, rng.used)
            });
            run.count("evaluations", 1);
            run.count("transitions", calls.len() as u64);
            match r {
                Err(m) => vfail(run, &format!("{key}/panic"), &format!("{}::new({name}).sample panicked: {m}", kind.name()), json!({})),
                Ok((Err(e), _)) => vfail(run, &key, &format!("{}::new({name}) refused a positive parameter: {e}", kind.name()), json!({})),
                Ok((Ok(v), used)) => {
                    let ok = calls.len() == 1 && calls[0].kind == kind && same_q(&calls[0].q(), exact) && v == BigInt::from(-42) && !used && bad.is_empty();
                    if !ok {
                        vfail(run, &key, &format!("{}::new({name}).sample reached the sampler as {:?} and returned {v}; expected one call {}({}) whose outcome is returned", kind.name(), calls.iter().map(|c| c.show()).collect::<Vec<_>>(), kind.name(), qs(exact)), json!({"param": name}));
                    }
                }
            }
            run.distinct(fnv(key.as_bytes()));
        }
    }
    // strategies: scale = sensitivity / epsilon, sigma = sensitivity / epsilon
    for (name, exact, lib) in &eps {
        for sens in sens_lattice() {
            for gauss in [false, true] {
                let kind = if gauss { Kind::Gauss } else { Kind::Lap };
                let key = format!("api/{}/strategy/eps={name}/sens={}b", kind.name(), sens.bits());
                let want = Q::from_integer(sens.clone()) / exact;
                let (lib2, sens2) = (lib.clone(), sens.clone());
                let (r, calls, _bad) = with_top_intercept(vec![BigInt::from(7)], move || {
                    let mut rng = PoisonRng { used: false };
                    if gauss {
                        let st = ZCdpDiscreteGaussian::from_budget(ZCdpBudget::new(lib2).map_err(|e| e.to_string())?);
                        st.create_distribution(Rational::from(sens2)).map(|d| d.sample(&mut rng)).map_err(|e| e.to_string())
                    } else {
                        let st = PureDpDiscreteLaplace::from_budget(PureDpBudget::new(lib2).map_err(|e| e.to_string())?);
                        st.create_distribution(Rational::from(sens2)).map(|d| d.sample(&mut rng)).map_err(|e| e.to_string())
                    }
                });
                run.count("evaluations", 1);
                run.count("transitions", calls.len() as u64);
                match r {
                    Err(m) => vfail(run, &format!("{key}/panic"), &format!("{} strategy with eps={name} panicked: {m}", kind.name()), json!({})),
                    Ok(Err(e)) => vfail(run, &key, &format!("{} strategy with eps={name}, sensitivity {sens} failed: {e}", kind.name()), json!({})),
                    Ok(Ok(v)) => {
                        let ok = calls.len() == 1 && calls[0].kind == kind && same_q(&calls[0].q(), &want) && v == BigInt::from(7);
                        if !ok {
                            vfail(run, &key, &format!("{} strategy, eps={name}, sensitivity {sens}: sampler reached as {:?}; expected parameter sensitivity/eps = {}", kind.name(), calls.iter().map(|c| c.show()).collect::<Vec<_>>(), qs(&want)), json!({"eps": name, "sensitivity": sens.to_string()}));
                        }
                    }
                }
                run.distinct(fnv(key.as_bytes()));
            }
        }
    }
    // zero parameters
    run.count("evaluations", 3);
    if DiscreteLaplace::new(Rational::from(BigUint::zero())).is_ok() {
        vfail(run, "api/laplace/new/zero", "DiscreteLaplace::new(0) is documented to fail but succeeded", json!({}));
    }
    if PureDpBudget::new(Rational::from(BigUint::zero())).is_ok() || ZCdpBudget::new(Rational::from(BigUint::zero())).is_ok() {
        vfail(run, "api/budget/zero", "a zero epsilon was accepted", json!({}));
    }
}

// ---------------------------------------------------------------------------------------------
// Noise application.

type P3<T> = Prio3<T, XofTurboShake128, 32>;

fn floor_mod(n: &BigInt, p: &BigInt) -> BigInt {
    // remainder in [0, p) without the library's mod_floor
    let r = n % p; // truncated: sign of n
    if r.is_negative() {
        r + p
    } else {
        r
    }
}

/// `expect_err`: the documented refusal (SumVec with 128-bit elements) — then the share must be untouched.
#[allow(clippy::too_many_arguments)]
fn noise_case<T, F>(run: &Run, name: &str, typ: T, sens: &BigUint, eps: &(String, Q, Rational), case_no: usize, may_refuse: bool)
where
    F: KitField,
    F::Integer: IntConv,
    T: Type<Field = F> + TypeWithNoise<PureDpDiscreteLaplace> + Clone,
    T::AggregateResult: std::fmt::Debug,
{
    if tl_fails() > NOISE_BASE.with(|c| c.get()) {
        return; // one failing case per epsilon job is reported
    }
    let p = BigInt::from(F::p());
    let big = BigInt::one() << 200u32;
    let menu: Vec<BigInt> = vec![
        BigInt::zero(),
        BigInt::one(),
        -BigInt::one(),
        &p - 1u8,
        -(&p - 1u8),
        p.clone(),
        -p.clone(),
        &p + 1u8,
        -(&p + 1u8),
        big.clone(),
        -big,
        (&p >> 1u32) + 1u8,
        -((&p >> 1u32) + 1u8),
    ];
    let len = typ.output_len();
    let key = format!("noise/{name}/eps={}", eps.0);
    let vdaf0: P3<T> = match Prio3::new(2, 1, 0xFFFF_0015, typ) {
        Ok(v) => v,
        Err(e) => panic!("harness: Prio3::new failed for {name}: {e}"),
    };
    // the aggregator that adds the noise works on a clone of the instance (as a worker holding its own copy does)
    let vdaf: P3<T> = vdaf0.clone();
    let strategy = PureDpDiscreteLaplace::from_budget(PureDpBudget::new(eps.2.clone()).expect("positive epsilon"));
    let want_scale = Q::from_integer(sens.clone()) / &eps.1;
    for share_kind in 0..3usize {
        let share0: Vec<u128> = (0..len)
            .map(|i| match share_kind {
                0 => 0,
                1 => F::p() - 1,
                _ => (i as u128 + 1) % F::p(),
            })
            .collect();
        let mut share = AggregateShare::from(share0.iter().map(|x| F::fe(*x)).collect::<Vec<F>>());
        let answers: Vec<BigInt> = (0..len.max(1)).map(|i| menu[(i + case_no + 5 * share_kind) % menu.len()].clone()).collect();
        let num_meas = [0usize, 1, 1000][(case_no + share_kind) % 3];
        let (r, calls, bad) = {
            let a2 = answers.clone();
            let (v2, s2, sh) = (&vdaf, &strategy, &mut share);
            with_top_intercept(a2, move || v2.add_noise_to_agg_share(s2, &(), sh, num_meas).map_err(|e| e.to_string()))
        };
        run.count("evaluations", 1);
        run.count("transitions", calls.len() as u64);
        let got: Vec<u128> = share.as_ref().iter().map(|x| x.val()).collect();
        match r {
            Err(m) => {
                vfail(run, &format!("{key}/panic"), &format!("{name}: add_noise_to_agg_share panicked: {m}"), json!({"type": name, "eps": eps.0}));
                return;
            }
            Ok(Err(e)) => {
                if may_refuse {
                    run.note("sumvec_field128_128bit_noise_refused", json!(e));
                    if got != share0 || !calls.is_empty() {
                        vfail(run, &format!("{key}/refusal"), &format!("{name}: add_noise_to_agg_share failed ({e}) after modifying the share or drawing noise"), json!({"type": name}));
                    }
                } else {
                    vfail(run, &format!("{key}/error"), &format!("{name}: add_noise_to_agg_share failed: {e}"), json!({"type": name, "eps": eps.0}));
                }
                return;
            }
            Ok(Ok(())) => {}
        }
        if !bad.is_empty() {
            vfail(run, &format!("{key}/domain"), &format!("{name}: sampler called with a zero denominator"), json!({"type": name}));
        }
        if calls.len() != len || calls.iter().any(|c| c.kind != Kind::Lap) {
            vfail(run, 
                &format!("{key}/draws"),
                &format!("{name}: {} top-level sampler calls ({:?}...) for an aggregate share of {len} coordinates; expected one Laplace draw per coordinate", calls.len(), calls.first().map(|c| c.show())),
                json!({"type": name, "coordinates": len, "draws": calls.len()}),
            );
            return;
        }
        if let Some(c) = calls.iter().find(|c| !same_q(&c.q(), &want_scale)) {
            vfail(run, 
                &format!("{key}/scale"),
                &format!("{name}, eps={}: noise drawn with scale {} but documented sensitivity {sens} / eps = {}", eps.0, qs(&c.q()), qs(&want_scale)),
                json!({"type": name, "eps": eps.0, "sensitivity": sens.to_string(), "observed_scale": qs(&c.q()), "expected_scale": qs(&want_scale)}),
            );
            return;
        }
        for i in 0..len {
            let want = floor_mod(&(BigInt::from(share0[i]) + floor_mod(&answers[i], &p)), &p);
            if BigInt::from(got[i]) != want {
                vfail(run, 
                    &format!("{key}/projection"),
                    &format!("{name}: coordinate {i}: share {} + noise {} gave {} but (share + noise mod p) mod p = {want}", share0[i], answers[i], got[i]),
                    json!({"type": name, "coordinate": i, "share": share0[i].to_string(), "noise": answers[i].to_string(), "got": got[i].to_string(), "want": want.to_string()}),
                );
                return;
            }
        }
        // the collector: the noised share and an all-zero share of the other aggregator unshard to
        // (aggregate + noise) mod p, coordinate by coordinate
        {
            use prio::vdaf::Collector;
            let other = AggregateShare::from(vec![F::zero(); len]);
            let n = num_meas.max(1);
            let want: Vec<String> = (0..len).map(|i| floor_mod(&(BigInt::from(share0[i]) + floor_mod(&answers[i], &p)), &p).to_string()).collect();
            let want = format!("[{}]", want.join(", "));
            match catch(|| vdaf0.unshard(&(), [share.clone(), other], n)) {
                Ok(Ok(r)) => {
                    let got = format!("{:?}", r);
                    if got != want {
                        vfail(run, &format!("{key}/unshard_value"), &format!("{name}: the noised aggregate unshards to {got}, but (aggregate + noise) mod p = {want}"), json!({"type": name, "eps": eps.0}));
                        return;
                    }
                }
                Ok(Err(e)) => {
                    vfail(run, &format!("{key}/unshard_refused"), &format!("{name}: unshard refused an aggregate share after noise was added ({e}); the result must be the aggregate plus the noise modulo the field size"), json!({"type": name, "eps": eps.0, "noise": answers.iter().map(|a| a.to_string()).collect::<Vec<_>>()}));
                    return;
                }
                Err(m) => {
                    vfail(run, &format!("{key}/unshard_panic"), &format!("{name}: unshard panicked on a noised aggregate share: {m}"), json!({"type": name}));
                    return;
                }
            }
        }
        run.distinct(fnv(format!("{key}/{share_kind}").as_bytes()));
        run.count("states", 1);
    }
}

fn bits_of(x: u128) -> u32 {
    128 - x.leading_zeros()
}

fn noise_checks(run: &Run, e: &(String, Q, Rational), start: usize) {
    let lens = [1usize, 2, 3, 10, 14];
    NOISE_BASE.with(|c| c.set(tl_fails()));
    let mut case_no = start;
    {

        // SumVec: documented L1 sensitivity (2^bits - 1) * len
        for len in lens {
            for max in [1u128, 2, 3, 255, 256, (1 << 32) - 1, 1 << 63, u64::MAX as u128 - 1] {
                case_no += 1;
                if max < Field64::p() {
                    let s = ((BigUint::one() << bits_of(max)) - 1u8) * BigUint::from(len);
                    let t: SumVec<Field64, ParallelSum<Field64, Mul>> = SumVec::new(max as u64, len, 3).unwrap();
                    noise_case(run, &format!("SumVec<Field64>(max={max:#x},len={len})"), t, &s, e, case_no, false);
                }
            }
            for max in [1u128, 3, 256, 1 << 64, 1 << 126, (1 << 127) - 1, 1 << 127] {
                case_no += 1;
                let b = bits_of(max);
                let s = ((BigUint::one() << b) - 1u8) * BigUint::from(len);
                let t: SumVec<Field128, ParallelSum<Field128, Mul>> = SumVec::new(max, len, 2).unwrap();
                noise_case(run, &format!("SumVec<Field128>(max={max:#x},len={len})"), t, &s, e, case_no, b == 128);
            }
            // Histogram: documented sensitivity 2
            case_no += 1;
            let h: Histogram<Field64, ParallelSum<Field64, Mul>> = Histogram::new(len, 2).unwrap();
            noise_case(run, &format!("Histogram<Field64>(len={len})"), h, &BigUint::from(2u8), e, case_no, false);
            let h: Histogram<Field128, ParallelSum<Field128, Mul>> = Histogram::new(len, 2).unwrap();
            noise_case(run, &format!("Histogram<Field128>(len={len})"), h, &BigUint::from(2u8), e, case_no + 1, false);
            // L1BoundSum: documented sensitivity 2 * max_value
            for max in [1u128, 2, 5, 1 << 32, 1 << 62, Field64::p() - 1] {
                case_no += 1;
                let t: L1BoundSum<Field64, ParallelSum<Field64, Mul>> = L1BoundSum::new(max as u64, len, 3).unwrap();
                noise_case(run, &format!("L1BoundSum<Field64>(max={max:#x},len={len})"), t, &(BigUint::from(max) * 2u8), e, case_no, false);
            }
            for max in [1u128, 5, 1 << 64, 1 << 127, Field128::p() - 1] {
                case_no += 1;
                let t: L1BoundSum<Field128, ParallelSum<Field128, Mul>> = L1BoundSum::new(max, len, 3).unwrap();
                noise_case(run, &format!("L1BoundSum<Field128>(max={max:#x},len={len})"), t, &(BigUint::from(max) * 2u8), e, case_no, false);
            }
        }
    }
}

// ---------------------------------------------------------------------------------------------
enum Job {
    Layer(Kind, Q, Mode),
    BernAll(u64),
    BernBig,
    UniformSmall(Vec<u64>),
    UniformIncl(u64),
    UniformLow(BigUint, u64),
    UniformLarge(String, BigUint, BigUint),
    UniformEmpty,
    Api,
    Noise(usize),
}

fn q(n: u64, d: u64) -> Q {
    Q::new(BigUint::from(n), BigUint::from(d))
}

fn main() {
    let run = Run::from_args("C15", Level::ModelChecking);
    let quick = run.quick();
    run.rule(
        "One sampler layer at a time (assume-guarantee): the real layer is executed for every sequence of outcomes of the \
         layer below (stateless prefix replay, best-first by mass); each outcome is weighted by the lower layer's specified \
         law for the intercepted arguments (uniform 1/b, Bernoulli q, Bernoulli e^-q, geometric, Laplace), masses are \
         fixed-point intervals (2^-192 grid, outward rounding, e^-x from the alternating Taylor enclosure); enumeration stops \
         when the unexplored mass is below 2^-40 (quick) / 2^-64 (thorough); the enumerated law [A(x), A(x)+U] must meet the \
         closed form of CKS20 for every integer x whose mass exceeds the residual (and every observed x). The rejection \
         loops of the geometric and Gaussian layers are regenerative: paths are cut where the sampler repeats its first call \
         (mass r), P(x) = A(x)/(1-r); that the sampler behaves after such a cut exactly as from the start is itself checked \
         by replaying every first-iteration path behind every cut (all concatenations of mass >= 2^-target, nesting depth as \
         the budget allows, >= 1). The rng handed to an intercepted layer is poisoned. Bernoulli(n/d): every n <= d <= 64 \
         (128), every uniform outcome, exact count #true*d = n*b. Uniform layer (through the public Rng with scripted \
         words): for every bound the bits that influence one attempt are found by flipping, all their settings are enumerated \
         (x patterns of the other bits) and every value of the range must have the same number of accepting settings, later \
         attempts (after 1..3 rejections) must be judged like the first; hence each attempt is uniform on its candidates \
         restricted to the range and the output is exactly uniform (geometric series over the rejections). Word-boundary \
         bounds (2^31, 2^32, 2^63, 2^64, 2^127, 2^128, each -1/+0/+1): bit map calibrated by single-bit probes, every needed \
         bit must be fed, boundary candidates driven through scripted words. Empty ranges are refused without randomness. \
         End-to-end (only the uniform layer answered) for Laplace scale 1/3, 1/2, 1 under a run budget: coarse, the achieved \
         residual is in layers.e2e/*. Public API and noise application (SumVec, Histogram, L1BoundSum x Field64/128 x \
         epsilon lattice incl. f32-derived): top layer intercepted, one Laplace draw per coordinate, scale = documented \
         sensitivity / epsilon compared as exact rationals, outcomes from {0,+-1,+-(p-1),+-p,+-(p+1),+-(p/2+1),+-2^200}: \
         share' = share + (noise mod p).",
    );
    run.assume("each lower layer realises its specified law for the arguments it is called with (discharged by the check of that layer; the uniform layer by the scripted-word check)");
    run.assume("geometric/Gaussian rejection loops: behaviour after a restart equals behaviour from the start beyond the verified nesting depth (verified to the depth reported in layers.*.renewal_depth)");
    run.assume("uniform layer, bounds above 2^10: the candidate is formed by selecting bits of the random words (calibrated, then confirmed on boundary candidates); Bernoulli with d >= 2^64: one of the two threshold forms");
    run.assume("biases below the reported residual are visible only through the exact Bernoulli and uniform layers");

    let mut jobs: Vec<Job> = vec![];
    // heavy first
    for s in [(100, 7), (5, 1), (2, 1), (3, 2), (1, 1), (1, 2), (1, 3), (0, 1)] {
        jobs.push(Job::Layer(Kind::Gauss, q(s.0, s.1), Mode::Layer));
    }
    for g in [(7, 100), (100, 7), (1, 3), (1, 2), (1, 1), (3, 2), (2, 1), (5, 1), (2, 3), (0, 1)] {
        jobs.push(Job::Layer(Kind::Geom, q(g.0, g.1), Mode::Layer));
    }
    // end-to-end (only the uniform layer answered): plain path enumeration is exponential here (no
    // regenerative cut is observable), so this is a coarse composition check with a run budget; the
    // achieved residual is reported per parameter. The Gaussian is left out (residual ~2^-1).
    for s in [(1, 3), (1, 2), (1, 1)] {
        jobs.push(Job::Layer(Kind::Lap, q(s.0, s.1), Mode::EndToEnd));
    }
    for s in [(100, 7), (5, 1), (2, 1), (3, 2), (1, 1), (1, 2), (1, 3), (0, 1)] {
        jobs.push(Job::Layer(Kind::Lap, q(s.0, s.1), Mode::Layer));
    }
    for g in [(0, 1), (1, 2), (1, 1), (3, 2), (2, 1), (5, 2), (7, 3), (10, 1), (100, 7)] {
        jobs.push(Job::Layer(Kind::BernExp, q(g.0, g.1), Mode::Layer));
    }
    let big = (BigUint::one() << 64u32) + 1u8;
    let mut g1: Vec<Q> = [(0, 1), (1, 1), (1, 2), (1, 3), (2, 3), (1, 7), (6, 7), (1, 64), (63, 64), (1, 1000), (999, 1000), (5, 13)]
        .iter()
        .map(|g| q(g.0, g.1))
        .collect();
    g1.push(Q::new(BigUint::one(), big.clone()));
    g1.push(Q::new(big.clone() - 1u8, big.clone()));
    for g in g1 {
        jobs.push(Job::Layer(Kind::BernExp1, g, Mode::Layer));
    }
    for d in (1..=run.pick(64u64, 128)).rev() {
        jobs.push(Job::BernAll(d));
    }
    jobs.push(Job::BernBig);
    // ranges of bounds; within a range the sweep stops at the first failing bound
    let top = run.pick(64u64, 1024);
    let mut lo = top;
    while lo > 0 {
        let start = lo.saturating_sub(32) + 1;
        jobs.push(Job::UniformSmall((start..=lo).collect()));
        lo = start - 1;
    }
    if quick {
        jobs.push(Job::UniformSmall(vec![100, 127, 128, 129, 255, 256, 257, 1000, 1023, 1024]));
    }
    for d in 1..=run.pick(16u64, 64) {
        jobs.push(Job::UniformIncl(d));
    }
    for low in [BigUint::one(), BigUint::from(5u8), BigUint::one() << 64u32, (BigUint::one() << 128u32) - 1u8] {
        for b in [1u64, 2, 3, 5, 8, 13, 16, 17] {
            jobs.push(Job::UniformLow(low.clone(), b));
        }
    }
    for e in [31u32, 32, 63, 64, 127, 128] {
        for (dl, lab) in [(-1i32, "-1"), (0, ""), (1, "+1")] {
            let b = BigInt::from(BigUint::one() << e) + dl;
            let b = b.to_biguint().unwrap();
            jobs.push(Job::UniformLarge(format!("2^{e}{lab}"), BigUint::zero(), b.clone()));
            if dl == 1 {
                jobs.push(Job::UniformLarge(format!("2^{e}{lab}"), (BigUint::one() << 70u32) + 12345u32, b));
            }
        }
    }
    jobs.push(Job::UniformEmpty);
    jobs.push(Job::Api);
    let n_eps = eps_lattice().len();
    for i in 0..n_eps {
        if !quick || i % 2 == 0 {
            jobs.push(Job::Noise(i));
        }
    }

    let reports: std::sync::Mutex<BTreeMap<String, Value>> = std::sync::Mutex::new(BTreeMap::new());
    let run_ref = &run;
    let jobs_ref = &jobs;
    let machinery: std::sync::Mutex<Vec<String>> = std::sync::Mutex::new(vec![]);
    par::for_each(jobs.len() as u64, |i| {
        let run = run_ref;
        let t0 = std::time::Instant::now();
        let label = match &jobs_ref[i as usize] {
            Job::Layer(k, p, m) => format!("{:?} {} {}", m, k.name(), qs(p)),
            Job::BernAll(d) => format!("bern d={d}"),
            Job::UniformSmall(b) => format!("uni {}..", b[0]),
            Job::UniformLarge(l, _, _) => format!("unilarge {l}"),
            Job::Noise(i) => format!("noise {i}"),
            _ => "other".into(),
        };
        let _guard = Timing(label.clone(), t0);
        // A harness-side panic inside a job (an unrecognised structure, a divergence) is machinery,
        // not a verdict: it is collected and turns into exit 2 at the end — unless the run has
        // violations to report, which take precedence.
        let res = catch(|| match &jobs_ref[i as usize] {
            Job::Layer(kind, param, mode) => {
                let r = check_layer(run, *kind, param, *mode);
                record(run, &reports, *kind, param, *mode, &r);
            }
            Job::BernAll(d) => {
                let before = tl_fails();
                for n in 0..=*d {
                    if tl_fails() > before {
                        break; // one failing numerator per denominator is reported
                    }
                    let g = Q::new_raw(BigUint::from(n), BigUint::from(*d));
                    let r = check_layer(run, Kind::Bern, &g, Mode::Layer);
                    run.count("states", r.leaves);
                    run.count("transitions", r.answered);
                    run.count("evaluations", r.runs);
                    if r.nonconforming > 0 {
                        run.count("paths_deviating_from_cks20", r.nonconforming);
                    }
                }
            }
            Job::BernBig => bernoulli_big(run),
            Job::UniformSmall(bs) => {
                let before = tl_fails();
                for b in bs {
                    if tl_fails() > before {
                        break;
                    }
                    uniform_small(run, &format!("uniform/bound={b}"), false, &BigUint::zero(), &BigUint::from(*b), *b);
                }
            }
            Job::UniformIncl(d) => uniform_small(run, &format!("uniform/inclusive/low=1/high={d}"), true, &BigUint::one(), &BigUint::from(*d), *d),
            Job::UniformLow(low, b) => uniform_small(run, &format!("uniform/low={}b/bound={b}", low.bits()), false, low, &(low + BigUint::from(*b)), *b),
            Job::UniformLarge(label, low, b) => uniform_large(run, label, low, b),
            Job::UniformEmpty => uniform_empty(run),
            Job::Api => api_checks(run),
            Job::Noise(i) => {
                let eps = eps_lattice();
                noise_checks(run, &eps[*i], i * 7);
            }
        });
        if let Err(m) = res {
            hk::set_intercept(None);
            machinery.lock().unwrap().push(format!("job [{label}]: {m}"));
        }
    });
    let machinery = machinery.into_inner().unwrap();
    if !machinery.is_empty() {
        for m in &machinery {
            eprintln!("MACHINERY: {m}");
        }
        if run.n_violations() == 0 {
            eprintln!("MACHINERY: {} job(s) could not be decided and no violation was found: exit 2", machinery.len());
            std::process::exit(2);
        }
        run.note("undecided_jobs", json!(machinery));
    }
    let reps = reports.into_inner().unwrap();
    let worst = reps
        .iter()
        .filter(|(k, _)| !k.starts_with("e2e/"))
        .filter_map(|(_, v)| v["residual_bits"].as_f64())
        .fold(f64::INFINITY, f64::min);
    let target = run.pick(40.0, 64.0);
    run.note("layers", json!(reps));
    run.note("worst_layer_residual_bits", json!(worst));
    run.exhaustive(worst >= target);
    run.sample(json!({"layer": "geometric", "gamma": "7/100", "report": reps.get("geometric/gamma=7/100")}));
    run.sample(json!({"layer": "gaussian", "sigma": "100/7", "report": reps.get("gaussian/sigma=100/7")}));
    run.sample(json!({"layer": "laplace", "scale": "1/3", "report": reps.get("laplace/scale=1/3")}));
    run.sample(json!({"layer": "e2e laplace", "scale": "1/2", "report": reps.get("e2e/laplace/scale=1/2")}));
    run.finish();
}

struct Timing(String, std::time::Instant);
impl Drop for Timing {
    fn drop(&mut self) {
        if std::env::var("C15_TIMING").is_ok() {
            eprintln!("TIMING {:8.2}s (end at {:?}) {}", self.1.elapsed().as_secs_f64(), std::time::SystemTime::now().duration_since(std::time::UNIX_EPOCH).unwrap().as_secs() % 1000, self.0);
        }
    }
}

fn record(run: &Run, reports: &std::sync::Mutex<BTreeMap<String, Value>>, kind: Kind, param: &Q, mode: Mode, r: &LayerReport) {
    run.count("states", r.leaves + r.renewal_pairs);
    run.count("transitions", r.answered);
    run.count("evaluations", r.runs);
    if r.nonconforming > 0 {
        run.count("paths_deviating_from_cks20", r.nonconforming);
    }
    let key = format!("{}{}/{}={}", if mode == Mode::EndToEnd { "e2e/" } else { "" }, kind.name(), pname(kind), qs(param));
    reports.lock().unwrap().insert(
        key,
        json!({"residual_bits": (r.residual_bits * 10.0).round() / 10.0, "paths": r.leaves, "executions": r.runs,
               "answered_calls": r.answered, "renewal_depth": r.renewal_depth, "renewal_replays": r.renewal_pairs,
               "budget_hit": r.budget_hit, "paths_deviating_from_cks20": r.nonconforming}),
    );
}
