//! C10 — NTT and Lagrange-basis polynomial routines equal their textbook definitions.
//!
//! Engine: bounded-exhaustive sweep on the real crate-private routines (through
//! `prio::verif_hooks::poly`), compared with a boring reference over plain residues mod p
//! (`mulmod`/`addmod`/`modpow`, BigUint above 64 bits): direct evaluation of the input polynomial at
//! the points s*w^i, the direct O(n^2) Lagrange formula for the Lagrange-basis routines.
//!
//! (A) GF(17), GF(97), GF(193), GF(257), GF(12289): *every* input vector while p^n is small
//!     (GF(17): n = 1, 2, 4) through ntt / ntt_set_s / ntt_inv / get_ntt / get_ntt_inv — this is what
//!     establishes that the routines are the linear maps the basis checks assume;
//! (B) every field, every power-of-two size up to 2^10 (quick) / 2^14 (thorough; 2^13 at most for the
//!     small fields): the full standard
//!     basis, every output entry compared (table look-ups in the table of powers of the root);
//! (C) arbitrary vectors (all-ones, all p-1, seeded) and short (zero-padded) inputs against direct
//!     Horner evaluation; inverse-of-forward round trips; padding equivalence at the larger sizes;
//! (D) sizes above the basis bound up to 2^20 on {e0, e1, e_{n-1}, 1..1} against closed forms;
//! (E) `ntt_inv_finish`, `nth_root_powers`;
//! (F) `poly_eval_lagrange_batched`, `double_evaluations`, `poly_mul_lagrange` against the table
//!     L_k(x) of Lagrange basis polynomials computed from the product formula;
//! (G) `extend_values_to_power_of_2` for every `num_values` in [0, n];
//! (H) size / capacity violations must come back as `Err`, never as a panic.
use prio::field::verif::*;
use prio::field::{Field128, Field64, FieldPrio2};
use prio::verif_hooks::poly as hp;
use pvh::engine::{catch, fnv, par, splitmix, Level, Run};
use pvh::kit::ints::{addmod, modpow, mulmod, nth_vector, pow_u64, IntConv, KitField};
use serde_json::{json, Map, Value};
use std::collections::{BTreeMap, HashSet};
use std::sync::atomic::{AtomicU64, Ordering};
use std::sync::Mutex;

// ---------------------------------------------------------------------------------------------
// reference arithmetic on residues
fn submod(a: u128, b: u128, p: u128) -> u128 {
    addmod(a, p - (b % p), p)
}
fn modinv(a: u128, p: u128) -> u128 {
    assert!(a % p != 0, "reference: inverse of zero requested");
    let i = modpow(a, p - 2, p);
    assert_eq!(mulmod(a, i, p), 1, "reference: modinv self-check");
    i
}
/// [w^0, .., w^(n-1)]
fn pow_table(w: u128, n: usize, p: u128) -> Vec<u128> {
    let mut t = Vec::with_capacity(n);
    let mut x = 1 % p;
    for _ in 0..n {
        t.push(x);
        x = mulmod(x, w, p);
    }
    t
}
/// Value at `x` of the polynomial with coefficient vector `c` (Horner).
fn horner(c: &[u128], x: u128, p: u128) -> u128 {
    let mut r = 0u128;
    for a in c.iter().rev() {
        r = addmod(mulmod(r, x, p), *a, p);
    }
    r
}
fn seeded_vec(seed: u64, salt: &str, len: usize, p: u128) -> Vec<u128> {
    let mut st = seed ^ fnv(salt.as_bytes());
    (0..len)
        .map(|_| {
            let hi = splitmix(&mut st) as u128;
            let lo = splitmix(&mut st) as u128;
            ((hi << 64) | lo) % p
        })
        .collect()
}
fn fe_vec<F: KitField>(v: &[u128]) -> Vec<F>
where
    F::Integer: IntConv,
{
    v.iter().map(|x| F::fe(*x)).collect()
}
fn val_vec<F: KitField>(v: &[F]) -> Vec<u128>
where
    F::Integer: IntConv,
{
    v.iter().map(|x| x.val()).collect()
}
fn short(v: &[u128]) -> Value {
    // case description for replay files: whole vector when small
    if v.len() <= 32 {
        json!(v.iter().map(|x| x.to_string()).collect::<Vec<_>>())
    } else {
        json!({"len": v.len(), "head": v[..8].iter().map(|x| x.to_string()).collect::<Vec<_>>()})
    }
}

/// Parallel loop when the work is worth the thread start-up, plain loop otherwise.
fn pfor<G: Fn(u64) + Sync>(parallel: bool, n: u64, chunk: u64, f: G) {
    if parallel {
        par::for_each_chunked(n, chunk, f)
    } else {
        for i in 0..n {
            f(i)
        }
    }
}
/// `work` reference multiplications: worth going parallel? (BigUint arithmetic above 64 bits.)
fn heavy(p: u128, work: usize) -> bool {
    work.saturating_mul(if p >> 64 != 0 { 25 } else { 1 }) >= 400_000
}

// ---------------------------------------------------------------------------------------------
// failure collection: inside parallel loops mismatches are pushed here; afterwards only the
// simplest (lowest `ord`) case of each group is reported, so a broken build gives a handful of
// replay files, not millions.
struct Mis {
    group: String,
    ord: u64,
    key: String,
    what: String,
    case: Value,
}
struct Sink(Mutex<Vec<Mis>>);
impl Sink {
    fn new() -> Sink {
        Sink(Mutex::new(Vec::new()))
    }
    fn push(&self, group: &str, ord: u64, key: String, what: String, case: Value) {
        let mut g = self.0.lock().unwrap();
        // keep only the best per group
        if let Some(m) = g.iter_mut().find(|m| m.group == group) {
            if ord < m.ord {
                *m = Mis { group: group.to_string(), ord, key, what, case };
            }
        } else {
            g.push(Mis { group: group.to_string(), ord, key, what, case });
        }
    }
    fn has(&self, group: &str) -> bool {
        self.0.lock().unwrap().iter().any(|m| m.group == group)
    }
    /// Report; returns the groups that failed.
    fn flush(self, run: &Run) -> HashSet<String> {
        let mut v = self.0.into_inner().unwrap();
        v.sort_by(|a, b| a.key.cmp(&b.key));
        let mut out = HashSet::new();
        for m in v {
            run.fail(&m.key, &m.what, m.case);
            out.insert(m.group);
        }
        out
    }
}

/// Outcome of a `Result`-returning library call wrapped in `catch`.
fn must_ok<T>(r: Result<Result<T, hp::NttError>, String>) -> Result<T, String> {
    match r {
        Ok(Ok(v)) => Ok(v),
        Ok(Err(e)) => Err(format!("returned Err({e:?}) for a valid size")),
        Err(m) => Err(format!("panicked: {m}")),
    }
}
fn first_diff<F: KitField>(out: &[F], n: usize, want: impl Fn(usize) -> u128) -> Option<(usize, u128, u128)>
where
    F::Integer: IntConv,
{
    for i in 0..n {
        let g = out[i].val();
        let w = want(i);
        if g != w {
            return Some((i, g, w));
        }
    }
    None
}

// ---------------------------------------------------------------------------------------------
/// Roots of unity of a field, read through `F::root` and validated from scratch.
struct Roots {
    p: u128,
    maxl: usize,
    r: Vec<u128>,
}
fn roots_of<F: KitField>(run: &Run, name: &str, deployed: bool) -> Option<Roots>
where
    F::Integer: IntConv,
{
    let p = F::p();
    let mut r = vec![];
    let mut ended = false;
    for l in 0..48usize {
        match catch(|| F::root(l)) {
            Ok(Some(x)) => {
                if ended {
                    run.fail(&format!("roots/{name}/gap"), &format!("{name}: root({l}) is Some after a None"), json!({"field": name, "l": l}));
                    return None;
                }
                r.push(x.val());
            }
            Ok(None) => ended = true,
            Err(m) => {
                run.fail(&format!("roots/{name}/panic"), &format!("{name}: root({l}) panicked: {m}"), json!({"field": name, "l": l}));
                return None;
            }
        }
    }
    assert!(!r.is_empty(), "{name}: no roots at all");
    let maxl = r.len() - 1;
    let v2 = (p - 1).trailing_zeros() as usize;
    let expect = v2.min(20);
    if maxl != expect {
        if deployed {
            run.fail(&format!("roots/{name}/max"), &format!("{name}: root(l) available up to l={maxl}, expected {expect}"), json!({"field": name}));
            return None;
        }
        panic!("{name}: verification-only field offers roots up to {maxl}, expected {expect} (hook table)");
    }
    for l in 0..=maxl {
        let ok = if l == 0 {
            r[0] == 1
        } else {
            // w^(2^(l-1)) = -1  <=>  order exactly 2^l ; and the chain root(l)^2 = root(l-1)
            modpow(r[l], 1u128 << (l - 1), p) == p - 1 && mulmod(r[l], r[l], p) == r[l - 1]
        };
        run.count("evaluations", 1);
        if !ok {
            run.fail(&format!("roots/{name}/l={l}"), &format!("{name}: root({l}) = {} is not the principal 2^{l}-th root of unity (order / chain check)", r[l]), json!({"field": name, "l": l, "root": r[l].to_string()}));
            return None;
        }
    }
    Some(Roots { p, maxl, r })
}

/// Which value-checked routines already failed for this field (larger sizes are then skipped:
/// the smallest failing size is the case that is reported).
#[derive(Default)]
struct Dead(HashSet<String>);
impl Dead {
    fn is(&self, g: &str) -> bool {
        self.0.contains(g)
    }
    fn absorb(&mut self, s: HashSet<String>) {
        self.0.extend(s);
    }
}

// ---------------------------------------------------------------------------------------------
// (A) every input vector
fn check_exhaustive<F: KitField>(run: &Run, name: &str, ro: &Roots, l: usize, dead: &mut Dead)
where
    F::Integer: IntConv,
{
    let p = ro.p;
    let n = 1usize << l;
    let total = pow_u64(p as u64, n).expect("p^n fits");
    let w = pow_table(ro.r[l], n, p);
    let s = (l + 1 <= ro.maxl).then(|| pow_table(ro.r[l + 1], 2 * n, p));
    let ninv = modinv(n as u128 % p, p);
    let sink = Sink::new();
    let calls = AtomicU64::new(0);
    let skip_ntt = dead.is("ntt");
    let skip_s = dead.is("ntt_set_s");
    let skip_inv = dead.is("ntt_inv");
    pfor(total >= 4096, total, 256, |idx| {
        let v = nth_vector(idx, n, p as u64);
        let inp: Vec<F> = fe_vec(&v);
        let case = || json!({"field": name, "size": n, "input": short(&v)});
        let k = |r: &str| format!("{r}/{name}/size={n}/all-vectors");
        let mut c = 0u64;
        // forward
        if !skip_ntt {
            let want: Vec<u128> = (0..n).map(|i| horner(&v, w[i], p)).collect();
            let mut out = vec![F::fe((idx as u128 + 3) % p); n];
            c += 1;
            match must_ok(catch(|| hp::ntt(&mut out, &inp, n))) {
                Err(m) => sink.push("ntt", idx, k("ntt"), format!("{name}: ntt size {n} {m}"), case()),
                Ok(()) => {
                    if let Some((i, g, wv)) = first_diff(&out, n, |i| want[i]) {
                        sink.push("ntt", idx, k("ntt"), format!("{name}: ntt(size={n}) of {:?}: output[{i}] = {g}, direct evaluation at w^{i} gives {wv}", v), case());
                    }
                }
            }
            c += 1;
            match must_ok(catch(|| hp::get_ntt(&inp, n))) {
                Err(m) => sink.push("get_ntt", idx, k("get_ntt"), format!("{name}: get_ntt size {n} {m}"), case()),
                Ok(o) => {
                    if o.len() != n || first_diff(&o, n, |i| want[i]).is_some() {
                        sink.push("get_ntt", idx, k("get_ntt"), format!("{name}: get_ntt(size={n}) of {:?} = {:?}, expected {:?}", v, val_vec(&o), want), case());
                    }
                    // inverse undoes forward
                    c += 1;
                    match must_ok(catch(|| hp::get_ntt_inv(&o, n))) {
                        Err(m) => sink.push("roundtrip", idx, k("roundtrip"), format!("{name}: get_ntt_inv size {n} {m}"), case()),
                        Ok(b) => {
                            if val_vec(&b) != v {
                                sink.push("roundtrip", idx, k("roundtrip"), format!("{name}: ntt_inv(ntt(x)) != x for x = {:?} (size {n}): got {:?}", v, val_vec(&b)), case());
                            }
                        }
                    }
                }
            }
        }
        if let (Some(s), false) = (&s, skip_s) {
            let mut out = vec![F::fe((idx as u128 + 3) % p); n];
            c += 1;
            match must_ok(catch(|| hp::ntt_set_s(&mut out, &inp, n))) {
                Err(m) => sink.push("ntt_set_s", idx, k("ntt_set_s"), format!("{name}: ntt_set_s size {n} {m}"), case()),
                Ok(()) => {
                    if let Some((i, g, wv)) = first_diff(&out, n, |i| horner(&v, s[2 * i + 1], p)) {
                        sink.push("ntt_set_s", idx, k("ntt_set_s"), format!("{name}: ntt_set_s(size={n}) of {:?}: output[{i}] = {g}, direct evaluation at s*w^{i} gives {wv}", v), case());
                    }
                }
            }
        }
        if !skip_inv {
            let mut out = vec![F::fe((idx as u128 + 3) % p); n];
            c += 1;
            match must_ok(catch(|| hp::ntt_inv(&mut out, &inp, n))) {
                Err(m) => sink.push("ntt_inv", idx, k("ntt_inv"), format!("{name}: ntt_inv size {n} {m}"), case()),
                Ok(()) => {
                    if let Some((i, g, wv)) = first_diff(&out, n, |j| mulmod(ninv, horner(&v, w[(n - j) % n], p), p)) {
                        sink.push("ntt_inv", idx, k("ntt_inv"), format!("{name}: ntt_inv(size={n}) of {:?}: output[{i}] = {g}, (1/n) * evaluation at w^-{i} gives {wv}", v), case());
                    }
                }
            }
        }
        calls.fetch_add(c, Ordering::Relaxed);
    });
    run.count("evaluations", calls.load(Ordering::Relaxed));
    run.count("exhaustive_input_vectors", total);
    run.distinct_many((0..total).map(|i| fnv(format!("all/{name}/{n}/{i}").as_bytes())));
    dead.absorb(sink.flush(run));
}

// ---------------------------------------------------------------------------------------------
// (B) full standard basis
fn check_basis<F: KitField>(run: &Run, name: &str, ro: &Roots, l: usize, dead: &mut Dead)
where
    F::Integer: IntConv,
{
    let p = ro.p;
    let n = 1usize << l;
    let w = pow_table(ro.r[l], n, p);
    let s = (l + 1 <= ro.maxl).then(|| pow_table(ro.r[l + 1], 2 * n, p));
    let ninv = modinv(n as u128 % p, p);
    // nw[k] = (1/n) * w^(-k)
    let nw: Vec<u128> = (0..n).map(|k| mulmod(ninv, w[(n - k) % n], p)).collect();
    let sink = Sink::new();
    let calls = AtomicU64::new(0);
    let do_ntt = !dead.is("ntt");
    let do_s = !dead.is("ntt_set_s") && s.is_some();
    let do_inv = !dead.is("ntt_inv");
    let chunk = (n as u64 / 128).max(1);
    pfor(n >= 128, n as u64, chunk, |j| {
        let j = j as usize;
        let mut inp = vec![F::zero(); n];
        inp[j] = F::one();
        let junk = F::fe((j as u128 * 31 + 7) % p);
        let mut out = vec![junk; n];
        let case = |r: &str| json!({"field": name, "routine": r, "size": n, "input": format!("e_{j} (length {n})")});
        let mut c = 0;
        if do_ntt {
            c += 1;
            match must_ok(catch(|| hp::ntt(&mut out, &inp, n))) {
                Err(m) => sink.push("ntt", j as u64, format!("ntt/{name}/size={n}/basis={j}"), format!("{name}: ntt(size={n}, e_{j}) {m}"), case("ntt")),
                Ok(()) => {
                    if let Some((i, g, wv)) = first_diff(&out, n, |i| w[(i * j) % n]) {
                        sink.push("ntt", j as u64, format!("ntt/{name}/size={n}/basis={j}"), format!("{name}: ntt(size={n}, e_{j})[{i}] = {g}, expected w^({i}*{j}) = {wv}"), case("ntt"));
                    }
                }
            }
        }
        if do_s {
            let s = s.as_ref().unwrap();
            out.fill(junk);
            c += 1;
            match must_ok(catch(|| hp::ntt_set_s(&mut out, &inp, n))) {
                Err(m) => sink.push("ntt_set_s", j as u64, format!("ntt_set_s/{name}/size={n}/basis={j}"), format!("{name}: ntt_set_s(size={n}, e_{j}) {m}"), case("ntt_set_s")),
                Ok(()) => {
                    if let Some((i, g, wv)) = first_diff(&out, n, |i| s[(j * (2 * i + 1)) % (2 * n)]) {
                        sink.push("ntt_set_s", j as u64, format!("ntt_set_s/{name}/size={n}/basis={j}"), format!("{name}: ntt_set_s(size={n}, e_{j})[{i}] = {g}, expected (s*w^{i})^{j} = {wv}"), case("ntt_set_s"));
                    }
                }
            }
        }
        if do_inv {
            out.fill(junk);
            c += 1;
            match must_ok(catch(|| hp::ntt_inv(&mut out, &inp, n))) {
                Err(m) => sink.push("ntt_inv", j as u64, format!("ntt_inv/{name}/size={n}/basis={j}"), format!("{name}: ntt_inv(size={n}, e_{j}) {m}"), case("ntt_inv")),
                Ok(()) => {
                    if let Some((i, g, wv)) = first_diff(&out, n, |i| nw[(i * j) % n]) {
                        sink.push("ntt_inv", j as u64, format!("ntt_inv/{name}/size={n}/basis={j}"), format!("{name}: ntt_inv(size={n}, e_{j})[{i}] = {g}, expected w^(-{i}*{j})/n = {wv}"), case("ntt_inv"));
                    }
                }
            }
        }
        calls.fetch_add(c, Ordering::Relaxed);
    });
    let c = calls.load(Ordering::Relaxed);
    run.count("evaluations", c);
    run.count("basis_outputs_compared", c * n as u64);
    run.distinct_many((0..n).map(|j| fnv(format!("basis/{name}/{n}/{j}").as_bytes())));
    dead.absorb(sink.flush(run));
}

// ---------------------------------------------------------------------------------------------
// (C) arbitrary and short vectors against direct evaluation
fn vector_menu(run: &Run, name: &str, n: usize, p: u128) -> Vec<(String, Vec<u128>)> {
    // input lengths: full, and short ones (zero padding). The empty input is used for n >= 2 only; at
    // n = 1 it is one of the error-section cases.
    let mut lens: Vec<usize> = vec![1, n / 2, n - 1, n];
    if n >= 2 {
        lens.push(0);
    } else {
        lens.retain(|x| *x >= 1);
    }
    lens.sort();
    lens.dedup();
    let mut v = vec![];
    for len in lens {
        v.push((format!("ones[len={len}]"), vec![1 % p; len]));
        if len >= 1 {
            v.push((format!("max[len={len}]"), vec![p - 1; len]));
            let mut e = vec![0; len];
            e[len - 1] = 1;
            v.push((format!("e_last[len={len}]"), e));
            v.push((format!("seeded0[len={len}]"), seeded_vec(run.seed, &format!("vec0/{name}/{n}/{len}"), len, p)));
            if len == n {
                v.push((format!("seeded1[len={len}]"), seeded_vec(run.seed, &format!("vec1/{name}/{n}/{len}"), len, p)));
            }
        }
    }
    v
}

fn check_vectors<F: KitField>(run: &Run, name: &str, ro: &Roots, l: usize, dead: &mut Dead)
where
    F::Integer: IntConv,
{
    let p = ro.p;
    let n = 1usize << l;
    let w = pow_table(ro.r[l], n, p);
    let s = (l + 1 <= ro.maxl).then(|| pow_table(ro.r[l + 1], 2 * n, p));
    let ninv = modinv(n as u128 % p, p);
    let menu = vector_menu(run, name, n, p);
    let routines: [&str; 5] = ["ntt", "ntt_set_s", "ntt_inv", "get_ntt", "get_ntt_inv"];
    let sink = Sink::new();
    let calls = AtomicU64::new(0);
    pfor(heavy(p, n * n * 16), (menu.len() * routines.len()) as u64, 1, |t| {
        let (vi, ri) = (t as usize / routines.len(), t as usize % routines.len());
        let (label, v) = &menu[vi];
        let r = routines[ri];
        if (r == "ntt_set_s" && s.is_none()) || dead.is(r) {
            return;
        }
        let inp: Vec<F> = fe_vec(v);
        // output buffer longer than `size` for two of the routines: only the first n are compared
        let extra = if vi % 2 == 1 { 3 } else { 0 };
        let mut out = vec![F::fe(5 % p); n + extra];
        let res: Result<Vec<F>, String> = match r {
            "ntt" => must_ok(catch(|| hp::ntt(&mut out, &inp, n))).map(|_| out.clone()),
            "ntt_set_s" => must_ok(catch(|| hp::ntt_set_s(&mut out, &inp, n))).map(|_| out.clone()),
            "ntt_inv" => must_ok(catch(|| hp::ntt_inv(&mut out, &inp, n))).map(|_| out.clone()),
            "get_ntt" => must_ok(catch(|| hp::get_ntt(&inp, n))),
            _ => must_ok(catch(|| hp::get_ntt_inv(&inp, n))),
        };
        calls.fetch_add(1, Ordering::Relaxed);
        let key = format!("{r}/{name}/size={n}/vec={label}");
        let case = json!({"field": name, "routine": r, "size": n, "input": short(v), "input_label": label});
        match res {
            Err(m) => sink.push(r, t, key, format!("{name}: {r}(size={n}, {label}) {m}"), case),
            Ok(o) => {
                if o.len() < n {
                    sink.push(r, t, key, format!("{name}: {r}(size={n}) returned {} values", o.len()), case);
                    return;
                }
                let want = |i: usize| match r {
                    "ntt" | "get_ntt" => horner(v, w[i], p),
                    "ntt_set_s" => horner(v, s.as_ref().unwrap()[2 * i + 1], p),
                    _ => mulmod(ninv, horner(v, w[(n - i) % n], p), p),
                };
                if let Some((i, g, wv)) = first_diff(&o, n, want) {
                    sink.push(r, t, key, format!("{name}: {r}(size={n}, input {label})[{i}] = {g}, direct evaluation gives {wv}"), case);
                }
            }
        }
    });
    run.count("evaluations", calls.load(Ordering::Relaxed));
    run.distinct_many(menu.iter().map(|(lab, _)| fnv(format!("vec/{name}/{n}/{lab}").as_bytes())));
    dead.absorb(sink.flush(run));
}

/// Sizes above the direct-evaluation bound: a short input gives the same output as the explicitly
/// zero-padded one, and the inverse transform undoes the forward one (the forward transform itself
/// is pinned entry by entry by the basis check + linearity).
fn check_padding_roundtrip<F: KitField>(run: &Run, name: &str, ro: &Roots, l: usize, dead: &mut Dead)
where
    F::Integer: IntConv,
{
    let p = ro.p;
    let n = 1usize << l;
    let x = seeded_vec(run.seed, &format!("pad/{name}/{n}"), n, p);
    let xf: Vec<F> = fe_vec(&x);
    let sink = Sink::new();
    let mut lens = vec![1usize, n / 2, n - 1];
    if n >= 2 {
        lens.push(0);
    } else {
        lens.retain(|x| *x >= 1);
    }
    lens.sort();
    lens.dedup();
    let has_s = l + 1 <= ro.maxl;
    let mut calls = 0u64;
    for r in ["ntt", "ntt_set_s", "ntt_inv"] {
        if (r == "ntt_set_s" && !has_s) || dead.is(r) {
            continue;
        }
        let call = |o: &mut [F], i: &[F]| match r {
            "ntt" => must_ok(catch(|| hp::ntt(o, i, n))),
            "ntt_set_s" => must_ok(catch(|| hp::ntt_set_s(o, i, n))),
            _ => must_ok(catch(|| hp::ntt_inv(o, i, n))),
        };
        for len in lens.iter().copied().filter(|len| *len < n) {
            let mut padded = xf[..len].to_vec();
            padded.resize(n, F::zero());
            let mut a = vec![F::one(); n];
            let mut b = vec![F::zero(); n];
            let ra = call(&mut a, &xf[..len]);
            let rb = call(&mut b, &padded);
            calls += 2;
            let key = format!("{r}/{name}/size={n}/padding/len={len}");
            let case = json!({"field": name, "routine": r, "size": n, "input_len": len, "input": short(&x[..len])});
            match (ra, rb) {
                (Ok(()), Ok(())) => {
                    if a != b {
                        let i = (0..n).find(|i| a[*i] != b[*i]).unwrap();
                        sink.push(r, len as u64, key.clone(), format!("{name}: {r}(size={n}) of a length-{len} input differs from the zero-padded input at output[{i}]: {} vs {}", a[i].val(), b[i].val()), case);
                    }
                }
                (Err(m), _) | (_, Err(m)) => sink.push(r, len as u64, key.clone(), format!("{name}: {r}(size={n}, input length {len}) {m}"), case),
            }
        }
    }
    // round trips
    let key = format!("roundtrip/{name}/size={n}");
    let case = json!({"field": name, "size": n, "input": short(&x)});
    calls += 2;
    if dead.is("ntt") || dead.is("ntt_inv") || dead.is("get_ntt") || dead.is("get_ntt_inv") || dead.is("roundtrip") {
        // already reported at a smaller size
    } else {
        match must_ok(catch(|| hp::get_ntt(&xf, n))) {
        Err(m) => sink.push("get_ntt", 0, key.clone(), format!("{name}: get_ntt(size={n}) {m}"), case),
        Ok(y) => match must_ok(catch(|| hp::get_ntt_inv(&y, n))) {
            Err(m) => sink.push("get_ntt_inv", 0, key.clone(), format!("{name}: get_ntt_inv(size={n}) {m}"), case),
            Ok(z) => {
                if z != xf {
                    let i = (0..n).find(|i| z[*i] != xf[*i]).unwrap();
                    sink.push("roundtrip", 0, key.clone(), format!("{name}: ntt_inv(ntt(x)) != x at index {i} (size {n}): {} vs {}", z[i].val(), x[i]), case);
                }
            }
        },
    }
    }
    run.count("evaluations", calls);
    run.distinct(fnv(format!("pad/{name}/{n}").as_bytes()));
    dead.absorb(sink.flush(run));
}

// ---------------------------------------------------------------------------------------------
// (D) large sizes on structured vectors, closed forms
fn check_large<F: KitField>(run: &Run, name: &str, ro: &Roots, l: usize, vecs: &[&str], dead: &mut Dead)
where
    F::Integer: IntConv,
{
    let p = ro.p;
    let n = 1usize << l;
    let has_s = l + 1 <= ro.maxl;
    // one table: powers of the 2n-th root when it exists (w = s^2), else powers of w
    let s = has_s.then(|| pow_table(ro.r[l + 1], 2 * n, p));
    let wtab = (!has_s).then(|| pow_table(ro.r[l], n, p));
    let wpow = |k: usize| -> u128 {
        match (&s, &wtab) {
            (Some(s), _) => s[2 * (k % n)],
            (_, Some(w)) => w[k % n],
            _ => unreachable!(),
        }
    };
    let ninv = modinv(n as u128 % p, p);
    // the allocating variants validate the size on their own before delegating: same oracle
    let routines = ["ntt", "ntt_set_s", "ntt_inv", "get_ntt", "get_ntt_inv"];
    let sink = Sink::new();
    let calls = AtomicU64::new(0);
    pfor(true, (vecs.len() * routines.len()) as u64, 1, |t| {
        let (vi, ri) = (t as usize / routines.len(), t as usize % routines.len());
        let r0 = routines[ri];
        let r = match r0 {
            "get_ntt" => "ntt",
            "get_ntt_inv" => "ntt_inv",
            x => x,
        };
        if dead.is(r0) {
            return;
        }
        if dead.is(r) || (r == "ntt_set_s" && !has_s) {
            return;
        }
        let vname = vecs[vi];
        // e0 and e1 are passed as *short* inputs (length 1 and 2): zero padding at large sizes
        let (inp, j): (Vec<F>, Option<usize>) = match vname {
            "e0" => (vec![F::one()], Some(0)),
            "e1" => (vec![F::zero(), F::one()], Some(1)),
            "e_last" => {
                let mut v = vec![F::zero(); n];
                v[n - 1] = F::one();
                (v, Some(n - 1))
            }
            "ones" => (vec![F::one(); n], None),
            _ => unreachable!(),
        };
        let mut out = vec![F::fe(3 % p); n];
        let res = match r0 {
            "ntt" => must_ok(catch(|| hp::ntt(&mut out, &inp, n))),
            "ntt_set_s" => must_ok(catch(|| hp::ntt_set_s(&mut out, &inp, n))),
            "ntt_inv" => must_ok(catch(|| hp::ntt_inv(&mut out, &inp, n))),
            "get_ntt" => must_ok(catch(|| hp::get_ntt(&inp, n))).map(|v| out = v),
            _ => must_ok(catch(|| hp::get_ntt_inv(&inp, n))).map(|v| out = v),
        };
        calls.fetch_add(1, Ordering::Relaxed);
        let key = format!("{r0}/{name}/size={n}/vec={vname}");
        let case = json!({"field": name, "routine": r0, "size": n, "input": vname, "input_len": inp.len()});
        if let Err(m) = res {
            sink.push(r0, vi as u64, key, format!("{name}: {r0}(size=2^{l}, {vname}) {m}"), case);
            return;
        }
        if out.len() != n {
            sink.push(r0, vi as u64, key, format!("{name}: {r0}(size=2^{l}, {vname}) returned {} elements", out.len()), case);
            return;
        }
        let bad: Option<(usize, u128, String)> = match (r, j) {
            ("ntt", Some(j)) => first_diff(&out, n, |i| wpow(i * j)).map(|(i, g, w)| (i, g, w.to_string())),
            ("ntt_set_s", Some(j)) => {
                let s = s.as_ref().unwrap();
                first_diff(&out, n, |i| s[(j * (2 * i + 1)) % (2 * n)]).map(|(i, g, w)| (i, g, w.to_string()))
            }
            ("ntt_inv", Some(j)) => first_diff(&out, n, |i| mulmod(ninv, wpow(n - (i * j) % n), p)).map(|(i, g, w)| (i, g, w.to_string())),
            ("ntt", None) => first_diff(&out, n, |i| if i == 0 { n as u128 % p } else { 0 }).map(|(i, g, w)| (i, g, w.to_string())),
            ("ntt_inv", None) => first_diff(&out, n, |i| if i == 0 { 1 } else { 0 }).map(|(i, g, w)| (i, g, w.to_string())),
            ("ntt_set_s", None) => {
                // sum_j x^j = (x^n - 1)/(x - 1) with x = s^(2i+1), x^n = -1:  out[i] * (x - 1) = -2
                let s = s.as_ref().unwrap();
                (0..n)
                    .find(|i| mulmod(out[*i].val(), submod(s[2 * i + 1], 1, p), p) != p - 2)
                    .map(|i| (i, out[i].val(), format!("-2/(s^{} - 1)", 2 * i + 1)))
            }
            _ => unreachable!(),
        };
        if let Some((i, g, w)) = bad {
            sink.push(r0, vi as u64, key, format!("{name}: {r0}(size=2^{l}, {vname})[{i}] = {g}, expected {w}"), case);
        }
    });
    let c = calls.load(Ordering::Relaxed);
    run.count("evaluations", c);
    run.count("large_outputs_compared", c * n as u64);
    run.distinct_many(vecs.iter().map(|v| fnv(format!("large/{name}/{n}/{v}").as_bytes())));
    dead.absorb(sink.flush(run));
}

// ---------------------------------------------------------------------------------------------
// (E) ntt_inv_finish, nth_root_powers
fn check_inv_finish<F: KitField>(run: &Run, name: &str, ro: &Roots, l: usize) -> bool
where
    F::Integer: IntConv,
{
    // documented use: the last step of the inverse transform, size_inv = 1/size:
    // out'[i] = size_inv * out[(size - i) mod size]
    let p = ro.p;
    let n = 1usize << l;
    let ninv = modinv(n as u128 % p, p);
    let mut vs = vec![("seeded".to_string(), seeded_vec(run.seed, &format!("fin/{name}/{n}"), n, p))];
    vs.push(("counting".to_string(), (0..n).map(|i| (i as u128 + 1) % p).collect()));
    if n <= 64 {
        for j in 0..n {
            let mut e = vec![0; n];
            e[j] = 1;
            vs.push((format!("e_{j}"), e));
        }
    }
    let mut ok = true;
    for (label, v) in &vs {
        let mut out: Vec<F> = fe_vec(v);
        let r = catch(|| hp::ntt_inv_finish(&mut out, n, F::fe(ninv)));
        run.count("evaluations", 1);
        let key = format!("ntt_inv_finish/{name}/size={n}/vec={label}");
        let case = json!({"field": name, "size": n, "input": short(v), "size_inv": ninv.to_string()});
        match r {
            Err(m) => {
                run.fail(&key, &format!("{name}: ntt_inv_finish(size={n}) panicked: {m}"), case);
                ok = false;
            }
            Ok(()) => {
                if let Some((i, g, w)) = first_diff(&out, n, |i| mulmod(ninv, v[(n - i) % n], p)) {
                    run.fail(&key, &format!("{name}: ntt_inv_finish(size={n}, {label})[{i}] = {g}, expected in[(n-{i}) mod n]/n = {w}"), case);
                    ok = false;
                }
            }
        }
        if !ok {
            break;
        }
    }
    run.distinct(fnv(format!("fin/{name}/{n}").as_bytes()));
    ok
}

fn check_root_powers<F: KitField>(run: &Run, name: &str, ro: &Roots, l: usize) -> bool
where
    F::Integer: IntConv,
{
    let n = 1usize << l;
    let want = pow_table(ro.r[l], n, ro.p);
    run.count("evaluations", 1);
    run.distinct(fnv(format!("nrp/{name}/{n}").as_bytes()));
    let key = format!("nth_root_powers/{name}/n={n}");
    let case = json!({"field": name, "n": n});
    match catch(|| hp::nth_root_powers::<F>(n)) {
        Err(m) => {
            run.fail(&key, &format!("{name}: nth_root_powers({n}) panicked: {m}"), case);
            false
        }
        Ok(v) => {
            if v.len() != n {
                run.fail(&key, &format!("{name}: nth_root_powers({n}) returned {} values", v.len()), case);
                return false;
            }
            if let Some((i, g, w)) = first_diff(&v, n, |i| want[i]) {
                run.fail(&key, &format!("{name}: nth_root_powers({n})[{i}] = {g}, expected w^{i} = {w}"), case);
                return false;
            }
            true
        }
    }
}

// ---------------------------------------------------------------------------------------------
// (F) Lagrange-basis routines against the product formula
struct Lag {
    n: usize,
    /// evaluation points; the first `ns` are s^0..s^(2n-1) (or w^0..w^(n-1) when the 2n-th root does
    /// not exist), the rest are extras
    x: Vec<u128>,
    xlabel: Vec<String>,
    ns: usize,
    has_s: bool,
    /// lt[k][xi] = L_k(x[xi]) = prod_{j != k} (x - w^j) / (w^k - w^j)
    lt: Vec<Vec<u128>>,
}
fn lagrange_table(run: &Run, name: &str, ro: &Roots, l: usize) -> Lag {
    let p = ro.p;
    let n = 1usize << l;
    let w = pow_table(ro.r[l], n, p);
    let has_s = l + 1 <= ro.maxl;
    let mut x = vec![];
    let mut xlabel = vec![];
    if has_s {
        let s = pow_table(ro.r[l + 1], 2 * n, p);
        for (m, v) in s.iter().enumerate() {
            x.push(*v);
            xlabel.push(if m % 2 == 0 { format!("node{}", m / 2) } else { format!("s^{m}") });
        }
        for i in 0..n {
            assert_eq!(s[2 * i], w[i], "reference: s^2 = w");
        }
    } else {
        for (i, v) in w.iter().enumerate() {
            x.push(*v);
            xlabel.push(format!("node{i}"));
        }
    }
    let ns = x.len();
    for (lab, v) in [("0", 0), ("1", 1 % p), ("-1", p - 1), ("2", 2 % p), ("-2", p - 2), ("1/2", (p + 1) / 2), ("3", 3 % p)] {
        x.push(v);
        xlabel.push(lab.to_string());
    }
    for (i, v) in seeded_vec(run.seed, &format!("lagx/{name}/{n}"), 4, p).into_iter().enumerate() {
        x.push(v);
        xlabel.push(format!("seeded{i}"));
    }
    let lt: Mutex<Vec<Vec<u128>>> = Mutex::new(vec![vec![]; n]);
    pfor(heavy(p, 2 * n * n * n), n as u64, 1, |k| {
        let k = k as usize;
        let mut den = 1 % p;
        for j in 0..n {
            if j != k {
                den = mulmod(den, submod(w[k], w[j], p), p);
            }
        }
        let dinv = modinv(den, p);
        let row: Vec<u128> = x
            .iter()
            .map(|xv| {
                let mut num = 1 % p;
                for j in 0..n {
                    if j != k {
                        num = mulmod(num, submod(*xv, w[j], p), p);
                    }
                }
                mulmod(num, dinv, p)
            })
            .collect();
        lt.lock().unwrap()[k] = row;
    });
    let lt = lt.into_inner().unwrap();
    // reference self-checks: L_k(w^i) = [i = k]; sum_k L_k(x) = 1
    let step = if has_s { 2 } else { 1 };
    for k in 0..n {
        for i in 0..n {
            assert_eq!(lt[k][i * step], (i == k) as u128 % p, "reference: L_k at a node");
        }
    }
    for xi in 0..x.len() {
        let mut sum = 0;
        for k in 0..n {
            sum = addmod(sum, lt[k][xi], p);
        }
        assert_eq!(sum, 1 % p, "reference: partition of unity");
    }
    Lag { n, x, xlabel, ns, has_s, lt }
}
/// p(x[xi]) for the polynomial with values y at the nodes
fn lag_eval(lag: &Lag, y: &[u128], xi: usize, p: u128) -> u128 {
    let mut acc = 0;
    for k in 0..lag.n {
        if y[k] != 0 {
            acc = addmod(acc, mulmod(y[k], lag.lt[k][xi], p), p);
        }
    }
    acc
}

fn check_lagrange<F: KitField>(run: &Run, name: &str, ro: &Roots, l: usize, dead: &mut Dead)
where
    F::Integer: IntConv,
{
    let p = ro.p;
    let lag = lagrange_table(run, name, ro, l);
    let n = lag.n;
    let hv = heavy(p, n * n * n);
    let w = pow_table(ro.r[l], n, p);
    let basis: Vec<Vec<u128>> = (0..n)
        .map(|k| {
            let mut e = vec![0; n];
            e[k] = 1;
            e
        })
        .collect();
    let basis_f: Vec<Vec<F>> = basis.iter().map(|e| fe_vec(e)).collect();
    let sd0 = seeded_vec(run.seed, &format!("lagy0/{name}/{n}"), n, p);
    let sd1 = seeded_vec(run.seed, &format!("lagy1/{name}/{n}"), n, p);
    let sink = Sink::new();
    let calls = AtomicU64::new(0);
    let nx = lag.x.len();

    // --- poly_eval_lagrange_batched
    if !dead.is("lagrange_eval") {
        // (a) the batch of all n basis polynomials, at every point
        pfor(hv, nx as u64, 1, |xi| {
            let xi = xi as usize;
            calls.fetch_add(1, Ordering::Relaxed);
            let key = format!("lagrange_eval/{name}/n={n}/batch=basis/x={}", lag.xlabel[xi]);
            let case = json!({"field": name, "n": n, "polynomials": "e_0..e_{n-1} (one batch)", "x": lag.x[xi].to_string(), "x_label": lag.xlabel[xi]});
            match catch(|| hp::poly_eval_lagrange_batched(&basis_f, F::fe(lag.x[xi]))) {
                Err(m) => sink.push("lagrange_eval", xi as u64, key, format!("{name}: poly_eval_lagrange_batched(n={n}, x={}) panicked: {m}", lag.xlabel[xi]), case),
                Ok(v) => {
                    if v.len() != n {
                        sink.push("lagrange_eval", xi as u64, key, format!("{name}: poly_eval_lagrange_batched returned {} values for a batch of {n}", v.len()), case);
                    } else if let Some((k, g, wv)) = first_diff(&v, n, |k| lag.lt[k][xi]) {
                        sink.push("lagrange_eval", xi as u64, key, format!("{name}: poly_eval_lagrange_batched(n={n}, batch of all basis polynomials, x={} = {})[{k}] = {g}, L_{k}(x) = {wv}", lag.xlabel[xi], lag.x[xi]), case);
                    }
                }
            }
        });
        // (b) each basis polynomial alone (batch of one), at every point
        pfor(hv, n as u64, 1, |k| {
            let k = k as usize;
            if sink.has("lagrange_eval") {
                return;
            }
            for xi in 0..nx {
                calls.fetch_add(1, Ordering::Relaxed);
                let key = format!("lagrange_eval/{name}/n={n}/single=e_{k}/x={}", lag.xlabel[xi]);
                let case = json!({"field": name, "n": n, "polynomials": format!("[e_{k}]"), "x": lag.x[xi].to_string(), "x_label": lag.xlabel[xi]});
                let ord = (nx + k * nx + xi) as u64;
                match catch(|| hp::poly_eval_lagrange_batched(&basis_f[k..k + 1], F::fe(lag.x[xi]))) {
                    Err(m) => sink.push("lagrange_eval", ord, key, format!("{name}: poly_eval_lagrange_batched(n={n}, [e_{k}], x={}) panicked: {m}", lag.xlabel[xi]), case),
                    Ok(v) => {
                        if v.len() != 1 || v[0].val() != lag.lt[k][xi] {
                            sink.push("lagrange_eval", ord, key, format!("{name}: poly_eval_lagrange_batched(n={n}, [e_{k}], x={} = {}) = {:?}, L_{k}(x) = {}", lag.xlabel[xi], lag.x[xi], val_vec(&v), lag.lt[k][xi]), case);
                        }
                    }
                }
            }
        });
        // (c) a batch of unequal content
        let mut mixed: Vec<(String, Vec<u128>)> = vec![
            ("seeded0".into(), sd0.clone()),
            ("ones".into(), vec![1 % p; n]),
            ("identity".into(), w.clone()),
            (format!("e_{}", n - 1), basis[n - 1].clone()),
            ("zero".into(), vec![0; n]),
            ("seeded1".into(), sd1.clone()),
            ("max".into(), vec![p - 1; n]),
        ];
        if n >= 4 {
            // x^(n-1): values w^(i(n-1)) = w^(-i)
            mixed.push(("x^(n-1)".into(), (0..n).map(|i| w[(n - i) % n]).collect()));
        }
        let mixed_f: Vec<Vec<F>> = mixed.iter().map(|(_, v)| fe_vec(v)).collect();
        pfor(hv, nx as u64, 1, |xi| {
            let xi = xi as usize;
            let want: Vec<u128> = mixed.iter().map(|(_, y)| lag_eval(&lag, y, xi, p)).collect();
            // self-checks of the reference on the structured members
            assert_eq!(want[1], 1 % p, "reference: constant polynomial");
            if n >= 2 {
                assert_eq!(want[2], lag.x[xi], "reference: identity polynomial");
            }
            if n >= 4 {
                assert_eq!(want[7], modpow(lag.x[xi], (n - 1) as u128, p), "reference: x^(n-1)");
            }
            calls.fetch_add(1, Ordering::Relaxed);
            let key = format!("lagrange_eval/{name}/n={n}/batch=mixed/x={}", lag.xlabel[xi]);
            let case = json!({"field": name, "n": n, "polynomials": mixed.iter().map(|(l, v)| json!({"label": l, "values": short(v)})).collect::<Vec<_>>(), "x": lag.x[xi].to_string(), "x_label": lag.xlabel[xi]});
            let ord = (nx + n * nx + xi) as u64;
            match catch(|| hp::poly_eval_lagrange_batched(&mixed_f, F::fe(lag.x[xi]))) {
                Err(m) => sink.push("lagrange_eval", ord, key, format!("{name}: poly_eval_lagrange_batched(n={n}, mixed batch, x={}) panicked: {m}", lag.xlabel[xi]), case),
                Ok(v) => {
                    if v.len() != mixed.len() {
                        sink.push("lagrange_eval", ord, key, format!("{name}: poly_eval_lagrange_batched returned {} values for a batch of {}", v.len(), mixed.len()), case);
                    } else if let Some((k, g, wv)) = first_diff(&v, mixed.len(), |k| want[k]) {
                        sink.push("lagrange_eval", ord, key, format!("{name}: poly_eval_lagrange_batched(n={n}, mixed batch, x={} = {})[{k} = {}] = {g}, interpolant evaluates to {wv}", lag.xlabel[xi], lag.x[xi], mixed[k].0), case);
                    }
                }
            }
        });
        run.distinct_many((0..nx).map(|xi| fnv(format!("lag/{name}/{n}/{xi}").as_bytes())));
    }

    // --- double_evaluations, poly_mul_lagrange need the 2n-th root
    if lag.has_s {
        assert_eq!(lag.ns, 2 * n);
        if !dead.is("double_evaluations") {
            let mut inputs: Vec<(String, Vec<u128>)> = basis.iter().enumerate().map(|(k, e)| (format!("basis={k}"), e.clone())).collect();
            inputs.push(("vec=seeded0".into(), sd0.clone()));
            inputs.push(("vec=ones".into(), vec![1 % p; n]));
            inputs.push(("vec=max".into(), vec![p - 1; n]));
            pfor(hv, inputs.len() as u64, 1, |t| {
                let (label, y) = &inputs[t as usize];
                let yf: Vec<F> = fe_vec(y);
                let mut out = vec![F::fe(7 % p); 2 * n];
                calls.fetch_add(1, Ordering::Relaxed);
                let key = format!("double_evaluations/{name}/n={n}/{label}");
                let case = json!({"field": name, "n": n, "evaluations": short(y)});
                match must_ok(catch(|| hp::double_evaluations(&mut out, &yf))) {
                    Err(m) => sink.push("double_evaluations", t, key, format!("{name}: double_evaluations(n={n}, {label}) {m}"), case),
                    Ok(()) => {
                        if let Some((m, g, wv)) = first_diff(&out, 2 * n, |m| lag_eval(&lag, y, m, p)) {
                            sink.push("double_evaluations", t, key, format!("{name}: double_evaluations(n={n}, {label})[{m}] = {g}, the degree<{n} interpolant at s^{m} is {wv}"), case);
                        }
                    }
                }
            });
            run.distinct_many((0..inputs.len()).map(|t| fnv(format!("dbl/{name}/{n}/{t}").as_bytes())));
        }
        if !dead.is("poly_mul_lagrange") {
            let mut cands: Vec<(String, Vec<u128>)> = vec![];
            if n <= 16 {
                for k in 0..n {
                    cands.push((format!("e_{k}"), basis[k].clone()));
                }
            } else {
                cands.push(("e_1".into(), basis[1].clone()));
                cands.push((format!("e_{}", n - 1), basis[n - 1].clone()));
            }
            cands.push(("seeded0".into(), sd0.clone()));
            cands.push(("seeded1".into(), sd1.clone()));
            cands.push(("ones".into(), vec![1 % p; n]));
            cands.push(("identity".into(), w.clone()));
            let nc = cands.len();
            pfor(hv, (nc * nc) as u64, 1, |t| {
                let (a, b) = (t as usize / nc, t as usize % nc);
                let (la, ya) = &cands[a];
                let (lb, yb) = &cands[b];
                let (fa, fb): (Vec<F>, Vec<F>) = (fe_vec(ya), fe_vec(yb));
                let mut out = vec![F::fe(7 % p); 2 * n];
                calls.fetch_add(1, Ordering::Relaxed);
                let key = format!("poly_mul_lagrange/{name}/n={n}/pair={la},{lb}");
                let case = json!({"field": name, "n": n, "p": short(ya), "q": short(yb)});
                match must_ok(catch(|| hp::poly_mul_lagrange(&mut out, &fa, &fb))) {
                    Err(m) => sink.push("poly_mul_lagrange", t, key, format!("{name}: poly_mul_lagrange(n={n}, {la}, {lb}) {m}"), case),
                    Ok(()) => {
                        if let Some((m, g, wv)) = first_diff(&out, 2 * n, |m| mulmod(lag_eval(&lag, ya, m, p), lag_eval(&lag, yb, m, p), p)) {
                            sink.push("poly_mul_lagrange", t, key, format!("{name}: poly_mul_lagrange(n={n}, {la}, {lb})[{m}] = {g}, p(s^{m})*q(s^{m}) = {wv}"), case);
                        }
                    }
                }
            });
            run.distinct_many((0..nc * nc).map(|t| fnv(format!("mul/{name}/{n}/{t}").as_bytes())));
        }
    }
    run.count("evaluations", calls.load(Ordering::Relaxed));
    dead.absorb(sink.flush(run));
}

// ---------------------------------------------------------------------------------------------
// (G) extend_values_to_power_of_2, every num_values
fn check_extend<F: KitField>(run: &Run, name: &str, ro: &Roots, l: usize, dead: &mut Dead)
where
    F::Integer: IntConv,
{
    if dead.is("extend_values") {
        return;
    }
    let p = ro.p;
    let n = 1usize << l;
    let w = pow_table(ro.r[l], n, p);
    let sink = Sink::new();
    let calls = AtomicU64::new(0);
    pfor(heavy(p, n * n * n * n / 8), n as u64 + 1, 1, |m| {
        let m = m as usize;
        // e[i][k-m] = value at w^k of the degree<m Lagrange basis polynomial of node i (i < m <= k)
        let mut e: Vec<Vec<u128>> = Vec::with_capacity(m);
        for i in 0..m {
            let mut den = 1 % p;
            for j in 0..m {
                if j != i {
                    den = mulmod(den, submod(w[i], w[j], p), p);
                }
            }
            let dinv = modinv(den, p);
            e.push(
                (m..n)
                    .map(|k| {
                        let mut num = 1 % p;
                        for j in 0..m {
                            if j != i {
                                num = mulmod(num, submod(w[k], w[j], p), p);
                            }
                        }
                        mulmod(num, dinv, p)
                    })
                    .collect(),
            );
        }
        let expect = |y: &[u128]| -> Vec<u128> {
            (m..n)
                .map(|k| {
                    let mut acc = 0;
                    for i in 0..m {
                        if y[i] != 0 {
                            acc = addmod(acc, mulmod(y[i], e[i][k - m], p), p);
                        }
                    }
                    acc
                })
                .collect()
        };
        // inputs: first m entries meaningful, the tail is junk that must be overwritten and ignored
        let junk = seeded_vec(run.seed, &format!("extjunk/{name}/{n}/{m}"), n, p);
        let mut inputs: Vec<(String, Vec<u128>)> = vec![];
        for i in 0..m {
            let mut v = junk.clone();
            v[..m].fill(0);
            v[i] = 1;
            inputs.push((format!("basis={i}"), v));
        }
        let mk = |head: Vec<u128>| {
            let mut v = junk.clone();
            v[..m].copy_from_slice(&head);
            v
        };
        inputs.push(("vec=zero".into(), mk(vec![0; m])));
        inputs.push(("vec=ones".into(), mk(vec![1 % p; m])));
        inputs.push(("vec=identity".into(), mk(w[..m].to_vec())));
        inputs.push(("vec=max".into(), mk(vec![p - 1; m])));
        inputs.push(("vec=seeded0".into(), mk(seeded_vec(run.seed, &format!("ext0/{name}/{n}/{m}"), m, p))));
        inputs.push(("vec=seeded1".into(), mk(seeded_vec(run.seed, &format!("ext1/{name}/{n}/{m}"), m, p))));
        for (ii, (label, v)) in inputs.iter().enumerate() {
            let want = expect(&v[..m]);
            // reference self-checks
            if label == "vec=ones" && m >= 1 {
                assert!(want.iter().all(|x| *x == 1 % p), "reference: constant");
            }
            if label == "vec=identity" && m >= 2 {
                assert_eq!(want, w[m..].to_vec(), "reference: identity");
            }
            let mut buf: Vec<F> = fe_vec(v);
            calls.fetch_add(1, Ordering::Relaxed);
            let key = format!("extend_values/{name}/n={n}/num_values={m}/{label}");
            let case = json!({"field": name, "n": n, "num_values": m, "slice_before_call": short(v)});
            let ord = (m * (n + 8) + ii) as u64;
            match catch(|| hp::extend_values_to_power_of_2(&mut buf, m)) {
                Err(msg) => sink.push("extend_values", ord, key, format!("{name}: extend_values_to_power_of_2(len={n}, num_values={m}, {label}) panicked: {msg}"), case),
                Ok(()) => {
                    let got = val_vec(&buf);
                    if got[..m] != v[..m] {
                        sink.push("extend_values", ord, key, format!("{name}: extend_values_to_power_of_2(len={n}, num_values={m}, {label}) changed the given values"), case);
                    } else if got[m..] != want[..] {
                        let k = (m..n).find(|k| got[*k] != want[k - m]).unwrap();
                        sink.push("extend_values", ord, key, format!("{name}: extend_values_to_power_of_2(len={n}, num_values={m}, {label})[{k}] = {}, the degree<{m} interpolant at w^{k} is {}", got[k], want[k - m]), case);
                    }
                }
            }
        }
    });
    run.count("evaluations", calls.load(Ordering::Relaxed));
    run.distinct_many((0..=n).map(|m| fnv(format!("ext/{name}/{n}/{m}").as_bytes())));
    dead.absorb(sink.flush(run));
}

// ---------------------------------------------------------------------------------------------
// (H) error cases
#[derive(Debug, Clone)]
enum Out {
    Ok,
    Err(String),
    Panic(String),
}
fn outcome<T>(r: Result<Result<T, hp::NttError>, String>) -> Out {
    match r {
        Ok(Ok(_)) => Out::Ok,
        Ok(Err(e)) => Out::Err(format!("{e:?}")),
        Err(m) => Out::Panic(m),
    }
}
fn expect_err(run: &Run, key: &str, call: &str, o: Out, tally: &Mutex<BTreeMap<String, u64>>) {
    run.count("evaluations", 1);
    run.count("error_cases", 1);
    run.distinct(fnv(key.as_bytes()));
    match o {
        Out::Err(e) => {
            *tally.lock().unwrap().entry(e).or_insert(0) += 1;
        }
        Out::Ok => run.fail(key, &format!("{call} returned Ok(..) for an invalid size/capacity (must be Err)"), json!({"call": call})),
        Out::Panic(m) => run.fail(key, &format!("{call} panicked instead of returning Err: {m}"), json!({"call": call, "panic": m})),
    }
}
fn size_label(s: usize) -> String {
    if s == usize::MAX {
        return "usize::MAX".into();
    }
    if s >= 1024 {
        for k in 10..usize::BITS as usize {
            if s == 1usize << k {
                return format!("2^{k}");
            }
            if s == (1usize << k) - 1 {
                return format!("2^{k}-1");
            }
            if s == (1usize << k) + 1 {
                return format!("2^{k}+1");
            }
        }
    }
    s.to_string()
}

fn check_errors<F: KitField>(run: &Run, name: &str, ro: &Roots, deployed: bool, tally: &Mutex<BTreeMap<String, u64>>)
where
    F::Integer: IntConv,
{
    // Keys name the routine and the offending size/capacity, not the field: the code is generic, the
    // first field (in the fixed field order) that misbehaves is the one reported in the message.
    //
    // (outp_len, inp_len, size) triples; all must be Err for ntt / ntt_set_s / ntt_inv
    let mut cases: Vec<(usize, usize, usize)> = vec![(0, 0, 0), (4, 4, 0), (0, 4, 0), (1, 0, 0)];
    // not a power of two, with room in the output
    let kmax = if deployed { 20 } else { ro.maxl.min(12) };
    let mut npow: Vec<usize> = vec![3, 5, 6, 7, 12];
    for k in 2..=kmax {
        npow.push((1usize << k) - 1);
        npow.push((1usize << k) + 1);
    }
    npow.sort();
    npow.dedup();
    npow.retain(|s| (*s as u128) <= F::Integer::max_u128());
    for s in &npow {
        cases.push((*s, *s, *s));
        cases.push((s.next_power_of_two(), 4, *s));
    }
    // size > outp.len()
    for (o, s) in [(0usize, 1usize), (0, 2), (1, 2), (7, 8), (0, 8), (15, 16)] {
        if s <= 1 << ro.maxl {
            cases.push((o, s, s));
        }
    }
    if deployed {
        cases.push(((1 << 20) - 1, 4, 1 << 20));
        // larger than the supported maximum, too small an output
        for s in [1usize << 21, 1 << 22, (1 << 32) - 1, 1 << 32, 1 << 63, usize::MAX] {
            cases.push((16, 16, s));
        }
        // larger than the supported maximum with a large enough output; set_s needs the 2^21-th root
        // at size 2^20
        cases.push((1 << 21, 4, 1 << 21));
        cases.push((1 << 22, 4, 1 << 22));
        cases.push((1 << 22, 4, (1 << 21) + 1));
    }
    // one output buffer for all cases (sliced), so that the large capacities cost one allocation
    let cap = cases.iter().map(|c| c.0).max().unwrap();
    let mut buf = vec![F::zero(); cap];
    let inp_buf = vec![F::one(); cases.iter().map(|c| c.1).max().unwrap()];
    let routines: [&str; 3] = ["ntt", "ntt_set_s", "ntt_inv"];
    let mut run_case = |r: &str, ol: usize, il: usize, size: usize, key: String| {
        let out = &mut buf[..ol];
        let inp = &inp_buf[..il];
        let call = format!("{r}::<{name}>(outp.len()={}, inp.len()={il}, size={})", size_label(ol), size_label(size));
        let o = outcome(catch(|| match r {
            "ntt" => hp::ntt(out, inp, size),
            "ntt_set_s" => hp::ntt_set_s(out, inp, size),
            _ => hp::ntt_inv(out, inp, size),
        }));
        expect_err(run, &key, &call, o, tally);
    };
    for (ol, il, size) in cases {
        for r in routines {
            let key = if size > 0 && ol < size {
                format!("err/{r}/size={},outp={}", size_label(size), size_label(ol))
            } else {
                format!("err/{r}/size={}", size_label(size))
            };
            run_case(r, ol, il, size, key);
        }
    }
    if deployed {
        run_case("ntt_set_s", 1 << 20, 4, 1 << 20, "err/ntt_set_s/size=2^20".to_string());
    }
    // the wrappers that allocate their own output
    // (verification-only fields: only sizes representable in the field's 8/16-bit integer type, which
    // `ntt_inv` converts the size into; every size a deployed field can be asked for on a 32-bit or
    // smaller size fits its integer type)
    let mut gsizes: Vec<usize> = vec![0, 3, 5, 6, 7, 12, 1023, 1025];
    gsizes.retain(|s| (*s as u128) <= F::Integer::max_u128());
    if deployed {
        gsizes.extend([(1 << 20) + 1, 1 << 21]);
    }
    for size in gsizes {
        let inp = vec![F::one(); 4];
        let o = outcome(catch(|| hp::get_ntt(&inp, size)));
        expect_err(run, &format!("err/get_ntt/size={}", size_label(size)), &format!("get_ntt::<{name}>(inp.len()=4, size={})", size_label(size)), o, tally);
        let o = outcome(catch(|| hp::get_ntt_inv(&inp, size)));
        expect_err(run, &format!("err/get_ntt_inv/size={}", size_label(size)), &format!("get_ntt_inv::<{name}>(inp.len()=4, size={})", size_label(size)), o, tally);
    }
    // empty input at size 1 (every larger size zero-pads a short input): Ok([0]) or Err, not a panic
    for r in routines {
        let mut out = vec![F::one(); 1];
        let inp: Vec<F> = vec![];
        let res = catch(|| match r {
            "ntt" => hp::ntt(&mut out, &inp, 1),
            "ntt_set_s" => hp::ntt_set_s(&mut out, &inp, 1),
            _ => hp::ntt_inv(&mut out, &inp, 1),
        });
        run.count("evaluations", 1);
        run.count("error_cases", 1);
        let key = format!("err/{r}/empty-input,size=1");
        run.distinct(fnv(key.as_bytes()));
        let call = format!("{r}::<{name}>(outp.len()=1, inp = &[], size=1)");
        match res {
            Err(m) => run.fail(&key, &format!("{call} panicked ({m}); at every size >= 2 an empty or short input is zero-padded"), json!({"call": call, "panic": m})),
            Ok(Ok(())) => {
                if out[0].val() != 0 {
                    run.fail(&key, &format!("{call} = [{}], the empty polynomial evaluates to 0", out[0].val()), json!({"call": call}));
                }
            }
            Ok(Err(_)) => {}
        }
    }
    for (r, size) in [("get_ntt", 1usize), ("get_ntt_inv", 1)] {
        let inp: Vec<F> = vec![];
        let res = catch(|| if r == "get_ntt" { hp::get_ntt(&inp, size) } else { hp::get_ntt_inv(&inp, size) });
        run.count("evaluations", 1);
        run.count("error_cases", 1);
        let key = format!("err/{r}/empty-input,size=1");
        run.distinct(fnv(key.as_bytes()));
        let call = format!("{r}::<{name}>(inp = &[], size=1)");
        match res {
            Err(m) => run.fail(&key, &format!("{call} panicked ({m}); at every size >= 2 an empty or short input is zero-padded"), json!({"call": call, "panic": m})),
            Ok(Ok(v)) => {
                if v.len() != 1 || v[0].val() != 0 {
                    run.fail(&key, &format!("{call} = {:?}, the empty polynomial evaluates to 0", val_vec(&v)), json!({"call": call}));
                }
            }
            Ok(Err(_)) => {}
        }
    }
    // double_evaluations / poly_mul_lagrange report their length requirements as errors
    let mut de: Vec<(usize, usize)> = vec![(0, 0), (6, 3), (12, 6), (7, 4), (9, 4), (4, 4), (0, 4), (16, 4), (2, 2), (1, 1), (3, 1)];
    if deployed && (!run.quick() || ro.p >> 64 == 0) {
        de.push((1 << 21, 1 << 20)); // needs the 2^21-th root (runs a full 2^20 inverse transform first)
    }
    for (ol, el) in de {
        let out = &mut buf[..ol];
        let ev = vec![F::one(); el];
        let o = outcome(catch(|| hp::double_evaluations(out, &ev)));
        expect_err(run, &format!("err/double_evaluations/output={},evaluations={}", size_label(ol), size_label(el)), &format!("double_evaluations::<{name}>(output.len()={}, evaluations.len()={})", size_label(ol), size_label(el)), o, tally);
    }
    for (ol, el) in [(7usize, 4usize), (4, 4), (9, 4), (0, 2)] {
        let out = &mut buf[..ol];
        let a = vec![F::one(); el];
        let o = outcome(catch(|| hp::poly_mul_lagrange(out, &a, &a)));
        expect_err(run, &format!("err/poly_mul_lagrange/output={ol},len={el}"), &format!("poly_mul_lagrange::<{name}>(output.len()={ol}, p.len()=q.len()={el})"), o, tally);
    }
}

/// Verification-only small fields have fewer than 20 roots; what the routines do for a power-of-two
/// size whose root of unity does not exist in the field is recorded, not judged (no deployed field
/// can reach this: all of them have at least 2^20-th roots).
fn observe_beyond_roots<F: KitField>(run: &Run, name: &str, ro: &Roots, obs: &mut Map<String, Value>)
where
    F::Integer: IntConv,
{
    let top = 1usize << ro.maxl;
    let show = |o: Out| match o {
        Out::Ok => "Ok".to_string(),
        Out::Err(e) => format!("Err({e})"),
        Out::Panic(m) => format!("PANIC: {m}"),
    };
    let mut rec = |call: String, o: Out| {
        let s = show(o);
        obs.insert(call, json!(s));
        run.count("evaluations", 1);
    };
    for size in [2 * top, 4 * top] {
        let inp = vec![F::one(); 2];
        let mut out = vec![F::zero(); size];
        rec(format!("ntt::<{name}>(size={size})"), outcome(catch(|| hp::ntt(&mut out, &inp, size))));
        if size <= F::Integer::max_u128() as usize {
            rec(format!("ntt_inv::<{name}>(size={size})"), outcome(catch(|| hp::ntt_inv(&mut out, &inp, size))));
        }
        rec(format!("nth_root_powers::<{name}>({size})"), outcome(catch(|| Ok::<_, hp::NttError>(hp::nth_root_powers::<F>(size)))));
    }
    let inp = vec![F::one(); 2];
    let mut out = vec![F::zero(); top];
    rec(format!("ntt_set_s::<{name}>(size={top})"), outcome(catch(|| hp::ntt_set_s(&mut out, &inp, top))));
    let ev = vec![F::one(); top];
    let mut out = vec![F::zero(); 2 * top];
    rec(format!("double_evaluations::<{name}>(evaluations.len()={top})"), outcome(catch(|| hp::double_evaluations(&mut out, &ev))));
    if top * 2 > F::Integer::max_u128() as usize {
        let mut out = vec![F::zero(); 2 * top];
        rec(format!("ntt_inv::<{name}>(size={}) [size does not fit F::Integer]", 2 * top), outcome(catch(|| hp::ntt_inv(&mut out, &inp, 2 * top))));
    }
}

// ---------------------------------------------------------------------------------------------
struct Bounds {
    exhaustive_cap: u64, // all vectors while p^n <= cap
    basis_l: usize,
    direct_l: usize,
    large_l: usize,
    large_vecs: Vec<&'static str>,
    roots_l: usize,
    lag_l: usize,
    ext_l: usize,
    fin_l: usize,
}

fn check_field<F: KitField>(run: &Run, name: &str, deployed: bool, b: &Bounds, obs: &mut Map<String, Value>, tally: &Mutex<BTreeMap<String, u64>>, done: &mut Map<String, Value>)
where
    F::Integer: IntConv,
{
    let t0 = run.elapsed();
    let Some(ro) = roots_of::<F>(run, name, deployed) else {
        return;
    };
    let p = ro.p;
    let mut dead = Dead::default();
    let mut sect: Vec<(&str, f64)> = vec![];
    let mut tl = run.elapsed();
    let mut lap = |what: &'static str, sect: &mut Vec<(&str, f64)>| {
        let now = run.elapsed();
        sect.push((what, ((now - tl) * 100.0).round() / 100.0));
        tl = now;
    };
    // (A)
    let mut exh = vec![];
    for l in 0..=ro.maxl.min(3) {
        let n = 1usize << l;
        if p < (1 << 32) && pow_u64(p as u64, n).map(|t| t <= b.exhaustive_cap).unwrap_or(false) {
            check_exhaustive::<F>(run, name, &ro, l, &mut dead);
            exh.push(n);
        }
    }
    lap("A_all_vectors", &mut sect);
    // (B)
    let bl = ro.maxl.min(b.basis_l);
    for l in 0..=bl {
        check_basis::<F>(run, name, &ro, l, &mut dead);
    }
    lap("B_basis", &mut sect);
    // (C)
    for l in 0..=ro.maxl.min(b.direct_l) {
        check_vectors::<F>(run, name, &ro, l, &mut dead);
    }
    for l in 0..=bl {
        check_padding_roundtrip::<F>(run, name, &ro, l, &mut dead);
    }
    lap("C_vectors", &mut sect);
    // (D)
    let ll = ro.maxl.min(b.large_l);
    let mut large_ls: Vec<usize> = (bl + 1..=ll).collect();
    if b.large_l > 0 && ro.maxl == 20 && ll < 20 {
        large_ls.push(20); // the supported maximum, in every tier
    }
    for l in &large_ls {
        check_large::<F>(run, name, &ro, *l, &b.large_vecs, &mut dead);
    }
    lap("D_large", &mut sect);
    // (E)
    for l in 0..=ro.maxl.min(b.fin_l) {
        if !check_inv_finish::<F>(run, name, &ro, l) {
            break;
        }
    }
    let rl = ro.maxl.min(b.roots_l);
    for l in 0..=rl {
        if !check_root_powers::<F>(run, name, &ro, l) {
            break;
        }
    }
    lap("E_finish_rootpowers", &mut sect);
    // (F)
    let gl = ro.maxl.min(b.lag_l);
    for l in 0..=gl {
        check_lagrange::<F>(run, name, &ro, l, &mut dead);
    }
    lap("F_lagrange", &mut sect);
    // (G)
    let el = ro.maxl.min(b.ext_l);
    for l in 0..=el {
        check_extend::<F>(run, name, &ro, l, &mut dead);
    }
    lap("G_extend", &mut sect);
    // (H)
    check_errors::<F>(run, name, &ro, deployed, tally);
    if !deployed {
        observe_beyond_roots::<F>(run, name, &ro, obs);
    }
    lap("H_errors", &mut sect);
    done.insert(
        name.to_string(),
        json!({
            "p": p.to_string(), "log2_max_root_order": ro.maxl, "all_vectors_sizes": exh,
            "full_basis_up_to": 1u64 << bl, "structured_vector_sizes_log2": large_ls,
            "nth_root_powers_up_to": 1u64 << rl, "lagrange_n_up_to": 1u64 << gl, "extend_n_up_to": 1u64 << el,
            "wall_s": ((run.elapsed() - t0) * 100.0).round() / 100.0,
            "wall_s_by_section": sect.iter().map(|(k, v)| json!([k, v])).collect::<Vec<_>>(),
        }),
    );
}

// ---------------------------------------------------------------------------------------------
// poly_interpret_eval (public, used by Prio2): interpolate `points` given at the n-th roots of unity and
// evaluate at x, using a caller-supplied scratch buffer that may be LONGER than n and hold stale data.
fn interpret_eval_check<F>(run: &Run, fname: &str)
where
    F: pvh::kit::ints::KitField,
    F::Integer: pvh::kit::ints::IntConv,
{
    use pvh::kit::ints::{addmod, modpow, mulmod};
    let p = F::p();
    let mut st = run.seed ^ pvh::engine::fnv(fname.as_bytes());
    let mut rnd = || {
        let hi = pvh::engine::splitmix(&mut st) as u128;
        let lo = pvh::engine::splitmix(&mut st) as u128;
        ((hi << 64) | lo) % p
    };
    for l in 0..=4usize {
        let n = 1usize << l;
        let Some(root) = F::root(l) else { continue };
        let w = root.val();
        let nodes: Vec<u128> = (0..n).map(|i| modpow(w, i as u128, p)).collect();
        let mut point_sets: Vec<Vec<u128>> = (0..n).map(|k| (0..n).map(|i| (i == k) as u128).collect()).collect();
        point_sets.push(vec![1; n]);
        point_sets.push((0..n).map(|_| rnd()).collect());
        point_sets.push(vec![p - 1; n]);
        let mut xs: Vec<u128> = vec![0, 1, p - 1, 2 % p, rnd(), rnd()];
        xs.extend(nodes.iter().cloned());
        for (pi, pts) in point_sets.iter().enumerate() {
            for &x in &xs {
                // reference: sum_k y_k * prod_{j != k} (x - w^j) / (w^k - w^j)
                let mut want = 0u128;
                for k in 0..n {
                    let mut num = 1u128;
                    let mut den = 1u128;
                    for j in 0..n {
                        if j != k {
                            num = mulmod(num, addmod(x, p - nodes[j], p), p);
                            den = mulmod(den, addmod(nodes[k], p - nodes[j], p), p);
                        }
                    }
                    let term = mulmod(mulmod(pts[k], num, p), modpow(den, p - 2, p), p);
                    want = addmod(want, term, p);
                }
                let points: Vec<F> = pts.iter().map(|v| F::fe(*v)).collect();
                for (si, scratch_len) in [n, n + 1, n + 3, 2 * n, 4 * n].into_iter().enumerate() {
                    for junk in [0u128, 1, p - 1, 7 % p] {
                        let mut scratch = vec![F::fe(junk); scratch_len];
                        run.count("evaluations", 1);
                        run.count("interpret_eval_cases", 1);
                        let got = catch(|| hp::poly_interpret_eval(&points, F::fe(x), &mut scratch));
                        let ok = matches!(&got, Ok(g) if g.val() == want);
                        if !ok {
                            run.fail(&format!("interpret_eval/{fname}/n={n}/scratch={}", ["n", "n+1", "n+3", "2n", "4n"][si]), &format!("poly_interpret_eval::<{fname}> with {n} points (set #{pi}) at x={x}, scratch of {scratch_len} elements pre-filled with {junk}: got {:?}, interpolation gives {want}", got.map(|g| g.val())), json!({"field": fname, "n": n, "points": pts.iter().map(|v| v.to_string()).collect::<Vec<_>>(), "x": x.to_string(), "scratch_len": scratch_len, "junk": junk.to_string()}));
                            return;
                        }
                    }
                }
            }
        }
        run.distinct(pvh::engine::fnv(format!("interpret_eval/{fname}/{n}").as_bytes()));
    }
}

fn main() {
    let run = Run::from_args("C10", Level::Exploration);
    run.rule("ntt / ntt_set_s / ntt_inv / get_ntt(_inv): every input vector over GF(17) for sizes 1,2,4 (and over the other small fields while p^n <= cap), then for every field and every power-of-two size up to the basis bound every standard basis vector with every output entry compared against the table of powers of the (order-validated) principal root; all-ones / all-(p-1) / seeded / short inputs against direct Horner evaluation; sizes above the basis bound on {e0,e1,e_last,ones} against closed forms. Lagrange routines: every basis polynomial x every point in {all 2n-th roots (so every node), 0, +-1, +-2, 1/2, 3, 4 seeded} against the product formula, mixed batches, double_evaluations on the basis, poly_mul_lagrange on all basis pairs (n<=16); extend_values_to_power_of_2 for every num_values in [0,n] on the basis + structured + seeded vectors; size/capacity violations must be Err. distinct = distinct (field, size, input) cases");
    run.assume("the routines contain no data-dependent control flow, so agreement on a basis extends to all inputs by linearity; linearity itself is confirmed on every input vector over GF(17) for sizes 1, 2, 4");
    run.assume("verification-only small fields go through the same generic ntt/polynomial code as the deployed fields (field type is a type parameter)");
    run.assume("sizes above the full-basis bound (up to 2^20) are covered on four structured vectors only");
    if run.replay.is_some() {
        eprintln!("replay: re-running the deterministic sweep (cases are identified by key)");
    }
    let q = run.quick();
    let small = Bounds {
        exhaustive_cap: run.pick(100_000, 1_000_000),
        basis_l: run.pick(10, 13),
        direct_l: run.pick(8, 10),
        large_l: 0,
        large_vecs: vec![],
        roots_l: 20,
        lag_l: run.pick(6, 8),
        ext_l: run.pick(5, 7),
        fin_l: run.pick(10, 13),
    };
    let big = Bounds {
        exhaustive_cap: 0,
        basis_l: run.pick(10, 14),
        direct_l: run.pick(8, 10),
        large_l: run.pick(16, 20),
        large_vecs: if q { vec!["e1"] } else { vec!["e0", "e1", "e_last", "ones"] },
        roots_l: run.pick(16, 20),
        lag_l: run.pick(6, 8),
        ext_l: run.pick(5, 7),
        fin_l: run.pick(10, 13),
    };
    let mut obs = Map::new();
    let mut done = Map::new();
    let tally: Mutex<BTreeMap<String, u64>> = Mutex::new(BTreeMap::new());
    macro_rules! fld {
        ($t:ty, $dep:expr) => {
            check_field::<$t>(&run, stringify!($t), $dep, if $dep { &big } else { &small }, &mut obs, &tally, &mut done)
        };
    }
    fld!(FieldPrio2, true);
    fld!(Field64, true);
    fld!(Field128, true);
    fld!(FieldV17, false);
    fld!(FieldV97, false);
    fld!(FieldV193, false);
    fld!(FieldV257, false);
    fld!(FieldV12289, false);
    fld!(FieldS12289, false);
    if !q {
        fld!(FieldV241, false);
        fld!(FieldV769, false);
        fld!(FieldV7681, false);
        fld!(FieldV40961, false);
        fld!(FieldV61441, false);
        fld!(FieldS257, false);
        fld!(FieldS40961, false);
        fld!(FieldS61441, false);
    }

    run.sample(json!({"field": "FieldV17", "routine": "ntt", "size": 4, "input": [3, 0, 16, 5], "reference": "Horner at w^0..w^3, w = root(2)"}));
    run.sample(json!({"field": "Field128", "routine": "ntt_set_s", "size": 1024, "input": "e_513", "reference": "s^(513*(2i+1)), s = root(11)"}));
    run.sample(json!({"field": "Field64", "routine": "poly_eval_lagrange_batched", "n": 64, "polynomials": "[e_17]", "x": "node17 = w^17", "reference": "L_17(w^17) = 1"}));
    run.sample(json!({"field": "FieldPrio2", "routine": "extend_values_to_power_of_2", "len": 32, "num_values": 19, "input": "e_7 followed by 13 junk values", "reference": "degree<19 interpolant at w^19..w^31"}));
    run.sample(json!({"field": "FieldV97", "routine": "poly_mul_lagrange", "n": 16, "p": "e_3", "q": "e_12", "reference": "L_3(s^m) * L_12(s^m), m = 0..31"}));
    run.sample(json!({"field": "Field64", "routine": "ntt", "call": "ntt(outp.len()=8, inp.len()=7, size=7)", "reference": "must be Err"}));
    run.note("completed_bounds", Value::Object(done));
    let n_panic = obs.values().filter(|v| v.as_str().map(|s| s.starts_with("PANIC")).unwrap_or(false)).count();
    println!("OBSERVATION (not judged): {} calls on verification-only fields with a power-of-two size whose root of unity does not exist in the field; {} of them panicked (F::root(l).unwrap()); listed in the evidence file", obs.len(), n_panic);
    run.note("small_field_sizes_beyond_available_roots_observed_not_judged", Value::Object(obs));
    run.note("error_variants_seen", json!(tally.lock().unwrap().clone()));
    run.exhaustive(true);
    run.note("exhaustive_scope", json!("every input vector: GF(17) sizes 1,2,4; GF(97), GF(193), GF(257) sizes 1,2; GF(12289) size 1. Every basis vector x every output: all fields up to the stated full_basis bound. Above that bound and for the Lagrange routines: the listed structured/seeded inputs only"));
    interpret_eval_check::<FieldV17>(&run, "FieldV17");
    interpret_eval_check::<FieldV97>(&run, "FieldV97");
    interpret_eval_check::<FieldPrio2>(&run, "FieldPrio2");
    interpret_eval_check::<Field64>(&run, "Field64");
    interpret_eval_check::<Field128>(&run, "Field128");
    run.finish();
}
