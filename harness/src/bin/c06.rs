//! C06 — IDPF: shares reconstruct the programmed point function; caches are transparent.
//!
//! Engine: (1) bounded-exhaustive sweep: all inputs x all prefixes of all lengths x value types x
//! programmed values x key/ctx/nonce tapes; (2) explicit-state search over evaluation histories
//! sharing a cache (state = history; action = eval(prefix) for every prefix), for NoCache
//! (reference), HashMapCache, RingBufferCache(1..4) and an ADVERSARIAL cache whose every `get` on a
//! previously inserted key is a hit/miss choice point of the choice-tape explorer (this subsumes
//! every evicting or lossy cache). A recording wrapper checks on every insert that the stored
//! (seed, control bit) equals the node state of a from-root evaluation.
use bitvec::prelude::*;
use prio::codec::{Encode, ParameterizedDecode};
use prio::field::verif::FieldV17;
use prio::field::{Field255, Field64};
use prio::idpf::{HashMapCache, Idpf, IdpfCache, IdpfInput, IdpfOutputShare, IdpfPublicShare, IdpfValue, NoCache, RingBufferCache};
use prio::vdaf::poplar1::Poplar1IdpfValue;
use prio::vdaf::xof::Seed;
use prio::verif_hooks::idpf::gen_with_random;
use pvh::engine::choices::{explore, Chooser};
use pvh::engine::tape::{tape_alphabet, Tape};
use pvh::engine::{catch, fnv, par, Level, Run};
use pvh::kit::ints::KitField;
use serde_json::json;
use std::cell::RefCell;
use std::collections::HashMap;
use std::sync::atomic::{AtomicU64, Ordering};

fn bits_of(v: u64, n: usize) -> Vec<bool> {
    (0..n).map(|k| (v >> (n - 1 - k)) & 1 == 1).collect()
}

fn all_prefixes(bits: usize) -> Vec<Vec<bool>> {
    let mut v = vec![];
    for len in 1..=bits {
        for x in 0..(1u64 << len) {
            v.push(bits_of(x, len));
        }
    }
    v
}

/// A value type under test: how to make programmed values and a zero, and compare.
trait Val: IdpfValue<ValueParameter = ()> + Clone + PartialEq + std::fmt::Debug + Send + Sync {
    fn make(k: u64) -> Self;
    fn zero_v() -> Self;
    fn domain() -> Option<u64> {
        None
    }
}
impl Val for Field64 {
    fn make(k: u64) -> Self {
        [Field64::from(1), Field64::from(0), Field64::from(2), -Field64::from(1), Field64::from(k.wrapping_mul(0x9E3779B97F4A7C15) >> 1)][(k % 5) as usize]
    }
    fn zero_v() -> Self {
        Field64::from(0)
    }
}
impl Val for Field255 {
    fn make(k: u64) -> Self {
        [Field255::from(1), Field255::from(0), Field255::from(2), -Field255::from(1), Field255::from(k.wrapping_mul(0x9E3779B97F4A7C15))][(k % 5) as usize]
    }
    fn zero_v() -> Self {
        Field255::from(0)
    }
}
impl Val for FieldV17 {
    fn make(k: u64) -> Self {
        FieldV17::fe((k % 17) as u128)
    }
    fn zero_v() -> Self {
        FieldV17::fe(0)
    }
    fn domain() -> Option<u64> {
        Some(17)
    }
}
impl Val for Poplar1IdpfValue<Field64> {
    fn make(k: u64) -> Self {
        Poplar1IdpfValue::new([<Field64 as Val>::make(k), <Field64 as Val>::make(k / 5 + 3)])
    }
    fn zero_v() -> Self {
        Poplar1IdpfValue::new([Field64::from(0), Field64::from(0)])
    }
}
impl Val for Poplar1IdpfValue<Field255> {
    fn make(k: u64) -> Self {
        Poplar1IdpfValue::new([<Field255 as Val>::make(k), <Field255 as Val>::make(k / 5 + 3)])
    }
    fn zero_v() -> Self {
        Poplar1IdpfValue::new([Field255::from(0), Field255::from(0)])
    }
}

#[allow(clippy::type_complexity)]
fn gen<VI: Val, VL: Val>(input: &[bool], inner: &[VI], leaf: &VL, ctx: &[u8], nonce: &[u8], random: &[[u8; 16]; 2]) -> Result<(IdpfPublicShare<VI, VL>, [Seed<16>; 2]), String> {
    let idpf = Idpf::<VI, VL>::new((), ());
    match catch(|| gen_with_random(&idpf, &IdpfInput::from_bools(input), inner.to_vec(), leaf.clone(), ctx, nonce, random)) {
        Ok(Ok(x)) => Ok(x),
        Ok(Err(e)) => Err(format!("gen error: {e}")),
        Err(m) => Err(format!("gen panic: {m}")),
    }
}

/// An IdpfInput equal to `prefix` whose underlying storage starts `offset` bits into a word (built
/// through the public `From<BitBox>`): equal inputs must behave identically whatever their alignment.
fn unaligned_input(prefix: &[bool], offset: usize) -> IdpfInput {
    if offset == 0 {
        return IdpfInput::from_bools(prefix);
    }
    let mut bv: BitVec<usize, Lsb0> = BitVec::new();
    for i in 0..offset {
        bv.push(i % 2 == 0);
    }
    bv.extend(prefix.iter().copied());
    let bb: BitBox<usize, Lsb0> = BitBox::from_bitslice(&bv[offset..]);
    IdpfInput::from(bb)
}

fn eval<VI: Val, VL: Val>(agg: usize, ps: &IdpfPublicShare<VI, VL>, key: &Seed<16>, prefix: &[bool], ctx: &[u8], nonce: &[u8], cache: &mut dyn IdpfCache) -> Result<IdpfOutputShare<VI, VL>, String> {
    eval_at(agg, ps, key, &IdpfInput::from_bools(prefix), ctx, nonce, cache)
}

fn eval_at<VI: Val, VL: Val>(agg: usize, ps: &IdpfPublicShare<VI, VL>, key: &Seed<16>, prefix: &IdpfInput, ctx: &[u8], nonce: &[u8], cache: &mut dyn IdpfCache) -> Result<IdpfOutputShare<VI, VL>, String> {
    let idpf = Idpf::<VI, VL>::new((), ());
    match catch(|| idpf.eval(agg, ps, key, prefix, ctx, nonce, cache)) {
        Ok(Ok(x)) => Ok(x),
        Ok(Err(e)) => Err(format!("eval error: {e}")),
        Err(m) => Err(format!("eval panic: {m}")),
    }
}

/// (1) point-function correctness for one (value types, bits).
fn point_function<VI: Val, VL: Val>(run: &Run, tname: &str, bits: usize, tapes: &[(String, Tape)], all_values: bool)
where
    IdpfPublicShare<VI, VL>: Encode + ParameterizedDecode<usize> + PartialEq,
{
    let prefixes = all_prefixes(bits);
    // programmed value assignments: per level an index into make(); all combinations for finite domains
    let assignments: Vec<Vec<u64>> = if all_values && VI::domain().is_some() && bits <= 3 {
        let d = VI::domain().unwrap();
        let n = d.pow(bits as u32);
        (0..n).map(|i| (0..bits).map(|l| (i / d.pow(l as u32)) % d).collect()).collect()
    } else {
        (0..5u64).map(|a| (0..bits as u64).map(|l| a + l * 3).collect()).collect()
    };
    let items: Vec<(u64, usize, usize)> = (0..(1u64 << bits)).flat_map(|i| (0..tapes.len()).flat_map(move |t| (0..assignments_len(bits, all_values, VI::domain())).map(move |a| (i, t, a)))).collect();
    let evals = AtomicU64::new(0);
    par::for_each(items.len() as u64, |ix| {
        let (iv, ti, ai) = items[ix as usize];
        let input = bits_of(iv, bits);
        let (tn, tape) = &tapes[ti];
        let asg = &assignments[ai % assignments.len()];
        let inner: Vec<VI> = (0..bits - 1).map(|l| VI::make(asg[l])).collect();
        let leaf = VL::make(asg[bits - 1]);
        let ctx: Vec<u8> = tape.bytes(1, [0usize, 4, 40][ti % 3]);
        let nonce: Vec<u8> = tape.bytes(2, 16);
        let random = [tape.array::<16>(3 + iv), tape.array::<16>(4 + iv * 7)];
        let case = || json!({"values": tname, "bits": bits, "input": input, "tape": tn, "assignment": asg});
        let (ps, keys) = match gen::<VI, VL>(&input, &inner, &leaf, &ctx, &nonce, &random) {
            Ok(x) => x,
            Err(e) => {
                run.fail(&format!("pf/{tname}/bits={bits}/gen"), &format!("IDPF<{tname}> bits={bits}: {e}"), case());
                return;
            }
        };
        // public share through its wire encoding
        let enc = ps.get_encoded().unwrap();
        if ps.encoded_len() != Some(enc.len()) {
            run.fail(&format!("pf/{tname}/bits={bits}/public_share_len"), &format!("IDPF<{tname}> public share encoded_len {:?} != {}", ps.encoded_len(), enc.len()), case());
        }
        let ps2 = match IdpfPublicShare::<VI, VL>::get_decoded_with_param(&bits, &enc) {
            Ok(p) => p,
            Err(e) => {
                run.fail(&format!("pf/{tname}/bits={bits}/public_share_codec"), &format!("IDPF<{tname}> public share does not decode: {e}"), case());
                return;
            }
        };
        if ps2 != ps || ps2.get_encoded().unwrap() != enc {
            run.fail(&format!("pf/{tname}/bits={bits}/public_share_roundtrip"), &format!("IDPF<{tname}> public share round trip differs"), case());
        }
        for p in &prefixes {
            let mut shares = vec![];
            for a in 0..2 {
                match eval::<VI, VL>(a, &ps2, &keys[a], p, &ctx, &nonce, &mut NoCache::new()) {
                    Ok(s) => shares.push(s),
                    Err(e) => {
                        run.fail(&format!("pf/{tname}/bits={bits}/eval"), &format!("IDPF<{tname}> bits={bits}: {e} at prefix {:?}", p), case());
                        return;
                    }
                }
            }
            evals.fetch_add(2, Ordering::Relaxed);
            let s1 = shares.pop().unwrap();
            let s0 = shares.pop().unwrap();
            let on_path = input[..p.len()] == p[..];
            let level = p.len() - 1;
            let sum = match s0.merge(s1) {
                Ok(s) => s,
                Err(e) => {
                    run.fail(&format!("pf/{tname}/bits={bits}/merge"), &format!("IDPF<{tname}>: merging the two shares failed: {e}"), case());
                    return;
                }
            };
            let ok = match (&sum, level == bits - 1) {
                (IdpfOutputShare::Leaf(v), true) => *v == if on_path { leaf.clone() } else { VL::zero_v() },
                (IdpfOutputShare::Inner(v), false) => *v == if on_path { inner[level].clone() } else { VI::zero_v() },
                _ => false,
            };
            if !ok {
                run.fail(&format!("pf/{tname}/bits={bits}/{}", if on_path { "on_path_value" } else { "off_path_nonzero" }), &format!("IDPF<{tname}> bits={bits}: input {:?}, prefix {:?} ({}): shares add up to {:?}", input, p, if on_path { "on path" } else { "off path" }, sum), case());
                return;
            }
        }
        run.distinct(fnv(format!("pf/{tname}/{bits}/{iv}/{tn}/{ai}").as_bytes()));
    });
    run.count("evaluations", evals.load(Ordering::Relaxed));
    run.count("point_function_reports", items.len() as u64);
}

fn assignments_len(bits: usize, all_values: bool, dom: Option<u64>) -> usize {
    match dom {
        Some(d) if all_values && bits <= 3 => d.pow(bits as u32) as usize,
        _ => 5,
    }
}

/// Long inputs: along the path and all siblings.
fn long_inputs(run: &Run, bits: usize, tape: &Tape) {
    type VI = Poplar1IdpfValue<Field64>;
    type VL = Poplar1IdpfValue<Field255>;
    let input: Vec<bool> = (0..bits).map(|i| (i * i + 3 * i) % 7 < 3).collect();
    let inner: Vec<VI> = (0..bits - 1).map(|l| VI::make(l as u64)).collect();
    let leaf = VL::make(77);
    let ctx = b"long".to_vec();
    let nonce = tape.bytes(2, 16);
    let random = [tape.array::<16>(3), tape.array::<16>(4)];
    let (ps, keys) = match gen::<VI, VL>(&input, &inner, &leaf, &ctx, &nonce, &random) {
        Ok(x) => x,
        Err(e) => {
            run.fail(&format!("long/bits={bits}/gen"), &format!("IDPF bits={bits}: {e}"), json!({"bits": bits}));
            return;
        }
    };
    let mut caches: [HashMapCache; 2] = [HashMapCache::new(), HashMapCache::new()];
    let levels: Vec<usize> = if bits <= 400 { (0..bits).collect() } else { (0..bits).filter(|l| *l < 40 || *l % 97 == 0 || *l + 40 >= bits).collect() };
    for level in levels {
        for sibling in [false, true] {
            let mut p = input[..=level].to_vec();
            if sibling {
                p[level] = !p[level];
            }
            let mut shares = vec![];
            for a in 0..2 {
                // alternate cached / uncached evaluation
                let r = if level % 2 == 0 { eval::<VI, VL>(a, &ps, &keys[a], &p, &ctx, &nonce, &mut caches[a]) } else { eval::<VI, VL>(a, &ps, &keys[a], &p, &ctx, &nonce, &mut NoCache::new()) };
                match r {
                    Ok(s) => shares.push(s),
                    Err(e) => {
                        run.fail(&format!("long/bits={bits}/eval"), &format!("IDPF bits={bits} level {level}: {e}"), json!({"bits": bits, "level": level}));
                        return;
                    }
                }
            }
            run.count("evaluations", 2);
            let s1 = shares.pop().unwrap();
            let sum = shares.pop().unwrap().merge(s1).unwrap();
            let ok = match (&sum, level == bits - 1) {
                (IdpfOutputShare::Leaf(v), true) => *v == if sibling { VL::zero_v() } else { leaf },
                (IdpfOutputShare::Inner(v), false) => *v == if sibling { VI::zero_v() } else { inner[level] },
                _ => false,
            };
            if !ok {
                run.fail(&format!("long/bits={bits}/value"), &format!("IDPF bits={bits}: level {level} ({}) reconstructs {:?}", if sibling { "sibling" } else { "on path" }, sum), json!({"bits": bits, "level": level, "sibling": sibling}));
                return;
            }
        }
    }
    run.distinct(fnv(format!("long/{bits}").as_bytes()));
}

// ---------------------------------------------------------------------------------------------
// (2) cache transparency
type NodeState = ([u8; 16], u8);

/// Always misses; records what a from-root evaluation inserts (the true node states).
#[derive(Default)]
struct RecordingMiss {
    inserted: RefCell<HashMap<Vec<bool>, NodeState>>,
}
impl IdpfCache for RecordingMiss {
    fn get(&self, _: &BitSlice) -> Option<NodeState> {
        None
    }
    fn insert(&mut self, k: &BitSlice, v: &NodeState) {
        self.inserted.borrow_mut().insert(k.iter().by_vals().collect(), *v);
    }
}

/// Wraps a real cache; checks every insert against the true node state.
struct Checked<'a, C: IdpfCache> {
    inner: C,
    truth: &'a HashMap<Vec<bool>, NodeState>,
    bad: RefCell<Option<String>>,
    hits: RefCell<u64>,
}
impl<'a, C: IdpfCache> IdpfCache for Checked<'a, C> {
    fn get(&self, k: &BitSlice) -> Option<NodeState> {
        let r = self.inner.get(k);
        if let Some(v) = &r {
            *self.hits.borrow_mut() += 1;
            let key: Vec<bool> = k.iter().by_vals().collect();
            if self.truth.get(&key) != Some(v) {
                *self.bad.borrow_mut() = Some(format!("cache returned a node state for {:?} that differs from the from-root state", key));
            }
        }
        r
    }
    fn insert(&mut self, k: &BitSlice, v: &NodeState) {
        let key: Vec<bool> = k.iter().by_vals().collect();
        if self.truth.get(&key) != Some(v) {
            *self.bad.borrow_mut() = Some(format!("eval inserted a node state for {:?} that differs from the from-root state", key));
        }
        self.inner.insert(k, v);
    }
}

/// Adversarial cache: stores everything; every `get` on a present key is a choice point.
struct Adversarial<'a> {
    map: HashMap<Vec<bool>, NodeState>,
    ch: &'a RefCell<Chooser>,
    truth: &'a HashMap<Vec<bool>, NodeState>,
    bad: RefCell<Option<String>>,
}
impl<'a> IdpfCache for Adversarial<'a> {
    fn get(&self, k: &BitSlice) -> Option<NodeState> {
        let key: Vec<bool> = k.iter().by_vals().collect();
        match self.map.get(&key) {
            Some(v) => {
                // default answer (0) = hit; deviation = miss (entry lost / evicted)
                if self.ch.borrow_mut().flip() {
                    None
                } else {
                    Some(*v)
                }
            }
            None => None,
        }
    }
    fn insert(&mut self, k: &BitSlice, v: &NodeState) {
        let key: Vec<bool> = k.iter().by_vals().collect();
        if self.truth.get(&key) != Some(v) {
            *self.bad.borrow_mut() = Some(format!("eval inserted a node state for {:?} that differs from the from-root state", key));
        }
        self.map.insert(key, *v);
    }
}

fn cache_histories(run: &Run, bits: usize, depth: usize, n_inputs: usize, tape: &Tape, adv_depth: usize) {
    type VI = Poplar1IdpfValue<Field64>;
    type VL = Poplar1IdpfValue<Field255>;
    let prefixes = all_prefixes(bits);
    let np = prefixes.len();
    let items: Vec<(u64, usize)> = (0..n_inputs as u64).flat_map(|i| (0..2usize).map(move |a| (i, a))).collect();
    let states = AtomicU64::new(0);
    let transitions = AtomicU64::new(0);
    let adv_exec = AtomicU64::new(0);
    let hits = AtomicU64::new(0);
    par::for_each(items.len() as u64, |ix| {
        let (ii, agg) = items[ix as usize];
        let iv = (ii.wrapping_mul(0x9E3779B97F4A7C15) >> 7) % (1u64 << bits);
        let input = bits_of(iv, bits);
        let inner: Vec<VI> = (0..bits - 1).map(|l| VI::make(l as u64 + ii)).collect();
        let leaf = VL::make(9 + ii);
        let ctx = b"cache".to_vec();
        let nonce = tape.bytes(20 + ii, 16);
        let random = [tape.array::<16>(21 + ii), tape.array::<16>(22 + ii)];
        let (ps, keys) = gen::<VI, VL>(&input, &inner, &leaf, &ctx, &nonce, &random).unwrap();
        // reference results and true node states (from-root, no cache)
        let mut rec = RecordingMiss::default();
        let mut reference: Vec<IdpfOutputShare<VI, VL>> = vec![];
        for p in &prefixes {
            reference.push(eval::<VI, VL>(agg, &ps, &keys[agg], p, &ctx, &nonce, &mut rec).unwrap());
        }
        let truth = rec.inserted.into_inner();
        let case = |kind: &str, hist: &[usize]| json!({"bits": bits, "input": input, "aggregator": agg, "cache": kind, "history": hist.iter().map(|i| prefixes[*i].clone()).collect::<Vec<_>>()});
        // all histories of length <= depth (state = history), for each real cache kind
        let mut hist = vec![0usize; depth];
        let total = (np as u64).pow(depth as u32);
        for h in 0..total {
            let mut k = h;
            for d in 0..depth {
                hist[d] = (k % np as u64) as usize;
                k /= np as u64;
            }
            macro_rules! run_hist {
                ($kind:expr, $cache:expr) => {{
                    let mut c = Checked { inner: $cache, truth: &truth, bad: RefCell::new(None), hits: RefCell::new(0) };
                    for (step, pi) in hist.iter().enumerate() {
                        // equal prefixes with different storage alignment (offsets 0,3,5,62,...) share the cache
                        let offset = [0usize, 3, 0, 5, 62, 1][(step + h as usize) % 6];
                        let r = eval_at::<VI, VL>(agg, &ps, &keys[agg], &unaligned_input(&prefixes[*pi], offset), &ctx, &nonce, &mut c);
                        transitions.fetch_add(1, Ordering::Relaxed);
                        let ok = matches!(&r, Ok(o) if *o == reference[*pi]);
                        if !ok {
                            run.fail(&format!("cache/{}/bits={bits}/result_differs", $kind.split('(').next().unwrap()), &format!("IDPF eval with {} differs from the uncached result at step {step} of history {:?}: {:?}", $kind, hist.iter().map(|i| &prefixes[*i]).collect::<Vec<_>>(), r.as_ref().map(|_| "different value").map_err(|e| e.clone())), case($kind, &hist));
                            return;
                        }
                        if let Some(b) = c.bad.borrow().clone() {
                            run.fail(&format!("cache/{}/bits={bits}/stored_state", $kind.split('(').next().unwrap()), &format!("{} ({}): {b}", $kind, "history checked"), case($kind, &hist));
                            return;
                        }
                    }
                    hits.fetch_add(*c.hits.borrow(), Ordering::Relaxed);
                    states.fetch_add(1, Ordering::Relaxed);
                }};
            }
            run_hist!("HashMapCache", HashMapCache::new());
            for cap in 1..=4usize {
                run_hist!(&format!("RingBufferCache({cap})"), RingBufferCache::new(cap));
            }
        }
        // adversarial cache: histories of length adv_depth, every hit/miss pattern
        let total = (np as u64).pow(adv_depth as u32);
        for h in 0..total {
            let mut hist = vec![];
            let mut k = h;
            for _ in 0..adv_depth {
                hist.push((k % np as u64) as usize);
                k /= np as u64;
            }
            let mut failed: Option<String> = None;
            let st = explore(u32::MAX, 100_000, |ch| {
                let cell = RefCell::new(std::mem::take(ch));
                {
                    let mut c = Adversarial { map: HashMap::new(), ch: &cell, truth: &truth, bad: RefCell::new(None) };
                    for pi in &hist {
                        let r = eval::<VI, VL>(agg, &ps, &keys[agg], &prefixes[*pi], &ctx, &nonce, &mut c);
                        let ok = matches!(&r, Ok(o) if *o == reference[*pi]);
                        if !ok && failed.is_none() {
                            failed = Some(format!("result differs from the uncached one at prefix {:?} (hit/miss pattern {:?})", prefixes[*pi], cell.borrow().taken));
                        }
                        if let Some(b) = c.bad.borrow().clone() {
                            failed.get_or_insert(b);
                        }
                    }
                }
                *ch = cell.into_inner();
            });
            adv_exec.fetch_add(st.executions, Ordering::Relaxed);
            if let Some(f) = failed {
                run.fail(&format!("cache/adversarial/bits={bits}"), &format!("IDPF eval with a lossy cache: {f}; history {:?}", hist.iter().map(|i| &prefixes[*i]).collect::<Vec<_>>()), case("adversarial", &hist));
                return;
            }
        }
        run.distinct(fnv(format!("cache/{bits}/{ii}/{agg}").as_bytes()));
    });
    run.count("states", states.load(Ordering::Relaxed) + adv_exec.load(Ordering::Relaxed));
    run.count("transitions", transitions.load(Ordering::Relaxed) + adv_exec.load(Ordering::Relaxed) * adv_depth as u64);
    run.count("evaluations", transitions.load(Ordering::Relaxed) + adv_exec.load(Ordering::Relaxed) * adv_depth as u64);
    run.count("adversarial_cache_schedules", adv_exec.load(Ordering::Relaxed));
    run.count("cache_hits_observed", hits.load(Ordering::Relaxed));
    run.sample(json!({"cache_histories": {"bits": bits, "prefixes": np, "history_len": depth, "adversarial_history_len": adv_depth, "inputs": n_inputs, "caches": ["HashMapCache", "RingBufferCache(1..4)", "adversarial(hit/miss choice per get)"]}}));
}

/// (3) Object-reuse histories. The library documents `Idpf` as a stateless description of the value
/// types, but it is an object that applications keep for a long time (one per aggregator process).
/// Every history of `len` sessions drawn from {ctx A, ctx B} x {nonce N1, N2} x {input X, Y} is run on
/// ONE long-lived `Idpf` object per party (client, aggregator 0, aggregator 1) — gen on the client's
/// object, then evals of every prefix on the aggregators' objects — and every public share, key and
/// output share is compared with what FRESH objects produce for that session alone (state reached
/// through a history vs. state reached from the initial state).
fn reuse_histories<VI: Val, VL: Val>(run: &Run, tname: &str, bits: usize, len: usize, tape: &Tape) {
    let sessions: Vec<(Vec<u8>, Vec<u8>, Vec<bool>)> = {
        let mut v = vec![];
        for c in 0..2u8 {
            for n in 0..2u8 {
                for x in 0..2u8 {
                    let ctx: Vec<u8> = if c == 0 { b"application A".to_vec() } else { b"application B".to_vec() };
                    let nonce: Vec<u8> = tape.bytes(40 + n as u64, 16);
                    let input: Vec<bool> = (0..bits).map(|i| (i as u8 + x) % 2 == 0).collect();
                    v.push((ctx, nonce, input));
                }
            }
        }
        // two sessions whose context and (variable-length) nonce differ but whose concatenation is the same:
        // anything keyed by ctx || nonce without framing confuses them
        let r = tape.bytes(44, 13);
        let input: Vec<bool> = (0..bits).map(|i| i % 2 == 0).collect();
        v.push((b"app".to_vec(), [b"-v2".to_vec(), r.clone()].concat(), input.clone()));
        v.push((b"app-v2".to_vec(), r, input));
        v
    };
    let random: [[u8; 16]; 2] = [tape.array(50), tape.array(51)];
    let prefixes: Vec<Vec<bool>> = (1..=bits).flat_map(|l| (0..(1u32 << l)).map(move |v| (0..l).map(|k| (v >> (l - 1 - k)) & 1 == 1).collect::<Vec<bool>>())).collect();
    let inner: Vec<VI> = (0..bits - 1).map(|l| VI::make(7 + l as u64)).collect();
    let leaf = VL::make(99);
    // reference: fresh objects, one session at a time
    #[allow(clippy::type_complexity)]
    let fresh: Vec<(Vec<u8>, [Seed<16>; 2], Vec<[Vec<u8>; 2]>)> = sessions
        .iter()
        .map(|(ctx, nonce, input)| {
            let (ps, keys) = gen::<VI, VL>(input, &inner, &leaf, ctx, nonce, &random).expect("fresh gen");
            let outs = prefixes.iter().map(|p| [0usize, 1].map(|a| enc_out(&eval::<VI, VL>(a, &ps, &keys[a], p, ctx, nonce, &mut NoCache::new()).expect("fresh eval")))).collect();
            (ps.get_encoded().unwrap(), keys, outs)
        })
        .collect();
    let ns = sessions.len();
    let total = (ns as u64).pow(len as u32);
    par::for_each(total, |hix| {
        let mut h = vec![];
        let mut x = hix;
        for _ in 0..len {
            h.push((x % ns as u64) as usize);
            x /= ns as u64;
        }
        let client = Idpf::<VI, VL>::new((), ());
        let aggs = [Idpf::<VI, VL>::new((), ()), Idpf::<VI, VL>::new((), ())];
        for (step, &si) in h.iter().enumerate() {
            let (ctx, nonce, input) = &sessions[si];
            run.count("transitions", 1);
            run.count("evaluations", 1);
            let key = format!("reuse/{tname}/bits={bits}");
            let case = || json!({"part": "reuse", "types": tname, "bits": bits, "history": h, "step": step});
            let (ps, keys) = match catch(|| gen_with_random(&client, &IdpfInput::from_bools(input), inner.clone(), leaf.clone(), ctx, nonce, &random)) {
                Ok(Ok(x)) => x,
                other => {
                    run.fail(&format!("{key}/gen"), &format!("Idpf<{tname}>(bits={bits}): gen on a long-lived object failed at step {step} of session history {:?}: {:?}", h, other.map(|r| r.map(|_| ()).map_err(|e| e.to_string()))), case());
                    return;
                }
            };
            if ps.get_encoded().unwrap() != fresh[si].0 || keys != fresh[si].1 {
                run.fail(&format!("{key}/gen_differs"), &format!("Idpf<{tname}>(bits={bits}): keys/public share generated by a long-lived Idpf object at step {step} of session history {:?} differ from those of a fresh object", h), case());
                return;
            }
            for (pi, p) in prefixes.iter().enumerate() {
                for a in 0..2 {
                    let r = match catch(|| aggs[a].eval(a, &ps, &keys[a], &IdpfInput::from_bools(p), ctx, nonce, &mut NoCache::new())) {
                        Ok(Ok(x)) => enc_out(&x),
                        other => {
                            run.fail(&format!("{key}/eval"), &format!("Idpf<{tname}>(bits={bits}): eval on a long-lived object failed at step {step} of session history {:?}: {:?}", h, other.map(|r| r.map(|_| ()).map_err(|e| e.to_string()))), case());
                            return;
                        }
                    };
                    if r != fresh[si].2[pi][a] {
                        run.fail(&format!("{key}/eval_differs"), &format!("Idpf<{tname}>(bits={bits}): aggregator {a}'s evaluation of prefix {:?} on a long-lived Idpf object at step {step} of session history {:?} (sessions = ctx x nonce x input) differs from a fresh object's", p, h), case());
                        return;
                    }
                }
            }
        }
        run.count("states", 1);
    });
    run.distinct(fnv(format!("reuse/{tname}/{bits}/{len}").as_bytes()));
}

fn enc_out<VI: Val, VL: Val>(o: &IdpfOutputShare<VI, VL>) -> Vec<u8> {
    match o {
        IdpfOutputShare::Inner(v) => {
            let mut b = vec![0u8];
            v.encode(&mut b).unwrap();
            b
        }
        IdpfOutputShare::Leaf(v) => {
            let mut b = vec![1u8];
            v.encode(&mut b).unwrap();
            b
        }
    }
}

fn main() {
    let run = Run::from_args("C06", Level::ModelChecking);
    run.rule("(1) all inputs x all prefixes of all lengths for bits<=4 (thorough 5) x value types {Poplar1IdpfValue<Field64>/<Field255>, Field64/Field255, FieldV17 with EVERY programmed value for bits<=3} x tapes, public share through its codec; long inputs (320, 4096 bits) on-path and siblings; (2) states = evaluation histories sharing one cache (all prefix sequences of length <=3, thorough 4 for bits 2), caches HashMapCache, RingBufferCache(1..4), adversarial cache with a hit/miss choice at every get on a present key (all patterns); invariant: every result equals the uncached one and every inserted/returned node state equals the from-root state. (3) object-reuse histories: every sequence of 3 (thorough 4) sessions from {2 ctx} x {2 nonces} x {2 inputs} on one long-lived Idpf object per party vs fresh objects per session (keys, public share and every prefix evaluation byte-identical). distinct = (value type, bits, input, tape, assignment) reports and (bits, input, aggregator) cache subjects");
    let q = run.quick();
    let tapes = tape_alphabet(run.seed, if q { 1 } else { 5 });
    for bits in 1..=if q { 4 } else { 5 } {
        point_function::<Poplar1IdpfValue<Field64>, Poplar1IdpfValue<Field255>>(&run, "Poplar1IdpfValue", bits, &tapes, false);
        point_function::<Field64, Field255>(&run, "Field64/Field255", bits, &tapes[..2], false);
        if bits <= 3 {
            point_function::<FieldV17, FieldV17>(&run, "FieldV17", bits, &tapes[..if q { 1 } else { 3 }], true);
        } else {
            point_function::<FieldV17, FieldV17>(&run, "FieldV17", bits, &tapes[..1], false);
        }
        if bits >= 2 {
            point_function::<Field255, Field64>(&run, "Field255/Field64", bits, &tapes[..1], false);
        }
    }
    eprintln!("[{:.1}s] point function", run.elapsed());
    let long: Vec<usize> = if q { vec![64, 320] } else { vec![64, 65, 320, 4096] };
    par::for_each(long.len() as u64, |i| long_inputs(&run, long[i as usize], &tapes[3.min(tapes.len() - 1)].1));
    eprintln!("[{:.1}s] long", run.elapsed());
    cache_histories(&run, 2, if q { 4 } else { 5 }, 4, &tapes[2].1, if q { 3 } else { 4 });
    cache_histories(&run, 3, if q { 3 } else { 4 }, if q { 4 } else { 8 }, &tapes[2].1, if q { 2 } else { 3 });
    cache_histories(&run, 4, if q { 2 } else { 3 }, if q { 4 } else { 8 }, &tapes[2].1, 2);
    if !q {
        cache_histories(&run, 5, 2, 4, &tapes[2].1, 2);
    }
    eprintln!("[{:.1}s] caches", run.elapsed());
    // (3) long-lived objects: all session histories of length 3 (thorough 4) over 8 sessions
    let hl = if q { 3 } else { 4 };
    reuse_histories::<Poplar1IdpfValue<Field64>, Poplar1IdpfValue<Field255>>(&run, "Poplar1IdpfValue", 2, hl, &tapes[0].1);
    reuse_histories::<Poplar1IdpfValue<Field64>, Poplar1IdpfValue<Field255>>(&run, "Poplar1IdpfValue", 3, 2, &tapes[0].1);
    reuse_histories::<Field64, Field255>(&run, "Field64/Field255", 2, 2, &tapes[0].1);
    eprintln!("[{:.1}s] object reuse", run.elapsed());
    run.exhaustive(true);
    run.finish();
}
