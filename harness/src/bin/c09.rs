//! C09 — field elements behave exactly as integers modulo the field prime.
//!
//! Engine: bounded-exhaustive sweep. (A) the generic single-/split-word arithmetic instantiated at
//! 8/16-bit words: every operand pair / every raw word, against plain integer arithmetic;
//! (B) the `make_field!` public API over the small fields: every element, every byte string;
//! (C) the deployed fields: limb-boundary lattice (all pairs) against a BigUint reference;
//! (D) Field255 lattice.
use num_bigint::BigUint;
use num_traits::{One, ToPrimitive, Zero};
use prio::codec::{Decode, Encode};
use prio::field::{
    verif::*, Field128, Field255, Field64, FieldElement, FieldElementWithInteger, FieldPrio2,
    NttFriendlyFieldElement,
};
use prio::verif_hooks::fp::*;
use pvh::engine::{catch, fnv, par, splitmix, Level, Run};
use serde_json::json;
use std::collections::hash_map::DefaultHasher;
use std::hash::{Hash, Hasher};
#[allow(unused_imports)]
use subtle::{Choice, ConditionallyNegatable, ConditionallySelectable, ConstantTimeEq};

// ---------------------------------------------------------------------------------------------
// reference arithmetic (plain integers)
fn modpow(mut b: u128, mut e: u128, p: u128) -> u128 {
    // p < 2^64 here
    let mut r = 1u128 % p;
    b %= p;
    while e > 0 {
        if e & 1 == 1 {
            r = r * b % p;
        }
        b = b * b % p;
        e >>= 1;
    }
    r
}
fn modinv(a: u128, p: u128) -> u128 {
    // extended Euclid over signed integers (independent of Fermat, which the code under test uses)
    let (mut r0, mut r1) = (p as i128, (a % p) as i128);
    let (mut t0, mut t1) = (0i128, 1i128);
    while r1 != 0 {
        let q = r0 / r1;
        (r0, r1) = (r1, r0 - q * r1);
        (t0, t1) = (t1, t0 - q * t1);
    }
    assert_eq!(r0, 1);
    t0.rem_euclid(p as i128) as u128
}

trait W: Copy + Eq + std::fmt::Debug + Send + Sync + 'static {
    const BITS: u32;
    fn to(self) -> u128;
    fn from(x: u128) -> Self;
}
macro_rules! impl_w {
    ($($t:ty),*) => {$(impl W for $t {
        const BITS: u32 = <$t>::BITS;
        fn to(self) -> u128 { self as u128 }
        fn from(x: u128) -> Self { x as $t }
    })*};
}
impl_w!(u8, u16, u32, u64, u128);

fn key(ops_name: &str, what: &str) -> String {
    format!("raw/{ops_name}/{what}")
}

/// Constants of a parameter set against their definitions.
fn check_constants<T: W>(run: &Run, o: &RawFieldOps<T>) {
    let p = BigUint::from(o.prime.to());
    let base = BigUint::one() << o.log2_base;
    let radix = BigUint::one() << o.log2_radix;
    let mut bad = vec![];
    if (BigUint::from(o.mu.to()) * &p + BigUint::one()) % &base != BigUint::zero() {
        bad.push("MU*p != -1 mod 2^LOG2_BASE");
    }
    let r = &radix % &p;
    if BigUint::from(o.r2.to()) != (&r * &r) % &p {
        bad.push("R2 != R^2 mod p");
    }
    let bitlen = p.bits();
    if BigUint::from(o.bit_mask.to()) != (BigUint::one() << bitlen) - BigUint::one() {
        bad.push("BIT_MASK != 2^bitlen-1");
    }
    let res = |x: T| BigUint::from((o.residue)(x).to());
    if res(o.roots[0]) != BigUint::one() {
        bad.push("ROOTS[0] != 1");
    }
    if (res(o.half) * BigUint::from(2u8)) % &p != BigUint::one() {
        bad.push("HALF*2 != 1");
    }
    // 2-adicity
    let pm1 = &p - BigUint::one();
    let v2 = pm1.trailing_zeros().unwrap() as usize;
    if o.num_roots > v2 {
        bad.push("NUM_ROOTS exceeds 2-adicity of p-1");
    }
    let g = res(o.g);
    if g.modpow(&(BigUint::one() << o.num_roots), &p) != BigUint::one()
        || (o.num_roots > 0 && g.modpow(&(BigUint::one() << (o.num_roots - 1)), &p) != pm1)
    {
        bad.push("G does not have order exactly 2^NUM_ROOTS");
    }
    for l in 0..=o.num_roots.min(20) {
        let w = res(o.roots[l]);
        let ok = w.modpow(&(BigUint::one() << l), &p) == BigUint::one()
            && (l == 0 || w.modpow(&(BigUint::one() << (l - 1)), &p) == pm1);
        // and consistent with G: ROOTS[l] = G^(2^(NUM_ROOTS-l))
        let ok2 = g.modpow(&(BigUint::one() << (o.num_roots - l)), &p) == w;
        if !ok || !ok2 {
            bad.push("ROOTS[l] not the principal 2^l-th root derived from G");
        }
        run.count("evaluations", 1);
    }
    for b in bad {
        run.fail(&key(o.name, &format!("const/{b}")), &format!("{}: field constant wrong: {b}", o.name), json!({"ops": o.name}));
    }
    run.distinct(fnv(format!("const/{}", o.name).as_bytes()));
}

/// Exhaustive check of the raw ops of a ≤16-bit parameter set. `full` = all pairs; else the
/// boundary rows × all columns.
fn check_raw_small<T: W>(run: &Run, o: &RawFieldOps<T>, full: bool) {
    let p = o.prime.to();
    let r = (1u128 << o.log2_radix) % p;
    let rinv = modinv(r, p);
    let wmax = 1u128 << T::BITS;
    // montgomery on every raw word (values >= p are legal inputs of From<int>)
    let mut mont = vec![0u128; p as usize];
    for x in 0..wmax {
        let got = (o.montgomery)(T::from(x)).to();
        let want = (x % p) * r % p;
        if got != want {
            run.fail(&key(o.name, "montgomery"), &format!("{}: montgomery({x}) = {got}, expected {want}", o.name), json!({"ops": o.name, "op": "montgomery", "x": x.to_string()}));
            return;
        }
        if x < p {
            mont[x as usize] = got;
        }
    }
    run.count("evaluations", wmax as u64);
    // residue on every reduced word
    for a in 0..p {
        let got = (o.residue)(T::from(a)).to();
        let want = a * rinv % p;
        if got != want {
            run.fail(&key(o.name, "residue"), &format!("{}: residue({a}) = {got}, expected {want}", o.name), json!({"ops": o.name, "op": "residue", "x": a.to_string()}));
            return;
        }
        // neg, inv
        let n = (o.neg)(T::from(a)).to();
        if n != (p - a) % p {
            run.fail(&key(o.name, "neg"), &format!("{}: neg({a}) = {n}", o.name), json!({"ops": o.name, "op": "neg", "x": a.to_string()}));
        }
        if a != 0 {
            let i = (o.inv)(T::from(a)).to();
            // a = x*R ; inverse of x in Montgomery form = x^-1 * R = a^-1 * R^2
            let want = modinv(a, p) * r % p * r % p;
            if i != want {
                run.fail(&key(o.name, "inv"), &format!("{}: inv({a}) = {i}, expected {want}", o.name), json!({"ops": o.name, "op": "inv", "x": a.to_string()}));
            }
        }
    }
    run.count("evaluations", 3 * p as u64);
    // rows
    let rows: Vec<u128> = if full {
        (0..p).collect()
    } else {
        let mut v = vec![0, 1, 2, 3, p - 1, p - 2, p - 3, p / 2, p / 2 + 1, r, (p - r) % p];
        let h = T::BITS / 2;
        for k in 0..T::BITS {
            for d in [-1i128, 0, 1] {
                let x = (1i128 << k) + d;
                if x >= 0 && (x as u128) < p {
                    v.push(x as u128);
                }
                let y = p as i128 - (1i128 << k) + d;
                if y >= 0 && (y as u128) < p {
                    v.push(y as u128);
                }
            }
        }
        for a in [0u128, 1, (1 << h) - 1, (1 << h) - 2, p >> h, (p >> h).saturating_sub(1)] {
            for b in [0u128, 1, (1 << h) - 1, (1 << h) - 2, p & ((1 << h) - 1)] {
                let x = (a << h) | b;
                if x < p {
                    v.push(x);
                }
            }
        }
        v.sort();
        v.dedup();
        v
    };
    let nrows = rows.len() as u64;
    let fails = par::fold(
        nrows,
        1,
        || None::<(String, u128, u128, u128, u128)>,
        |acc, i| {
            if acc.is_some() {
                return;
            }
            let a = rows[i as usize];
            let ta = T::from(a);
            for b in 0..p {
                let tb = T::from(b);
                let s = (o.add)(ta, tb).to();
                let ws = (a + b) % p;
                if s != ws {
                    *acc = Some(("add".into(), a, b, s, ws));
                    return;
                }
                let d = (o.sub)(ta, tb).to();
                let wd = (a + p - b) % p;
                if d != wd {
                    *acc = Some(("sub".into(), a, b, d, wd));
                    return;
                }
                let m = (o.mul)(ta, tb).to();
                let wm = a * b % p * rinv % p;
                if m != wm {
                    *acc = Some(("mul".into(), a, b, m, wm));
                    return;
                }
                // commutativity through the other argument order (also covers columns as rows)
                let m2 = (o.mul)(tb, ta).to();
                if m2 != wm {
                    *acc = Some(("mul".into(), b, a, m2, wm));
                    return;
                }
            }
        },
    );
    run.count("evaluations", 4 * nrows * p as u64);
    for f in fails.into_iter().flatten() {
        let (op, a, b, got, want) = f;
        run.fail(&key(o.name, &op), &format!("{}: {op}({a},{b}) = {got}, expected {want} (Montgomery domain)", o.name), json!({"ops": o.name, "op": op, "x": a.to_string(), "y": b.to_string()}));
    }
    // pow: boundary bases × every exponent word (u8: all bases)
    let bases: Vec<u128> = if p <= 256 { (0..p).collect() } else { vec![0, 1, 2, 3, p - 1, p - 2, r, mont[2], mont[(p - 1) as usize], mont[(p / 2) as usize]] };
    for &a in &bases {
        let x = a * rinv % p;
        let mut acc = 1u128 % p; // x^0
        for e in 0..wmax {
            let got = (o.pow)(T::from(a), T::from(e)).to();
            let want = acc * r % p;
            if got != want {
                run.fail(&key(o.name, "pow"), &format!("{}: pow({a},{e}) = {got}, expected {want}", o.name), json!({"ops": o.name, "op": "pow", "x": a.to_string(), "y": e.to_string()}));
                return;
            }
            acc = acc * x % p;
        }
        debug_assert_eq!(modpow(x, 5, p), x * x % p * x % p * x % p * x % p);
    }
    run.count("evaluations", bases.len() as u64 * wmax as u64);
    run.distinct(fnv(format!("raw/{}/{}", o.name, full).as_bytes()));
}

// ---------------------------------------------------------------------------------------------
// lattice for large words
fn lattice(p: &BigUint, wbits: u32, extra_seeded: usize, seed: u64, coarse: bool) -> Vec<BigUint> {
    let one = BigUint::one();
    let mut v: Vec<BigUint> = vec![];
    for k in 0u32..6 {
        v.push(BigUint::from(k));
        v.push(p - BigUint::from(k + 1));
    }
    let step = if coarse { 4 } else { 1 };
    let mut k = 0;
    while k < wbits {
        let t = &one << k;
        for x in [&t - &one, t.clone(), &t + &one] {
            if &x < p {
                v.push(x.clone());
            }
            if &x <= p && !x.is_zero() {
                v.push(p - &x); // p - 2^k ∓ 1
            }
        }
        k += if k % 32 <= 1 || k % 32 >= 30 { 1 } else { step };
    }
    let h = wbits / 2;
    let hm = (&one << h) - &one;
    let halfs: Vec<BigUint> = vec![BigUint::zero(), one.clone(), hm.clone(), &hm - &one, &one << (h - 1), (&one << (h - 1)) - &one, p >> h, (p >> h) - &one, p & &hm];
    for a in &halfs {
        for b in &halfs {
            let x = (a << h) | (b & &hm);
            if &x < p {
                v.push(x);
            }
        }
    }
    v.push(p >> 1u32);
    v.push((p >> 1u32) + &one);
    let mut st = seed;
    for _ in 0..extra_seeded {
        let mut x = BigUint::zero();
        for _ in 0..(wbits + 63) / 64 {
            x = (x << 64u32) | BigUint::from(splitmix(&mut st));
        }
        v.push(x % p);
    }
    v.sort();
    v.dedup();
    v
}

fn big_to_word<T: W>(x: &BigUint) -> T {
    T::from(x.to_u128().unwrap())
}

fn check_raw_big<T: W>(run: &Run, o: &RawFieldOps<T>) {
    check_constants(run, o);
    let p = BigUint::from(o.prime.to());
    let r = (BigUint::one() << o.log2_radix) % &p;
    let rinv = r.modpow(&(&p - BigUint::from(2u8)), &p);
    let lat = lattice(&p, T::BITS, run.pick(8, 64), run.seed, run.quick() && T::BITS > 64);
    let n = lat.len() as u64;
    run.note(&format!("lattice_{}", o.name), json!(n));
    // montgomery of raw words incl. >= p
    let wmax = BigUint::one() << T::BITS;
    let mut raws = lat.clone();
    for k in 0u32..4 {
        raws.push(&p + BigUint::from(k));
        raws.push(&wmax - BigUint::from(k + 1));
        raws.push(BigUint::from(o.bit_mask.to()) - BigUint::from(k));
    }
    for x in &raws {
        if x >= &wmax {
            continue;
        }
        let got = BigUint::from((o.montgomery)(big_to_word::<T>(x)).to());
        let want = (x % &p) * &r % &p;
        run.count("evaluations", 1);
        if got != want {
            run.fail(&key(o.name, "montgomery"), &format!("{}: montgomery({x}) = {got}, expected {want}", o.name), json!({"ops": o.name, "op": "montgomery", "x": x.to_string()}));
        }
    }
    let fails = par::fold(
        n,
        1,
        Vec::<(String, String, String, String, String)>::new,
        |acc, i| {
            if !acc.is_empty() {
                return;
            }
            let a = &lat[i as usize];
            let ta: T = big_to_word(a);
            let res = BigUint::from((o.residue)(ta).to());
            if res != a * &rinv % &p {
                acc.push(("residue".into(), a.to_string(), "".into(), res.to_string(), (a * &rinv % &p).to_string()));
            }
            let ng = BigUint::from((o.neg)(ta).to());
            if ng != (&p - a) % &p {
                acc.push(("neg".into(), a.to_string(), "".into(), ng.to_string(), "".into()));
            }
            if !a.is_zero() {
                let iv = BigUint::from((o.inv)(ta).to());
                // check by multiplication in the integers: residue(inv)*residue(a) = 1
                let x = a * &rinv % &p;
                let y = &iv * &rinv % &p;
                if x * y % &p != BigUint::one() {
                    acc.push(("inv".into(), a.to_string(), "".into(), iv.to_string(), "".into()));
                }
            }
            for b in lat.iter() {
                let tb: T = big_to_word(b);
                let s = BigUint::from((o.add)(ta, tb).to());
                let ws = (a + b) % &p;
                if s != ws {
                    acc.push(("add".into(), a.to_string(), b.to_string(), s.to_string(), ws.to_string()));
                    return;
                }
                let d = BigUint::from((o.sub)(ta, tb).to());
                let wd = (a + &p - b) % &p;
                if d != wd {
                    acc.push(("sub".into(), a.to_string(), b.to_string(), d.to_string(), wd.to_string()));
                    return;
                }
                let m = BigUint::from((o.mul)(ta, tb).to());
                let wm = a * b % &p * &rinv % &p;
                if m != wm {
                    acc.push(("mul".into(), a.to_string(), b.to_string(), m.to_string(), wm.to_string()));
                    return;
                }
            }
        },
    );
    run.count("evaluations", 3 * n * n + 3 * n);
    run.distinct_many((0..n).map(|i| fnv(format!("{}/{}", o.name, lat[i as usize]).as_bytes())));
    for f in fails.into_iter().flatten() {
        let (op, a, b, got, want) = f;
        run.fail(&key(o.name, &op), &format!("{}: {op}({a},{b}) = {got}, expected {want} (Montgomery domain)", o.name), json!({"ops": o.name, "op": op, "x": a, "y": b}));
    }
    // pow on a sub-lattice of exponents
    let exps: Vec<BigUint> = lat.iter().step_by((lat.len() / 64).max(1)).cloned().collect();
    for a in lat.iter().step_by((lat.len() / 24).max(1)) {
        let x = a * &rinv % &p;
        for e in &exps {
            let got = BigUint::from((o.pow)(big_to_word::<T>(a), big_to_word::<T>(e)).to());
            let want = x.modpow(e, &p) * &r % &p;
            run.count("evaluations", 1);
            if got != want {
                run.fail(&key(o.name, "pow"), &format!("{}: pow({a},{e}) wrong", o.name), json!({"ops": o.name, "op": "pow", "x": a.to_string(), "y": e.to_string()}));
            }
        }
    }
}

// ---------------------------------------------------------------------------------------------
// public API of a make_field! field
fn h<T: Hash>(t: &T) -> u64 {
    let mut s = DefaultHasher::new();
    t.hash(&mut s);
    s.finish()
}

trait IntConv: Copy {
    fn to_u128(self) -> u128;
    fn from_u128(x: u128) -> Self;
    fn max_u128() -> u128;
}
macro_rules! impl_ic { ($($t:ty),*) => {$(impl IntConv for $t {
    fn to_u128(self) -> u128 { self as u128 }
    fn from_u128(x: u128) -> Self { x as $t }
    fn max_u128() -> u128 { <$t>::MAX as u128 }
})*}; }
impl_ic!(u8, u16, u32, u64, u128);

fn le_bytes(x: &BigUint, n: usize) -> Vec<u8> {
    let mut b = x.to_bytes_le();
    b.resize(n, 0);
    b
}

/// Public-API check of one field on the element list `elems` (integers < p), all pairs.
fn check_api<F>(run: &Run, name: &str, elems: &[BigUint], exhaustive_bytes: bool)
where
    F: NttFriendlyFieldElement + Hash + Send + Sync + PartialEq<<F as FieldElementWithInteger>::Integer>,
    F::Integer: IntConv,
{
    let p = BigUint::from(F::modulus().to_u128());
    let size = F::ENCODED_SIZE;
    let mk = |x: &BigUint| F::from(F::Integer::from_u128(x.to_u128().unwrap()));
    let val = |f: F| BigUint::from(F::Integer::from(f).to_u128());
    let fk = |w: &str| format!("api/{name}/{w}");
    let bad = |w: &str, msg: String, case: serde_json::Value| run.fail(&fk(w), &format!("{name}: {msg}"), case);

    // constants
    if val(F::zero()) != BigUint::zero() || val(F::one()) != BigUint::one() {
        bad("zero_one", "zero()/one() wrong".into(), json!({"field": name}));
    }
    if val(F::half()) * BigUint::from(2u8) % &p != BigUint::one() {
        bad("half", "half()*2 != 1".into(), json!({"field": name}));
    }
    let order = BigUint::from(F::generator_order().to_u128());
    let g = val(F::generator());
    let pm1 = &p - BigUint::one();
    if g.modpow(&order, &p) != BigUint::one() || (order > BigUint::one() && g.modpow(&(&order >> 1u32), &p) != pm1) {
        bad("generator", format!("generator() does not have order exactly generator_order()={order}"), json!({"field": name}));
    }
    let mut l = 0usize;
    while let Some(w) = F::root(l) {
        let w = val(w);
        let ok = w.modpow(&(BigUint::one() << l), &p) == BigUint::one() && (l == 0 || w.modpow(&(BigUint::one() << (l - 1)), &p) == pm1);
        if !ok {
            bad("root", format!("root({l}) does not have order exactly 2^{l}"), json!({"field": name, "l": l}));
        }
        l += 1;
        run.count("evaluations", 1);
        if l > 64 {
            break;
        }
    }
    let expect_roots = (order.bits() as usize - 1).min(20) + 1;
    if l != expect_roots {
        bad("root_count", format!("root(l) defined for l<{l}, expected l<{expect_roots}"), json!({"field": name}));
    }

    // unary + conversions
    for x in elems {
        let f = mk(x);
        let enc = f.get_encoded().unwrap();
        if enc != le_bytes(x, size) || f.encoded_len() != Some(enc.len()) {
            bad("encode", format!("encoding of {x} is {:?}", enc), json!({"field": name, "x": x.to_string()}));
        }
        let v: Vec<u8> = f.into();
        if v != enc {
            bad("into_vec", format!("Into<Vec<u8>> of {x} differs from encoding"), json!({"field": name, "x": x.to_string()}));
        }
        match F::get_decoded(&enc) {
            Ok(g) if g == f && h(&g) == h(&f) && bool::from(g.ct_eq(&f)) => {}
            _ => bad("decode", format!("decode(encode({x})) != {x}"), json!({"field": name, "x": x.to_string()})),
        }
        match F::try_from(&enc[..]) {
            Ok(g) if g == f => {}
            _ => bad("try_from", format!("try_from(encode({x})) != {x}"), json!({"field": name, "x": x.to_string()})),
        }
        if val(-f) != (&p - x) % &p {
            bad("neg", format!("-{x} wrong"), json!({"field": name, "x": x.to_string()}));
        }
        if !x.is_zero() {
            match catch(|| f.inv()) {
                Ok(i) => {
                    if val(i) * x % &p != BigUint::one() {
                        bad("inv", format!("inv({x}) = {} is not the inverse", val(i)), json!({"field": name, "x": x.to_string()}));
                    }
                }
                Err(m) => bad("inv", format!("inv({x}) panicked: {m}"), json!({"field": name, "x": x.to_string()})),
            }
        }
        if !(f == F::Integer::from_u128(x.to_u128().unwrap())) {
            bad("eq_int", format!("PartialEq<Integer> false for {x}"), json!({"field": name, "x": x.to_string()}));
        }
        let mut n = f;
        n.conditional_negate(Choice::from(1));
        let mut m = f;
        m.conditional_negate(Choice::from(0));
        if val(n) != (&p - x) % &p || m != f {
            bad("conditional_negate", format!("conditional_negate({x}) wrong"), json!({"field": name, "x": x.to_string()}));
        }
        run.count("evaluations", 8);
    }
    // From<Integer> for integers >= p (documented to reduce) — at the boundary
    let imax = F::Integer::max_u128();
    let pu = p.to_u128().unwrap();
    let mut ints = vec![pu, imax, imax - 1];
    if pu < imax {
        ints.push(pu + 1);
    }
    for k in 0..8u32 {
        let y = pu.wrapping_add((1u128 << k).wrapping_mul(3));
        if y > pu && y <= imax {
            ints.push(y);
        }
    }
    for x in ints {
        if x > imax {
            continue;
        }
        let f = F::from(F::Integer::from_u128(x));
        if val(f) != BigUint::from(x) % &p {
            bad("from_int_reduce", format!("From<Integer>({x}) = {}, expected {}", val(f), BigUint::from(x) % &p), json!({"field": name, "x": x.to_string()}));
        }
        run.count("evaluations", 1);
    }

    // binary, all pairs
    let n = elems.len() as u64;
    let fails = par::fold(
        n,
        1,
        Vec::<(String, String, String)>::new,
        |acc, i| {
            if !acc.is_empty() {
                return;
            }
            let x = &elems[i as usize];
            let fx = mk(x);
            let row = catch(|| {
            for y in elems {
                let fy = mk(y);
                let chk = |op: &str, got: F, want: BigUint, acc: &mut Vec<(String, String, String)>| {
                    if val(got) != want {
                        acc.push((op.to_string(), x.to_string(), y.to_string()));
                    }
                };
                chk("add", fx + fy, (x + y) % &p, acc);
                chk("sub", fx - fy, (x + &p - y) % &p, acc);
                chk("mul", fx * fy, x * y % &p, acc);
                let mut t = fx;
                t += fy;
                chk("add_assign", t, (x + y) % &p, acc);
                let mut t = fx;
                t -= fy;
                chk("sub_assign", t, (x + &p - y) % &p, acc);
                let mut t = fx;
                t *= fy;
                chk("mul_assign", t, x * y % &p, acc);
                if !y.is_zero() {
                    if let Ok(q) = catch(|| fx / fy) {
                        if val(q) * y % &p != *x {
                            acc.push(("div".into(), x.to_string(), y.to_string()));
                        }
                    } else {
                        acc.push(("div_panic".into(), x.to_string(), y.to_string()));
                    }
                }
                // equality / hash / ct_eq / encoding mutually consistent
                let eq = fx == fy;
                if eq != (x == y) || bool::from(fx.ct_eq(&fy)) != eq || (h(&fx) == h(&fy)) != eq {
                    acc.push(("eq_hash".into(), x.to_string(), y.to_string()));
                }
                // an element reached by arithmetic equals the directly constructed one
                let s = fx + fy;
                let direct = mk(&((x + y) % &p));
                if s != direct || h(&s) != h(&direct) || s.get_encoded().unwrap() != direct.get_encoded().unwrap() {
                    acc.push(("canonical".into(), x.to_string(), y.to_string()));
                }
                let m = fx * fy;
                let direct = mk(&(x * y % &p));
                if m != direct || h(&m) != h(&direct) {
                    acc.push(("canonical_mul".into(), x.to_string(), y.to_string()));
                }
                let s0 = F::conditional_select(&fx, &fy, Choice::from(0));
                let s1 = F::conditional_select(&fx, &fy, Choice::from(1));
                if s0 != fx || s1 != fy {
                    acc.push(("conditional_select".into(), x.to_string(), y.to_string()));
                }
                // pow with exponent y
                let e = F::Integer::from_u128(y.to_u128().unwrap());
                if val(fx.pow(e)) != x.modpow(y, &p) {
                    acc.push(("pow".into(), x.to_string(), y.to_string()));
                }
                if !acc.is_empty() {
                    return;
                }
            }
            });
            if let Err(m) = row {
                // e.g. the library's own debug assertion "element fully reduced" fired
                acc.push((format!("panic({})", m.chars().take(60).collect::<String>()), x.to_string(), "*".into()));
            }
        },
    );
    run.count("evaluations", 16 * n * n);
    run.distinct_many(elems.iter().map(|x| fnv(format!("{name}/{x}").as_bytes())));
    for (op, x, y) in fails.into_iter().flatten() {
        run.fail(&fk(&op), &format!("{name}: {op} wrong for x={x}, y={y}"), json!({"field": name, "op": op, "x": x, "y": y}));
    }

    // byte strings: decode rejects >= p; try_from_random masks then rejects
    let bitlen = p.bits();
    let mask = (BigUint::one() << bitlen) - BigUint::one();
    let check_bytes = |b: &[u8]| {
        let x = BigUint::from_bytes_le(b);
        let d = F::get_decoded(b);
        let ok = match &d {
            Ok(f) => x < p && val(*f) == x,
            Err(_) => x >= p,
        };
        if !ok {
            bad("decode_noncanonical", format!("decode({:?}) = {:?}", b, d.as_ref().map(|f| val(*f).to_string()).map_err(|e| e.to_string())), json!({"field": name, "bytes": pvh::engine::hex(b)}));
        }
        let t = F::try_from(b);
        if t.is_ok() != (x < p) {
            bad("try_from_noncanonical", format!("try_from({:?}) accepted/rejected wrongly", b), json!({"field": name, "bytes": pvh::engine::hex(b)}));
        }
        let m = &x & &mask;
        let r = F::try_from_random(b);
        let ok = match &r {
            Ok(f) => m < p && val(*f) == m,
            Err(_) => m >= p,
        };
        if !ok {
            bad("try_from_random", format!("try_from_random({:?}) wrong (masked value {m})", b), json!({"field": name, "bytes": pvh::engine::hex(b)}));
        }
        run.count("evaluations", 3);
    };
    if exhaustive_bytes {
        assert!(size <= 2);
        for x in 0u32..(1u32 << (8 * size)) {
            check_bytes(&x.to_le_bytes()[..size]);
        }
    } else {
        let top = BigUint::one() << (8 * size);
        let mut cands: Vec<BigUint> = elems.to_vec();
        for k in 0u32..4 {
            cands.push(&p + BigUint::from(k));
            cands.push(&top - BigUint::from(k + 1));
            cands.push(&mask - BigUint::from(k));
            cands.push(&mask + BigUint::from(k + 1));
            cands.push((&mask + BigUint::one() + &p - BigUint::from(2u8) + BigUint::from(k)) % &top);
        }
        for bit in bitlen..(8 * size as u64) {
            for x in elems.iter().take(16) {
                cands.push(x | (BigUint::one() << bit));
            }
        }
        for x in cands {
            if x < top {
                check_bytes(&le_bytes(&x, size));
            }
        }
    }
    // short / long inputs
    for len in 0..size {
        if F::get_decoded(&vec![0u8; len]).is_ok() || F::try_from(&vec![0u8; len][..]).is_ok() || F::try_from_random(&vec![0u8; len]).is_ok() {
            bad("short", format!("{len}-byte input accepted"), json!({"field": name, "len": len}));
        }
    }
    if F::get_decoded(&vec![0u8; size + 1]).is_ok() {
        bad("long", "trailing byte accepted by get_decoded".into(), json!({"field": name}));
    }
}

fn all_elems(p: u128) -> Vec<BigUint> {
    (0..p).map(BigUint::from).collect()
}

fn check_field255(run: &Run) {
    let name = "Field255";
    let p = (BigUint::one() << 255u32) - BigUint::from(19u8);
    let mut lat: Vec<BigUint> = vec![];
    for k in 0u32..40 {
        lat.push(BigUint::from(k));
        lat.push(&p - BigUint::from(k + 1));
    }
    let one = BigUint::one();
    // 51-bit limb edges of the fiat representation and 64-bit edges of the byte representation
    let step = run.pick(3usize, 1);
    for k in (0u32..255).step_by(step) {
        let near_limb = (k % 51 <= 1) || (k % 51 >= 50) || (k % 64 <= 1) || (k % 64 >= 63);
        if run.quick() && !near_limb && k % 6 != 0 {
            continue;
        }
        let t = &one << k;
        for x in [&t - &one, t.clone(), &t + &one] {
            if x < p {
                lat.push(x.clone());
                lat.push(&p - &x - &one);
            }
        }
    }
    // all-ones limbs
    for i in 0..5u32 {
        let limb = ((&one << 51u32) - &one) << (51 * i);
        lat.push(&limb % &p);
        lat.push((&p - &limb % &p) % &p);
    }
    let mut st = run.seed;
    for _ in 0..run.pick(8, 48) {
        let mut x = BigUint::zero();
        for _ in 0..4 {
            x = (x << 64u32) | BigUint::from(splitmix(&mut st));
        }
        lat.push(x % &p);
    }
    lat.sort();
    lat.dedup();
    let mk = |x: &BigUint| Field255::try_from(&le_bytes(x, 32)[..]).unwrap();
    let val = |f: Field255| BigUint::from_bytes_le(&f.get_encoded().unwrap());
    let n = lat.len() as u64;
    run.note("lattice_Field255", json!(n));
    let fails = par::fold(n, 1, Vec::<(String, String, String)>::new, |acc, i| {
        if !acc.is_empty() {
            return;
        }
        let x = &lat[i as usize];
        let fx = mk(x);
        if val(-fx) != (&p - x) % &p || val(-&fx) != (&p - x) % &p {
            acc.push(("neg".into(), x.to_string(), "".into()));
        }
        for y in &lat {
            let fy = mk(y);
            let mut c = |op: &str, got: Field255, want: BigUint| {
                if val(got) != want {
                    acc.push((op.to_string(), x.to_string(), y.to_string()));
                }
            };
            c("add", fx + fy, (x + y) % &p);
            c("sub", fx - fy, (x + &p - y) % &p);
            c("mul", fx * fy, x * y % &p);
            let mut t = fx;
            t += fy;
            c("add_assign", t, (x + y) % &p);
            let mut t = fx;
            t -= fy;
            c("sub_assign", t, (x + &p - y) % &p);
            let mut t = fx;
            t *= fy;
            c("mul_assign", t, x * y % &p);
            // chained ops keep results canonical: (x+y)*y - x
            c("chain", (fx + fy) * fy - fx, ((x + y) * y + &p - x) % &p);
            let eq = fx == fy;
            if eq != (x == y) || bool::from(fx.ct_eq(&fy)) != eq {
                acc.push(("eq".into(), x.to_string(), y.to_string()));
            }
            // element reached through arithmetic equals direct construction (non-unique limbs)
            let s = fx - fy;
            let d = mk(&((x + &p - y) % &p));
            if s != d || s.get_encoded().unwrap() != d.get_encoded().unwrap() {
                acc.push(("canonical".into(), x.to_string(), y.to_string()));
            }
            let s0 = Field255::conditional_select(&fx, &fy, Choice::from(0));
            let s1 = Field255::conditional_select(&fx, &fy, Choice::from(1));
            if s0 != fx || s1 != fy {
                acc.push(("conditional_select".into(), x.to_string(), y.to_string()));
            }
            if !acc.is_empty() {
                return;
            }
        }
    });
    run.count("evaluations", 10 * n * n);
    run.distinct_many(lat.iter().map(|x| fnv(format!("f255/{x}").as_bytes())));
    for (op, x, y) in fails.into_iter().flatten() {
        run.fail(&format!("api/{name}/{op}"), &format!("{name}: {op} wrong for x={x}, y={y}"), json!({"field": name, "op": op, "x": x, "y": y}));
    }
    // unary, codecs
    let top = BigUint::one() << 256u32;
    let mask = (BigUint::one() << 255u32) - BigUint::one();
    let mut cands = lat.clone();
    for k in 0u32..40 {
        cands.push(&p + BigUint::from(k));
        cands.push(&top - BigUint::from(k + 1));
        cands.push(&p + (BigUint::one() << 255u32) + BigUint::from(k)); // top bit set, masked value >= p
        cands.push((BigUint::one() << 255u32) + BigUint::from(k)); // top bit set, masked value small
    }
    for i in 0..32usize {
        // values differing from p in exactly one byte
        let mut b = le_bytes(&p, 32);
        for d in [1u8, 0xff] {
            b[i] = b[i].wrapping_add(d);
            cands.push(BigUint::from_bytes_le(&b));
            b[i] = b[i].wrapping_sub(d);
        }
    }
    for x in &cands {
        if x >= &top {
            continue;
        }
        let b = le_bytes(x, 32);
        let d = Field255::get_decoded(&b);
        let ok = match &d {
            Ok(f) => x < &p && val(*f) == *x,
            Err(_) => x >= &p,
        };
        if !ok {
            run.fail(&format!("api/{name}/decode_noncanonical"), &format!("{name}: decode of {x} wrong"), json!({"field": name, "bytes": pvh::engine::hex(&b)}));
        }
        // the other byte routes (TryFrom<&[u8]>, which the bulk vector decoder and serde go through) must agree
        // with decode: canonical strings give the same element, strings >= p (incl. a set top bit) are refused
        let t = Field255::try_from(&b[..]);
        let ok = match (&t, &d) {
            (Ok(f), Ok(g)) => f == g,
            (Err(_), Err(_)) => true,
            _ => false,
        };
        if !ok {
            run.fail(&format!("api/{name}/try_from_bytes_vs_decode"), &format!("{name}: TryFrom<&[u8]> and decode disagree on the bytes of {x} (TryFrom {}, decode {})", if t.is_ok() { "accepts" } else { "refuses" }, if d.is_ok() { "accepts" } else { "refuses" }), json!({"field": name, "bytes": pvh::engine::hex(&b)}));
        }
        let m = x & &mask;
        let r = Field255::try_from_random(&b);
        let ok = match &r {
            Ok(f) => m < p && val(*f) == m,
            Err(_) => m >= p,
        };
        if !ok {
            run.fail(&format!("api/{name}/try_from_random"), &format!("{name}: try_from_random of {x} wrong"), json!({"field": name, "bytes": pvh::engine::hex(&b)}));
        }
        run.count("evaluations", 2);
    }
    for x in [0u64, 1, 2, u64::MAX, u64::MAX - 1, 1 << 63, (1 << 51) - 1, 1 << 51] {
        let f = Field255::from(x);
        if val(f) != BigUint::from(x) || u64::try_from(f).ok() != Some(x) {
            run.fail(&format!("api/{name}/u64"), &format!("{name}: u64 conversion of {x} wrong"), json!({"field": name, "x": x}));
        }
    }
    for x in lat.iter() {
        let f = mk(x);
        let want = x.to_u64().filter(|_| x.bits() <= 64);
        if u64::try_from(f).ok() != want {
            run.fail(&format!("api/{name}/try_into_u64"), &format!("{name}: TryFrom<Field255> for u64 wrong at {x}"), json!({"field": name, "x": x.to_string()}));
        }
    }
    if val(Field255::half()) * BigUint::from(2u8) % &p != BigUint::one() || val(Field255::one()) != BigUint::one() || !val(Field255::zero()).is_zero() {
        run.fail(&format!("api/{name}/consts"), "Field255 constants wrong", json!({}));
    }
    // inversion / division (named by the property)
    for x in lat.iter().filter(|x| !x.is_zero()).take(run.pick(6, 40)) {
        let f = mk(x);
        match catch(|| f.inv()) {
            Ok(i) => {
                if val(i) * x % &p != BigUint::one() {
                    run.fail(&format!("api/{name}/inv_wrong"), &format!("{name}: inv({x}) is not the inverse"), json!({"field": name, "x": x.to_string()}));
                }
            }
            Err(m) => run.fail(&format!("api/{name}/inv_panic"), &format!("{name}: inv() panics: {m}"), json!({"field": name, "x": x.to_string()})),
        }
        match catch(|| Field255::one() / f) {
            Ok(i) => {
                if val(i) * x % &p != BigUint::one() {
                    run.fail(&format!("api/{name}/div_wrong"), &format!("{name}: 1/{x} wrong"), json!({"field": name, "x": x.to_string()}));
                }
            }
            Err(m) => run.fail(&format!("api/{name}/div_panic"), &format!("{name}: Div panics: {m}"), json!({"field": name, "x": x.to_string()})),
        }
        run.count("evaluations", 2);
    }
}

/// A panic inside a sub-check on well-formed operands (e.g. the library's own "fully reduced"
/// debug assertion firing) is a violation of that field's arithmetic, not a harness crash.
fn guard(run: &Run, key: &str, f: impl FnOnce()) {
    if let Err(m) = catch(f) {
        run.fail(&format!("{key}/panic"), &format!("{key}: panic on well-formed operands: {m}"), json!({"field": key}));
    }
}

fn main() {
    let run = Run::from_args("C09", Level::Exploration);
    run.rule("(A) raw generic FieldOps at u8/u16 words: every (x,y) in [0,p)^2 for add/sub/mul, every raw word for montgomery, every exponent word for pow, vs plain integer arithmetic; (B) make_field! API over small fields: all pairs, all byte strings; (C) deployed fields: limb-boundary lattice, all pairs, vs BigUint; distinct = distinct (field, element) rows / parameter sets exercised");
    run.assume("deployed 32/64/128-bit primes are not enumerable: same generic code as the exhaustively checked word sizes + constants re-derived + boundary lattice");
    if run.replay.is_some() {
        // every case is a (field/op, x, y) triple; the full run is deterministic, so replay = rerun
        eprintln!("replay: re-running the deterministic sweep (cases are identified by key)");
    }

    // (A) u8: every odd prime < 256, exhaustive
    for o in raw_ops_u8() {
        check_constants(&run, &o);
        check_raw_small(&run, &o, true);
    }
    // u16
    for o in raw_ops_u16_single().into_iter().chain(raw_ops_u16_split()) {
        check_constants(&run, &o);
        let full = !run.quick() || o.prime <= 8191;
        check_raw_small(&run, &o, full);
    }
    run.sample(json!({"ops": "FPS16_61441", "op": "mul", "x": 61440, "y": 61440, "domain": "Montgomery"}));
    // (C) raw deployed
    check_raw_big(&run, &raw_ops_fp32());
    check_raw_big(&run, &raw_ops_fp64());
    check_raw_big(&run, &raw_ops_fp128());
    run.sample(json!({"ops": "FP128", "op": "mul", "x": "2^64-1", "y": "p-1", "domain": "Montgomery"}));

    // (B) public API, small fields: exhaustive
    guard(&run, "api/FieldV17", || check_api::<FieldV17>(&run, "FieldV17", &all_elems(17), true));
    guard(&run, "api/FieldV97", || check_api::<FieldV97>(&run, "FieldV97", &all_elems(97), true));
    guard(&run, "api/FieldV193", || check_api::<FieldV193>(&run, "FieldV193", &all_elems(193), true));
    guard(&run, "api/FieldV241", || check_api::<FieldV241>(&run, "FieldV241", &all_elems(241), true));
    guard(&run, "api/FieldV257", || check_api::<FieldV257>(&run, "FieldV257", &all_elems(257), true));
    guard(&run, "api/FieldS257", || check_api::<FieldS257>(&run, "FieldS257", &all_elems(257), true));
    guard(&run, "api/FieldV769", || check_api::<FieldV769>(&run, "FieldV769", &all_elems(769), true));
    if !run.quick() {
        guard(&run, "api/FieldV7681", || check_api::<FieldV7681>(&run, "FieldV7681", &all_elems(7681), true));
    }
    let sub16 = |p: u128| -> Vec<BigUint> {
        let l = lattice(&BigUint::from(p), 16, 16, run.seed, false);
        l
    };
    guard(&run, "api/FieldV12289", || check_api::<FieldV12289>(&run, "FieldV12289", &sub16(12289), true));
    guard(&run, "api/FieldS12289", || check_api::<FieldS12289>(&run, "FieldS12289", &sub16(12289), true));
    guard(&run, "api/FieldV40961", || check_api::<FieldV40961>(&run, "FieldV40961", &sub16(40961), true));
    guard(&run, "api/FieldS40961", || check_api::<FieldS40961>(&run, "FieldS40961", &sub16(40961), true));
    guard(&run, "api/FieldV61441", || check_api::<FieldV61441>(&run, "FieldV61441", &sub16(61441), true));
    guard(&run, "api/FieldS61441", || check_api::<FieldS61441>(&run, "FieldS61441", &sub16(61441), true));
    run.sample(json!({"field": "FieldV17", "op": "all binary ops + eq/hash/encode", "x": "0..16", "y": "0..16"}));

    // (C) public API, deployed fields on the lattice
    let coarse = run.quick();
    let l32 = lattice(&BigUint::from(FieldPrio2::modulus()), 32, run.pick(8, 64), run.seed, false);
    guard(&run, "api/FieldPrio2", || check_api::<FieldPrio2>(&run, "FieldPrio2", &l32, false));
    let l64 = lattice(&BigUint::from(Field64::modulus()), 64, run.pick(8, 64), run.seed, coarse);
    guard(&run, "api/Field64", || check_api::<Field64>(&run, "Field64", &l64, false));
    let l128 = lattice(&BigUint::from(Field128::modulus()), 128, run.pick(8, 64), run.seed, coarse);
    guard(&run, "api/Field128", || check_api::<Field128>(&run, "Field128", &l128, false));
    run.note("lattice_sizes", json!({"FieldPrio2": l32.len(), "Field64": l64.len(), "Field128": l128.len()}));
    run.sample(json!({"field": "Field128", "op": "mul", "x": l128[l128.len() / 2].to_string(), "y": l128[l128.len() - 1].to_string()}));

    // (D) Field255
    guard(&run, "api/Field255", || check_field255(&run));
    run.exhaustive(true);
    run.note("exhaustive_scope", json!("every odd prime < 2^8 (single-word u8/u16) fully; 16-bit primes single- and split-word: fully in thorough, p<=8191 fully + boundary rows x all columns in quick; deployed fields: lattice only"));
    run.finish();
}
