//! C05 — FLP prove/query/decide: complete, sound, share-linear, length-exact.
//!
//! Engine: bounded-exhaustive sweep on the real generic FLP code instantiated over GF(17)/GF(97)
//! (every input vector, every joint/query randomness, prove randomness from an alphabet or all),
//! with the specification validity predicate as reference; adversarial-proof enumeration for
//! Count/GF(17); share-linearity and length menus; deployed fields on randomness lattices and
//! seeded lines (pigeonhole counting).
use prio::field::verif::{FieldV17, FieldV193, FieldV97};
use prio::field::{Field128, Field64};
use prio::flp::Type;
use pvh::engine::{catch, fnv, splitmix, Level, Run};
use pvh::kit::flpexh::{adversarial_count, vf, ForgedGadget, SmallCfg, SmallExh};
use pvh::kit::flpkit::{build, Spec, Visit};
use pvh::kit::ints::{modpow, IntConv, KitField};
use serde_json::json;

// ---------------------------------------------------------------------------------------------
/// Share linearity + length menu for one instance (any field).
struct LinLen<'a> {
    run: &'a Run,
    share_counts: Vec<usize>,
    n_rand: usize,
}

fn rand_vec<F: KitField>(len: usize, st: &mut u64, kind: usize) -> Vec<F>
where
    F::Integer: IntConv,
{
    let p = F::p();
    (0..len)
        .map(|i| match kind {
            0 => F::zero(),
            1 => F::one(),
            2 => -F::one(),
            3 => F::fe((i as u128 + 2) % p),
            _ => {
                let hi = splitmix(st) as u128;
                let lo = splitmix(st) as u128;
                F::fe(((hi << 64) | lo) % p)
            }
        })
        .collect()
}

impl<'a, F: KitField> Visit<F> for LinLen<'a>
where
    F::Integer: IntConv,
{
    type Out = ();
    fn visit<T: Type<Field = F> + Send + Sync + 'static>(self, spec: &Spec, t: T) {
        let run = self.run;
        let p = F::p();
        let name = format!("{}@GF({})", spec.name(), p);
        let mut st = run.seed ^ fnv(name.as_bytes());
        let n = t.input_len();
        // inputs: a valid one (all zeros is valid for everything except Histogram) and an invalid one
        let mut valid_x = vec![0u128; n];
        if let Spec::Histogram { .. } = spec {
            valid_x[n - 1] = 1;
        }
        assert!(spec.is_valid(&valid_x, p), "{name}");
        let mut invalid_x = valid_x.clone();
        invalid_x[0] = 2 % p + if matches!(spec, Spec::Deg3 { .. }) { 1 } else { 0 };
        let pl = spec.wire_poly_len() as u128;
        for kind in 0..self.n_rand {
            let jr: Vec<F> = rand_vec(t.joint_rand_len(), &mut st, kind.min(4) + if kind < 4 { 0 } else { 0 });
            let pr: Vec<F> = rand_vec(t.prove_rand_len(), &mut st, 4);
            let mut qr: Vec<F> = rand_vec(t.query_rand_len(), &mut st, kind.min(4));
            // make every gadget query point admissible (the last num_gadgets entries)
            for g in 0..spec.num_gadgets() {
                let last = qr.len() - 1 - g;
                let mut tries = 0;
                while modpow(qr[last].val(), pl, p) == 1 {
                    qr[last] = F::fe((qr[last].val() + 2 + tries) % p);
                    tries += 1;
                }
            }
            for x in [&valid_x, &invalid_x] {
                let xf: Vec<F> = vf(x);
                let proof = t.prove(&xf, &pr, &jr).unwrap();
                let whole = t.query(&xf, &proof, &qr, &jr, 1).unwrap();
                for &ns in &self.share_counts {
                    if ns as u128 >= p {
                        continue;
                    }
                    // shares 1..ns from a menu (unit-vector x scalar, zeros, ones, seeded); share 0 = remainder
                    let mut xs: Vec<Vec<F>> = vec![];
                    let mut ps: Vec<Vec<F>> = vec![];
                    for j in 1..ns {
                        let k = (kind + j) % 5;
                        let mut xv: Vec<F> = rand_vec(n, &mut st, if k == 3 { 0 } else { k });
                        let mut pv: Vec<F> = rand_vec(proof.len(), &mut st, if k == 3 { 0 } else { k });
                        if k == 3 {
                            xv[j % n] = F::fe((j as u128 * 7 + 1) % p);
                            pv[j % proof.len()] = F::fe((j as u128 * 11 + 3) % p);
                        }
                        xs.push(xv);
                        ps.push(pv);
                    }
                    let mut x0 = xf.clone();
                    let mut p0 = proof.clone();
                    for (xv, pv) in xs.iter().zip(&ps) {
                        for (a, b) in x0.iter_mut().zip(xv) {
                            *a -= *b;
                        }
                        for (a, b) in p0.iter_mut().zip(pv) {
                            *a -= *b;
                        }
                    }
                    xs.insert(0, x0);
                    ps.insert(0, p0);
                    let mut sum = vec![F::zero(); t.verifier_len()];
                    let mut ok = true;
                    for (xv, pv) in xs.iter().zip(&ps) {
                        match catch(|| t.query(xv, pv, &qr, &jr, ns)) {
                            Ok(Ok(v)) => {
                                for (a, b) in sum.iter_mut().zip(&v) {
                                    *a += *b;
                                }
                            }
                            other => {
                                ok = false;
                                run.fail(&format!("lin/{name}/query_share_err"), &format!("{name}: query on a share failed with num_shares={ns}: {:?}", other.map(|r| r.map(|_| ()).map_err(|e| e.to_string()))), json!({"spec": spec.name(), "p": p.to_string(), "num_shares": ns}));
                                break;
                            }
                        }
                    }
                    run.count("evaluations", ns as u64 + 1);
                    run.count("linearity_cases", 1);
                    if ok && sum != whole {
                        run.fail(&format!("lin/{name}/linearity"), &format!("{name}: verifier from the whole (input, proof) differs from the sum of verifiers over {ns} additive shares"), json!({"spec": spec.name(), "p": p.to_string(), "num_shares": ns, "x": x, "kind": kind}));
                    }
                    // and the decision on the summed verifier equals the decision on the whole
                    if ok && kind >= 4 && t.decide(&sum).unwrap() != spec.is_valid(x, p) && p > (1 << 30) {
                        run.fail(&format!("lin/{name}/distributed_decision"), &format!("{name}: distributed decision wrong for {}valid input", if spec.is_valid(x, p) { "" } else { "in" }), json!({"spec": spec.name(), "num_shares": ns}));
                    }
                }
            }
        }
        run.distinct(fnv(format!("lin/{name}").as_bytes()));

        // ---- length menu: every argument length in [0, declared+2] other than the declared one
        let xf: Vec<F> = vf(&valid_x);
        let jr: Vec<F> = rand_vec(t.joint_rand_len(), &mut st, 4);
        let pr: Vec<F> = rand_vec(t.prove_rand_len(), &mut st, 4);
        let mut qr: Vec<F> = rand_vec(t.query_rand_len(), &mut st, 4);
        for g in 0..spec.num_gadgets() {
            let last = qr.len() - 1 - g;
            while modpow(qr[last].val(), pl, p) == 1 {
                qr[last] = F::fe((qr[last].val() + 2) % p);
            }
        }
        let proof = t.prove(&xf, &pr, &jr).unwrap();
        let verifier = t.query(&xf, &proof, &qr, &jr, 1).unwrap();
        let resize = |v: &Vec<F>, l: usize| {
            let mut w = v.clone();
            w.resize(l, F::one());
            w
        };
        let menu = |what: &str, declared: usize, f: &dyn Fn(usize) -> Result<bool, String>| {
            for l in 0..=declared + 2 {
                if l == declared {
                    continue;
                }
                run.count("evaluations", 1);
                run.count("length_cases", 1);
                match f(l) {
                    Ok(true) => {}
                    Ok(false) => run.fail(&format!("len/{name}/{what}"), &format!("{name}: {what} of length {l} (declared {declared}) was not refused"), json!({"spec": spec.name(), "p": p.to_string(), "arg": what, "len": l})),
                    Err(m) => run.fail(&format!("len/{name}/{what}_panic"), &format!("{name}: {what} of length {l} (declared {declared}) panicked: {m}"), json!({"spec": spec.name(), "p": p.to_string(), "arg": what, "len": l})),
                }
            }
        };
        menu("prove.input", n, &|l| catch(|| t.prove(&resize(&xf, l), &pr, &jr).is_err()));
        menu("prove.prove_rand", pr.len(), &|l| catch(|| t.prove(&xf, &resize(&pr, l), &jr).is_err()));
        menu("prove.joint_rand", jr.len(), &|l| catch(|| t.prove(&xf, &pr, &resize(&jr, l)).is_err()));
        menu("query.input", n, &|l| catch(|| t.query(&resize(&xf, l), &proof, &qr, &jr, 1).is_err()));
        menu("query.proof", proof.len(), &|l| catch(|| t.query(&xf, &resize(&proof, l), &qr, &jr, 1).is_err()));
        menu("query.query_rand", qr.len(), &|l| {
            catch(|| {
                // keep the gadget point admissible: extend at the front
                let mut q = qr.clone();
                while q.len() < l {
                    q.insert(0, F::one());
                }
                while q.len() > l {
                    q.remove(0);
                }
                t.query(&xf, &proof, &q, &jr, 1).is_err()
            })
        });
        menu("query.joint_rand", jr.len(), &|l| catch(|| t.query(&xf, &proof, &qr, &resize(&jr, l), 1).is_err()));
        menu("decide.verifier", verifier.len(), &|l| catch(|| t.decide(&resize(&verifier, l)).is_err()));
        menu("valid.input", n, &|l| catch(|| t.valid(&mut t.gadget(), &resize(&xf, l), &jr, 1).is_err()));
        menu("truncate.input", n, &|l| catch(|| t.truncate(resize(&xf, l)).is_err()));
        // num_shares = 0 must not panic (division by zero in the constants)
        match catch(|| t.query(&xf, &proof, &qr, &jr, 0)) {
            Ok(_) => {}
            Err(m) => run.fail(&format!("len/{name}/num_shares0_panic"), &format!("{name}: query with num_shares=0 panicked: {m}"), json!({"spec": spec.name()})),
        }
    }
}

// ---------------------------------------------------------------------------------------------
/// Deployed fields: completeness on a randomness lattice, root refusal, soundness on seeded lines.
struct Deployed<'a> {
    run: &'a Run,
    lines: usize,
}

impl<'a, F: KitField> Visit<F> for Deployed<'a>
where
    F::Integer: IntConv,
{
    type Out = ();
    fn visit<T: Type<Field = F> + Send + Sync + 'static>(self, spec: &Spec, t: T) {
        let run = self.run;
        let p = F::p();
        let name = format!("{}@GF({})", spec.name(), p);
        let mut st = run.seed ^ fnv(name.as_bytes());
        let n = t.input_len();
        let pl = spec.wire_poly_len();
        let log_pl = pl.trailing_zeros() as usize;
        // valid inputs: zeros-ish, and "max-ish" (all ones where allowed)
        let mut valids: Vec<Vec<u128>> = vec![];
        let mut z = vec![0u128; n];
        if let Spec::Histogram { .. } = spec {
            z[0] = 1;
        }
        valids.push(z.clone());
        match spec {
            Spec::Count | Spec::Sum { .. } | Spec::SumVec { .. } | Spec::TwoGadget => valids.push(vec![1; n]),
            Spec::Deg3 { .. } => valids.push(vec![2; n]),
            Spec::Histogram { .. } => {
                let mut v = vec![0; n];
                v[n - 1] = 1;
                valids.push(v);
            }
            Spec::Multihot { len, .. } => {
                // weight 1 at the last bucket, claimed weight 1
                let mut v = vec![0; n];
                v[len - 1] = 1;
                v[*len] = 1;
                if spec.is_valid(&v, p) {
                    valids.push(v);
                }
            }
            Spec::L1 { max, len, .. } => {
                let b = (128 - max.leading_zeros()) as usize;
                let mut v = vec![0; n];
                v[0] = 1;
                v[b * len] = 1;
                if spec.is_valid(&v, p) {
                    valids.push(v);
                }
            }
        }
        // invalid inputs: single non-bit at first / last / chunk boundary; p-1; affine-only violation
        let mut invalids: Vec<Vec<u128>> = vec![];
        let c = spec.chunk().max(1);
        for pos in [0, n - 1, (c - 1).min(n - 1), c.min(n - 1), n / 2] {
            for bad in [2u128, p - 1, p / 2, 3] {
                let mut v = valids[0].clone();
                v[pos] = bad;
                if !spec.is_valid(&v, p) {
                    invalids.push(v);
                }
            }
        }
        for v in &valids {
            // flip one bit: for affine-checked types this breaks the sum/weight check only
            for pos in [0, n - 1] {
                let mut w = v.clone();
                w[pos] = if w[pos] <= 1 { 1 - w[pos] } else { 3 };
                if !spec.is_valid(&w, p) {
                    invalids.push(w);
                }
            }
        }
        invalids.sort();
        invalids.dedup();
        // randomness lattice
        let special: Vec<F> = {
            let mut v = vec![F::zero(), F::one(), -F::one(), F::fe(2), F::generator(), F::half()];
            for l in 0..=20usize {
                if let Some(r) = F::root(l) {
                    v.push(r);
                }
            }
            v.push(F::root(3).unwrap() * F::root(5).unwrap());
            v
        };
        // --- root refusal: r refused <=> r^P = 1
        let xf: Vec<F> = vf(&valids[0]);
        let jr: Vec<F> = rand_vec(t.joint_rand_len(), &mut st, 4);
        let pr: Vec<F> = rand_vec(t.prove_rand_len(), &mut st, 4);
        let proof = t.prove(&xf, &pr, &jr).unwrap();
        let mut cands: Vec<F> = special.clone();
        // every P-th root of unity (P <= 64 enumerated fully, else powers 0..64 and the last ones)
        let w = F::root(log_pl).unwrap();
        let mut acc = F::one();
        for i in 0..pl.min(64) {
            cands.push(acc);
            if i < 8 {
                cands.push(acc * F::root(log_pl + 1).unwrap()); // 2P-th root, not a P-th root: must be admitted
            }
            acc *= w;
        }
        for _ in 0..8 {
            cands.push(rand_vec::<F>(1, &mut st, 4)[0]);
        }
        for r in &cands {
            let mut qr: Vec<F> = rand_vec(t.query_rand_len(), &mut st, 4);
            let last = qr.len() - 1;
            qr[last] = *r;
            let expect_refused = modpow(r.val(), pl as u128, p) == 1;
            run.count("evaluations", 1);
            run.count("deployed_root_cases", 1);
            match catch(|| t.query(&xf, &proof, &qr, &jr, 1)) {
                Ok(Err(_)) if expect_refused => {}
                Ok(Ok(v)) if !expect_refused => {
                    if !t.decide(&v).unwrap() {
                        run.fail(&format!("dep/{name}/completeness"), &format!("{name}: valid input rejected at gadget query point {}", r.val()), json!({"spec": spec.name(), "p": p.to_string(), "r": r.val().to_string()}));
                    }
                }
                Ok(Ok(_)) => run.fail(&format!("dep/{name}/root_not_refused"), &format!("{name}: query point {} is a {pl}-th root of unity but was not refused", r.val()), json!({"spec": spec.name(), "p": p.to_string(), "r": r.val().to_string()})),
                Ok(Err(e)) => run.fail(&format!("dep/{name}/admissible_refused"), &format!("{name}: admissible query point {} refused: {e}", r.val()), json!({"spec": spec.name(), "p": p.to_string(), "r": r.val().to_string()})),
                Err(m) => run.fail(&format!("dep/{name}/query_panic"), &format!("{name}: query panicked: {m}"), json!({"spec": spec.name(), "p": p.to_string(), "r": r.val().to_string()})),
            }
        }
        // --- completeness over the lattice: each randomness vector = constant special value / mixed
        let fix_gadget_point = |qr: &mut Vec<F>| {
            for g in 0..spec.num_gadgets() {
                let last = qr.len() - 1 - g;
                let mut k = 0u128;
                while modpow(qr[last].val(), pl as u128, p) == 1 {
                    qr[last] = F::fe((qr[last].val() + 3 + k) % p);
                    k += 1;
                }
            }
        };
        for x in &valids {
            let xf: Vec<F> = vf(x);
            for (si, s) in special.iter().enumerate() {
                let jr: Vec<F> = vec![*s; t.joint_rand_len()];
                let pr: Vec<F> = vec![special[(si + 1) % special.len()]; t.prove_rand_len()];
                let mut qr: Vec<F> = vec![special[(si + 2) % special.len()]; t.query_rand_len()];
                fix_gadget_point(&mut qr);
                run.count("evaluations", 1);
                run.count("deployed_completeness_cases", 1);
                let ok = catch(|| {
                    let proof = t.prove(&xf, &pr, &jr)?;
                    let v = t.query(&xf, &proof, &qr, &jr, 1)?;
                    t.decide(&v)
                });
                match ok {
                    Ok(Ok(true)) => {}
                    other => run.fail(&format!("dep/{name}/completeness"), &format!("{name}: valid input {:?} not accepted with structured randomness #{si}: {:?}", x, other.map(|r| r.map_err(|e| e.to_string()))), json!({"spec": spec.name(), "p": p.to_string(), "x": x, "special": si})),
                }
            }
            run.distinct(fnv(format!("dep/{name}/{:?}", x).as_bytes()));
        }
        // --- soundness on seeded lines through structured points: randomness(t) = a + t*b.
        // The decision of an honest proof is [C(x; rand) == 0] with C of total degree <= chunk+1 in
        // the randomness, so on a line not contained in the zero set at most chunk+1 points accept.
        let deg = spec.chunk() + 1;
        let npts = deg + 3;
        for x in &invalids {
            let xf: Vec<F> = vf(x);
            for li in 0..self.lines {
                let a_kind = li % 4; // structured base point
                let ja: Vec<F> = rand_vec(t.joint_rand_len(), &mut st, a_kind);
                let jb: Vec<F> = rand_vec(t.joint_rand_len(), &mut st, 4);
                let qa: Vec<F> = rand_vec(t.query_rand_len(), &mut st, a_kind);
                let qb: Vec<F> = rand_vec(t.query_rand_len(), &mut st, 4);
                let pr: Vec<F> = rand_vec(t.prove_rand_len(), &mut st, 4);
                let mut accepted = 0;
                for k in 0..npts {
                    let tt = F::fe(k as u128);
                    let jr: Vec<F> = ja.iter().zip(&jb).map(|(a, b)| *a + tt * *b).collect();
                    let mut qr: Vec<F> = qa.iter().zip(&qb).map(|(a, b)| *a + tt * *b).collect();
                    fix_gadget_point(&mut qr);
                    let proof = t.prove(&xf, &pr, &jr).unwrap();
                    let v = t.query(&xf, &proof, &qr, &jr, 1).unwrap();
                    run.count("evaluations", 1);
                    if t.decide(&v).unwrap() {
                        accepted += 1;
                    }
                }
                run.count("deployed_soundness_lines", 1);
                if accepted > deg {
                    run.fail(&format!("dep/{name}/soundness"), &format!("{name}: honest proof for INVALID input {:?} accepted at {accepted} of {npts} points of a randomness line (degree bound {deg})", x, ), json!({"spec": spec.name(), "p": p.to_string(), "x": x.iter().map(|v| v.to_string()).collect::<Vec<_>>(), "line": li}));
                }
            }
            run.distinct(fnv(format!("dep/{name}/inv/{:?}", x).as_bytes()));
        }
    }
}

/// Run one sub-check; a panic inside it (an honest library call that failed or panicked where the
/// harness expected success) is reported as a violation of that instance, not as a harness crash.
fn guard(run: &Run, key: &str, f: impl FnOnce()) {
    if let Err(m) = catch(f) {
        run.fail(&format!("{key}/honest_call_failed"), &format!("{key}: a call on well-formed arguments failed or panicked: {m}"), json!({"instance": key}));
    }
}

fn main() {
    let run = Run::from_args("C05", Level::Exploration);
    run.rule("small fields: every input vector of F^n x every joint randomness x every gadget query point (x compression randomness, x prove randomness: all or alphabet, reported per instance) through the real prove/query/decide; reference = specification validity predicate; invalid inputs decided by exact acceptance counts vs the soundness bound; adversarial proofs for Count/GF(17); linearity over share counts and share menus; length menus; deployed fields: randomness lattice, all P-th roots, seeded randomness lines. distinct = distinct (instance, input vector) pairs / adversarial proofs");
    run.assume("prove randomness is an alphabet where F^prove_rand_len is too large (it only masks wire values for an honest prover)");
    run.assume("deployed-field soundness: a seeded random line lies inside the circuit's zero set with probability <= deg/|F| ~ 2^-60");
    let q = run.quick();

    // ---- (A) small-field exhaustive
    let gf17: Vec<(Spec, SmallCfg)> = {
        let c = |i, j, p, qv| SmallCfg { cap_inputs: i, cap_joint: j, cap_prove: p, cap_query: qv };
        let mut v = vec![
            (Spec::Count, c(17, 1, 289, 1)),
            (Spec::Sum { max: 1 }, c(17, 1, 17, 1)),
            (Spec::Sum { max: 2 }, c(289, 1, 17, if q { 36 } else { 289 })),
            (Spec::Sum { max: 3 }, c(289, 1, if q { 3 } else { 17 }, if q { 36 } else { 289 })),
            (Spec::Deg3 { len: 1 }, c(17, 1, 17, 1)),
            (Spec::TwoGadget, c(289, 1, if q { 3 } else { 27 }, if q { 36 } else { 289 })),
            (Spec::Deg3 { len: 2 }, c(289, 1, 3, if q { 36 } else { 289 })),
            (Spec::SumVec { max: 1, len: 2, chunk: 1 }, c(289, 289, if q { 3 } else { 27 }, 1)),
            (Spec::SumVec { max: 1, len: 2, chunk: 2 }, c(289, 17, if q { 9 } else { 81 }, 1)),
            (Spec::SumVec { max: 1, len: 3, chunk: 2 }, c(4913, 289, if q { 1 } else { 3 }, 1)),
            (Spec::Histogram { len: 2, chunk: 1 }, c(289, 289, 1, if q { 17 } else { 100 })),
            (Spec::Histogram { len: 2, chunk: 2 }, c(289, 17, 3, if q { 36 } else { 289 })),
            (Spec::Histogram { len: 3, chunk: 2 }, c(4913, if q { 72 } else { 289 }, 1, if q { 2 } else { 6 })),
            (Spec::Multihot { len: 2, max_weight: 1, chunk: 2 }, c(4913, if q { 72 } else { 289 }, 1, if q { 2 } else { 6 })),
            (Spec::L1 { max: 1, len: 1, chunk: 2 }, c(289, 17, 3, if q { 36 } else { 289 })),
            // last chunk holds exactly one element (flattened length = 1 mod chunk length), and chunk length 1
            (Spec::L1 { max: 1, len: 2, chunk: 2 }, c(4913, if q { 17 } else { 289 }, 1, if q { 2 } else { 4 })),
            (Spec::L1 { max: 1, len: 1, chunk: 1 }, c(289, 289, 1, if q { 4 } else { 36 })),
        ];
        if !q {
            v.push((Spec::SumVec { max: 2, len: 2, chunk: 3 }, c(83521, 100, 1, 1)));
            v.push((Spec::Multihot { len: 2, max_weight: 2, chunk: 3 }, c(83521, 100, 1, 1)));
            v.push((Spec::L1 { max: 2, len: 1, chunk: 3 }, c(83521, 100, 1, 1)));
            v.push((Spec::Sum { max: 5 }, c(4913, 1, 3, 216)));
            v.push((Spec::Histogram { len: 4, chunk: 3 }, c(83521, 100, 1, 1)));
        }
        v
    };
    for (spec, cfg) in gf17 {
        build::<FieldV17, _>(&spec, SmallExh { run: &run, cfg, thin_r: q }).unwrap();
        eprintln!("[{:.1}s] GF(17) {}", run.elapsed(), spec.name());
    }
    // GF(97): rejection of all 95 non-bit values, larger NTT domain (P up to 16)
    let gf97: Vec<(Spec, SmallCfg)> = {
        let c = |i, j, p, qv| SmallCfg { cap_inputs: i, cap_joint: j, cap_prove: p, cap_query: qv };
        let mut v = vec![
            (Spec::Count, c(97, 1, if q { 9 } else { 9409 }, 1)),
            (Spec::Sum { max: 2 }, c(9409, 1, 1, if q { 16 } else { 216 })),
            (Spec::SumVec { max: 1, len: 2, chunk: 2 }, c(9409, 97, 1, 1)),
            (Spec::Histogram { len: 2, chunk: 2 }, c(9409, if q { 6 } else { 97 }, 1, if q { 16 } else { 4 })),
        ];
        if !q {
            v.push((Spec::SumVec { max: 3, len: 3, chunk: 2 }, c(4096, 36, 1, 1))); // alphabet inputs {0,1,96,2}^6
            v.push((Spec::L1 { max: 1, len: 1, chunk: 1 }, c(9409, 300, 1, 2)));
            v.push((Spec::Deg3 { len: 3 }, c(912673, 1, 1, 9)));
        }
        v
    };
    for (spec, cfg) in gf97 {
        build::<FieldV97, _>(&spec, SmallExh { run: &run, cfg, thin_r: q }).unwrap();
        eprintln!("[{:.1}s] GF(97) {}", run.elapsed(), spec.name());
    }
    if !q {
        let c = |i, j, p, qv| SmallCfg { cap_inputs: i, cap_joint: j, cap_prove: p, cap_query: qv };
        // GF(193): 2^6 subgroup -> circuits with up to 31 gadget calls
        for (spec, cfg) in [
            (Spec::Sum { max: 100 }, c(16384, 1, 1, 16)),       // 7 bits, alphabet inputs {0,1,192,2}^7
            (Spec::SumVec { max: 1, len: 12, chunk: 1 }, c(4096, 6, 1, 1)), // 12 calls (P=16), bits only
            (Spec::Histogram { len: 9, chunk: 2 }, c(19683, 6, 1, 6)), // {0,1,192}^9, 5 calls (P=8), ragged last chunk
        ] {
            build::<FieldV193, _>(&spec, SmallExh { run: &run, cfg, thin_r: q }).unwrap();
            eprintln!("[{:.1}s] GF(193) {}", run.elapsed(), spec.name());
        }
    }

    // ---- (B) adversarial proofs
    adversarial_count(&run, !q);
    for spec in [Spec::TwoGadget, Spec::Count, Spec::Sum { max: 2 }, Spec::Deg3 { len: 1 }, Spec::Histogram { len: 2, chunk: 2 }, Spec::SumVec { max: 1, len: 2, chunk: 1 }] {
        build::<FieldV17, _>(&spec, ForgedGadget { run: &run, all_inputs: !q || spec.input_len() == 1 }).unwrap();
    }
    eprintln!("[{:.1}s] adversarial", run.elapsed());

    // ---- (C) linearity + lengths
    let small_specs = vec![
        Spec::Count,
        Spec::Sum { max: 5 },
        Spec::Deg3 { len: 2 },
        Spec::TwoGadget,
        Spec::SumVec { max: 2, len: 2, chunk: 3 },
        Spec::Histogram { len: 3, chunk: 2 },
        Spec::Multihot { len: 2, max_weight: 2, chunk: 3 },
        Spec::L1 { max: 2, len: 1, chunk: 3 },
    ];
    for spec in &small_specs {
        guard(&run, &format!("lin/{}@GF(17)", spec.name()), || build::<FieldV17, _>(spec, LinLen { run: &run, share_counts: vec![1, 2, 3, 5, 16], n_rand: 6 }).unwrap());
        guard(&run, &format!("lin/{}@GF(97)", spec.name()), || build::<FieldV97, _>(spec, LinLen { run: &run, share_counts: vec![1, 2, 3, 7, 96], n_rand: 6 }).unwrap());
    }
    let big_specs = vec![
        Spec::Count,
        Spec::Sum { max: 255 },
        Spec::Sum { max: (1 << 63) - 1 },
        Spec::Sum { max: 1000 },
        Spec::Deg3 { len: 5 },
        Spec::TwoGadget,
        Spec::SumVec { max: 255, len: 3, chunk: 5 },
        Spec::SumVec { max: 1, len: 10, chunk: 3 },
        Spec::Histogram { len: 10, chunk: 3 },
        Spec::Histogram { len: 7, chunk: 10 },
        Spec::Multihot { len: 9, max_weight: 4, chunk: 4 },
        Spec::L1 { max: 7, len: 4, chunk: 3 },
    ];
    for spec in &big_specs {
        guard(&run, &format!("lin/{}@Field64", spec.name()), || build::<Field64, _>(spec, LinLen { run: &run, share_counts: vec![1, 2, 3, 5, 16, 254, 255, 256, 257, 512], n_rand: if q { 5 } else { 12 } }).unwrap());
        guard(&run, &format!("lin/{}@Field128", spec.name()), || build::<Field128, _>(spec, LinLen { run: &run, share_counts: vec![1, 2, 3, 5, 16, 254, 255, 256, 257, 512], n_rand: if q { 5 } else { 12 } }).unwrap());
    }
    eprintln!("[{:.1}s] linearity+lengths", run.elapsed());

    // ---- (D) deployed fields
    let mut dep = big_specs.clone();
    dep.extend([
        Spec::SumVec { max: 3, len: 20, chunk: 7 },
        Spec::Histogram { len: 100, chunk: 10 },
        Spec::Multihot { len: 30, max_weight: 30, chunk: 6 },
        Spec::L1 { max: 255, len: 3, chunk: 6 },
        Spec::Sum { max: 1 },
        Spec::Histogram { len: 1, chunk: 1 },
    ]);
    if !q {
        dep.extend([
            Spec::SumVec { max: 65535, len: 50, chunk: 29 },
            Spec::Histogram { len: 1000, chunk: 32 },
            Spec::Multihot { len: 200, max_weight: 17, chunk: 15 },
            Spec::L1 { max: 1023, len: 30, chunk: 18 },
            Spec::Deg3 { len: 200 },
        ]);
    }
    for spec in &dep {
        guard(&run, &format!("dep/{}@Field64", spec.name()), || build::<Field64, _>(spec, Deployed { run: &run, lines: if q { 2 } else { 8 } }).unwrap());
        guard(&run, &format!("dep/{}@Field128", spec.name()), || build::<Field128, _>(spec, Deployed { run: &run, lines: if q { 2 } else { 8 } }).unwrap());
    }
    // widest admissible digit vectors: bounds whose bit length equals the field's (63/64 digits over Field64,
    // 127/128 over Field128)
    let p64 = Field64::p();
    for spec in [Spec::Sum { max: 1 << 63 }, Spec::Sum { max: (1 << 63) - 1 }, Spec::Sum { max: p64 - 1 }, Spec::SumVec { max: 1 << 63, len: 2, chunk: 5 }, Spec::L1 { max: 1 << 63, len: 2, chunk: 16 }, Spec::Multihot { len: 4, max_weight: 1 << 63, chunk: 9 }] {
        guard(&run, &format!("dep/{}@Field64", spec.name()), || build::<Field64, _>(&spec, Deployed { run: &run, lines: 2 }).unwrap());
    }
    for spec in [Spec::Sum { max: 1 << 127 }, Spec::Sum { max: (1 << 127) - 1 }, Spec::SumVec { max: 1 << 127, len: 1, chunk: 9 }, Spec::L1 { max: 1 << 127, len: 1, chunk: 16 }] {
        guard(&run, &format!("dep/{}@Field128", spec.name()), || build::<Field128, _>(&spec, Deployed { run: &run, lines: 2 }).unwrap());
    }
    eprintln!("[{:.1}s] deployed", run.elapsed());
    run.exhaustive(true);
    run.note("exhaustive_scope", json!("small-field instances: inputs/joint/gadget-point exhaustive as listed in samples; deployed fields: lattice + lines (not exhaustive)"));
    run.finish();
}
