//! C18 — reports are bound to context, nonce, role and key: mismatches are rejected.
//!
//! Engine: fault enumeration over a mismatch matrix. Every aggregator carries its own beliefs
//! (ctx, nonce, verify key, identifier, algorithm id, which share it was handed); single and
//! pairwise departures from the honest configuration are enumerated, in wire mode (shares decoded
//! under the aggregator's own identifier) and in direct mode (objects handed to `verify_init`).
use prio::field::{Field128, Field64};
use prio::flp::Type;
use prio::idpf::IdpfInput;
use prio::vdaf::poplar1::{Poplar1, Poplar1AggregationParam};
use prio::vdaf::prio3::Prio3;
use prio::vdaf::test_utils::TestVectorClient;
use prio::vdaf::xof::XofTurboShake128;
use prio::vdaf::Aggregator;
use prio::codec::{Encode, ParameterizedDecode};
use pvh::engine::tape::{tape_alphabet, Tape};
use pvh::engine::{fnv, Level, Run};
use pvh::kit::ints::{IntConv, KitField};
use pvh::kit::p3cases::*;
use pvh::kit::vdafkit::{verify_report_ex, AggEnv, Failure, Stage, VerifyOpts};
use serde_json::json;

type P3<T> = Prio3<T, XofTurboShake128, 32>;

#[derive(Clone, Debug, PartialEq, Eq, Hash)]
enum Dev {
    /// aggregator `a` uses a different context string
    Ctx(usize),
    /// all aggregators use the same, but not the client's, context string
    CtxAll,
    Nonce(usize),
    NonceAll,
    Key(usize),
    /// control: all aggregators agree on another key (not a mismatch)
    KeyAll,
    Alg(usize),
    AlgAll,
    /// aggregator `a` runs under identifier `id` (its own share)
    Id(usize, usize),
    /// aggregators `a` and `b` are handed each other's share
    Swap(usize, usize),
    /// aggregator `a` uses a different context string of the SAME length (last byte changed)
    CtxSameLen(usize),
    /// aggregator `a` uses a context string of the same length that differs in the first byte only
    CtxFirstByte(usize),
    /// aggregator `a` uses a different context string only when combining verifier shares and in verify_next
    CtxLate(usize),
}

impl Dev {
    fn is_mismatch(&self, nonce_bound: bool) -> Option<bool> {
        // Some(true): verification must fail; Some(false): must succeed with honest outputs; None: unspecified
        match self {
            Dev::KeyAll => Some(false),
            Dev::NonceAll => Some(nonce_bound).map(|b| b).and_then(|b| if b { Some(true) } else { Some(false) }),
            _ => Some(true),
        }
    }
}

struct Setup<'a, V> {
    name: String,
    vdaf: &'a V,
    vdaf_alt_alg: Option<&'a V>,
    n: usize,
    /// nonce bound at the client (joint randomness / Poplar1)
    nonce_bound: bool,
    /// the steps after verify_init depend on the context string (Prio3 with joint randomness)
    late_ctx_bound: bool,
}

#[allow(clippy::too_many_arguments)]
fn matrix<V>(run: &Run, s: &Setup<V>, agg_param: &V::AggregationParam, ps: &V::PublicShare, shares: &[V::InputShare], ctx: &[u8], nonce: &[u8; 16], vk: &[u8; 32], pairs: bool, honest_out: &mut Option<Vec<Vec<u8>>>)
where
    V: Aggregator<32, 16>,
    V::VerifyState: Encode + for<'a> ParameterizedDecode<(&'a V, usize)>,
{
    let n = s.n;
    let mut singles: Vec<Dev> = vec![Dev::CtxAll, Dev::NonceAll, Dev::KeyAll];
    if s.vdaf_alt_alg.is_some() {
        singles.push(Dev::AlgAll);
    }
    for a in 0..n {
        singles.push(Dev::Ctx(a));
        singles.push(Dev::Nonce(a));
        singles.push(Dev::Key(a));
        if s.vdaf_alt_alg.is_some() {
            singles.push(Dev::Alg(a));
        }
        // other identifiers, including out-of-range ones whose low byte aliases a valid identifier
        for id in (0..n).chain([n, 255, 256, 256 + a, 257, 65536 + a, usize::MAX]) {
            if id != a {
                singles.push(Dev::Id(a, id));
            }
        }
        singles.push(Dev::CtxLate(a));
        if !ctx.is_empty() {
            singles.push(Dev::CtxSameLen(a));
            if ctx.len() > 1 {
                singles.push(Dev::CtxFirstByte(a));
            }
        }
        for b in a + 1..n {
            singles.push(Dev::Swap(a, b));
        }
    }
    let mut combos: Vec<Vec<Dev>> = vec![vec![]];
    combos.extend(singles.iter().map(|d| vec![d.clone()]));
    if pairs {
        for i in 0..singles.len() {
            for j in i + 1..singles.len() {
                combos.push(vec![singles[i].clone(), singles[j].clone()]);
            }
        }
    }
    let mut alt_ctx = ctx.to_vec();
    alt_ctx.push(0x21);
    let mut alt_ctx2 = ctx.to_vec();
    if alt_ctx2.is_empty() {
        alt_ctx2.push(1);
    } else {
        alt_ctx2[0] ^= 1;
    }
    let mut alt_nonce = *nonce;
    alt_nonce[15] ^= 0x80;
    let mut alt_nonce2 = *nonce;
    alt_nonce2[0] ^= 1;
    let mut alt_vk = *vk;
    alt_vk[31] ^= 1;
    let mut alt_vk2 = *vk;
    alt_vk2[0] ^= 0x10;
    for combo in &combos {
        for wire in [true, false] {
            let mut envs: Vec<AggEnv<V, 32>> = (0..n).map(|i| AggEnv { vdaf: s.vdaf, verify_key: *vk, ctx: ctx.to_vec(), nonce: *nonce, agg_id: i, share_index: i, ctx_late: None }).collect();
            // expectations: a combination is a mismatch if any member is; "consistent" substitutions
            // combined with a per-aggregator change of the same field are still mismatches
            let mut must_fail = false;
            let mut must_pass = true;
            for d in combo {
                match d {
                    Dev::Ctx(a) => envs[*a].ctx = alt_ctx.clone(),
                    Dev::CtxSameLen(a) => {
                        let mut c = ctx.to_vec();
                        if let Some(l) = c.last_mut() {
                            *l = l.wrapping_add(1);
                        }
                        envs[*a].ctx = c
                    }
                    Dev::CtxFirstByte(a) => {
                        let mut c = ctx.to_vec();
                        c[0] ^= 0x80;
                        envs[*a].ctx = c
                    }
                    Dev::CtxAll => envs.iter_mut().for_each(|e| {
                        if e.ctx == ctx {
                            e.ctx = alt_ctx2.clone()
                        }
                    }),
                    Dev::Nonce(a) => envs[*a].nonce = alt_nonce,
                    Dev::NonceAll => envs.iter_mut().for_each(|e| {
                        if e.nonce == *nonce {
                            e.nonce = alt_nonce2
                        }
                    }),
                    Dev::Key(a) => envs[*a].verify_key = alt_vk,
                    Dev::KeyAll => envs.iter_mut().for_each(|e| {
                        if e.verify_key == *vk {
                            e.verify_key = alt_vk2
                        }
                    }),
                    Dev::Alg(a) => envs[*a].vdaf = s.vdaf_alt_alg.unwrap(),
                    Dev::AlgAll => envs.iter_mut().for_each(|e| e.vdaf = s.vdaf_alt_alg.unwrap()),
                    Dev::Id(a, id) => envs[*a].agg_id = *id,
                    Dev::CtxLate(a) => envs[*a].ctx_late = Some(alt_ctx.clone()),
                    Dev::Swap(a, b) => {
                        let t = envs[*a].share_index;
                        envs[*a].share_index = envs[*b].share_index;
                        envs[*b].share_index = t;
                    }
                }
                match d.is_mismatch(s.nonce_bound) {
                    Some(true) => {
                        must_fail = true;
                        must_pass = false;
                    }
                    Some(false) => {}
                    None => must_pass = false,
                }
            }
            // Expectation from the FINAL configuration (several departures may cancel or coincide):
            let _ = (&mut must_fail, &mut must_pass);
            // a late context mismatch is only observable where the later steps use the context at all:
            // Prio3 with joint randomness (seed derivation); Poplar1's later steps ignore it
            let late_ok = envs.iter().all(|e| e.ctx_late.is_none()) || !s.late_ctx_bound;
            let ctx_ok = envs.iter().all(|e| e.ctx == ctx) && late_ok;
            let key_ok = envs.iter().all(|e| e.verify_key == envs[0].verify_key);
            let nonce_agree = envs.iter().all(|e| e.nonce == envs[0].nonce);
            let nonce_ok = nonce_agree && (!s.nonce_bound || envs[0].nonce == *nonce);
            let alg_ok = envs.iter().all(|e| std::ptr::eq(e.vdaf, s.vdaf));
            // roles: aggregator i must run under id i on a share byte-identical to share i
            let enc: Vec<Vec<u8>> = shares.iter().map(|x| x.get_encoded().unwrap()).collect();
            // (identifiers form a permutation and everybody holds a share byte-identical to the one
            // sharded for the identifier it runs under)
            let mut ids: Vec<usize> = envs.iter().map(|e| e.agg_id).collect();
            ids.sort();
            let roles_ok = ids == (0..n).collect::<Vec<_>>() && envs.iter().all(|e| e.agg_id < n && enc[e.share_index] == enc[e.agg_id]);
            let must_fail = !(ctx_ok && key_ok && nonce_ok && alg_ok && roles_ok);
            let must_pass = !must_fail;
            // a context switched only for the later steps is judged where those steps bind the context
            // (joint randomness); elsewhere an aggregator that is inconsistent with itself is outside
            // the statement
            if !s.late_ctx_bound && combo.iter().any(|d| matches!(d, Dev::CtxLate(_))) {
                continue;
            }
            if combo.len() > 1 && must_pass {
                continue; // departures cancelled out; equivalent to the baseline or a single consistent substitution
            }
            let opts = if wire { VerifyOpts::wire() } else { VerifyOpts::direct() };
            let res = verify_report_ex(&envs, agg_param, ps, shares, &opts);
            run.count("evaluations", 1);
            let label = format!("{:?}", combo);
            let key_label: String = combo.iter().map(|d| match d {
                Dev::Ctx(_) => "ctx",
                Dev::CtxSameLen(_) => "ctx_same_length",
                Dev::CtxFirstByte(_) => "ctx_first_byte",
                Dev::CtxAll => "ctx_all",
                Dev::Nonce(_) => "nonce",
                Dev::NonceAll => "nonce_all",
                Dev::Key(_) => "key",
                Dev::KeyAll => "key_all",
                Dev::Alg(_) => "alg",
                Dev::AlgAll => "alg_all",
                Dev::Id(a, id) => if *id >= n { "id_out_of_range" } else if *a == 0 { "leader_under_helper_id" } else if *id == 0 { "helper_under_leader_id" } else { "helper_under_other_helper_id" },
                Dev::Swap(..) => "swap",
                Dev::CtxLate(_) => "ctx_late",
            }).collect::<Vec<_>>().join("+");
            let case = json!({"instance": s.name, "mismatch": label, "mode": if wire { "wire" } else { "direct" }, "aggregators": n});
            match res {
                Ok((_, tr)) => {
                    if combo.is_empty() {
                        if honest_out.is_none() {
                            *honest_out = Some(tr.output_shares.clone());
                        }
                        continue;
                    }
                    if must_fail {
                        run.fail(&format!("{}/undetected/{}/{}", s.name, key_label, if wire { "wire" } else { "direct" }), &format!("{}: verification completed at all {n} aggregators despite mismatch {label} ({} mode)", s.name, if wire { "wire" } else { "direct" }), case);
                    } else if must_pass {
                        if let Some(h) = honest_out {
                            if &tr.output_shares != h {
                                run.fail(&format!("{}/exception_outputs_changed/{}", s.name, key_label), &format!("{}: consistent substitution {label} changed the output shares", s.name), case);
                            }
                        }
                        run.count("consistent_substitutions_passed", 1);
                    }
                }
                Err(Failure { stage, msg }) => {
                    if let Stage::Panic(w) = &stage {
                        run.fail(&format!("{}/panic/{}/{}", s.name, key_label, w.split('[').next().unwrap_or("")), &format!("{}: mismatch {label} made {w} panic: {msg}", s.name), case.clone());
                    }
                    if combo.is_empty() {
                        run.fail(&format!("{}/baseline", s.name), &format!("{}: honest configuration failed at {:?}: {msg}", s.name, stage), case);
                        return;
                    }
                    if must_pass && !must_fail {
                        run.fail(&format!("{}/exception_rejected/{}", s.name, key_label), &format!("{}: consistent substitution {label} was rejected at {:?}: {msg}", s.name, stage), case);
                    }
                    run.count("mismatches_rejected", 1);
                }
            }
            run.distinct(fnv(format!("{}/{label}/{wire}", s.name).as_bytes()));
        }
    }
}

fn prio3_case<T>(run: &Run, case: &Case<T>, aggs: &[u8], proofs: u8, tapes: &[(String, Tape)], pairs: bool)
where
    T: Type + Clone + Send + Sync + 'static,
    T::Field: KitField,
    <T::Field as prio::field::FieldElementWithInteger>::Integer: IntConv,
{
    prio3_case_x::<T, XofTurboShake128>(run, case, aggs, proofs, tapes, pairs, "")
}

fn prio3_case_x<T, X>(run: &Run, case: &Case<T>, aggs: &[u8], proofs: u8, tapes: &[(String, Tape)], pairs: bool, sfx: &str)
where
    T: Type + Clone + Send + Sync + 'static,
    X: prio::vdaf::xof::Xof<32>,
    T::Field: KitField,
    <T::Field as prio::field::FieldElementWithInteger>::Integer: IntConv,
{
    let jr = case.typ.joint_rand_len() > 0;
    for &na in aggs {
        let vdaf: Prio3<T, X, 32> = Prio3::new(na, proofs, case.alg, case.typ.clone()).unwrap();
        let alt: Prio3<T, X, 32> = Prio3::new(na, proofs, case.alg ^ 0x100, case.typ.clone()).unwrap();
        for (ti, (_tn, tape)) in tapes.iter().enumerate() {
            let m = &case.meas[(ti * 3 + 1) % case.meas.len()];
            let ctx: Vec<u8> = tape.bytes(1, [0usize, 7, 40][ti % 3]);
            let nonce: [u8; 16] = tape.array(2);
            let vk: [u8; 32] = tape.array(3);
            let random = tape.bytes(4, if jr { 2 * na as usize * 32 } else { na as usize * 32 });
            let (ps, shares) = vdaf.shard_with_random(&ctx, m, &nonce, &random).unwrap();
            let s = Setup { name: format!("{}{sfx}/aggs={na}", case.name), vdaf: &vdaf, vdaf_alt_alg: Some(&alt), n: na as usize, nonce_bound: jr, late_ctx_bound: jr };
            let mut honest = None;
            matrix(run, &s, &(), &ps, &shares, &ctx, &nonce, &vk, pairs, &mut honest);
        }
    }
}

fn poplar_case(run: &Run, bits: usize, tapes: &[(String, Tape)], pairs: bool) {
    let vdaf: Poplar1<XofTurboShake128, 32> = Poplar1::new(bits);
    for (ti, (_tn, tape)) in tapes.iter().enumerate() {
        let input: Vec<bool> = (0..bits).map(|i| (ti + i) % 3 != 0).collect();
        let ctx: Vec<u8> = tape.bytes(1, [0usize, 5, 33][ti % 3]);
        let nonce: [u8; 16] = tape.array(2);
        let vk: [u8; 32] = tape.array(3);
        let random = tape.bytes(4, 32 + 96);
        let (ps, shares) = vdaf.shard_with_random(&ctx, &IdpfInput::from_bools(&input), &nonce, &random).unwrap();
        let mut levels = vec![0usize, bits - 1];
        if bits > 2 {
            levels.push(bits / 2);
        }
        levels.sort();
        levels.dedup();
        for level in levels {
            // candidate prefixes: the on-path prefix and its sibling (both present so a non-zero output exists)
            let mut on = input[..=level].to_vec();
            let mut sib = on.clone();
            sib[level] = !sib[level];
            if sib < on {
                std::mem::swap(&mut on, &mut sib);
            }
            let ap = Poplar1AggregationParam::try_from_prefixes(vec![IdpfInput::from_bools(&on), IdpfInput::from_bools(&sib)]).unwrap();
            let s = Setup { name: format!("Poplar1(bits={bits})/level={level}"), vdaf: &vdaf, vdaf_alt_alg: None, n: 2, nonce_bound: true, late_ctx_bound: false };
            let mut honest = None;
            matrix(run, &s, &ap, &ps, &shares, &ctx, &nonce, &vk, pairs, &mut honest);
            // a single candidate prefix (on the path; off the path): nothing to combine in the sketch
            for (which, cand) in [("on_path", input[..=level].to_vec()), ("off_path", { let mut c = input[..=level].to_vec(); c[level] = !c[level]; c })] {
                let ap = Poplar1AggregationParam::try_from_prefixes(vec![IdpfInput::from_bools(&cand)]).unwrap();
                let s = Setup { name: format!("Poplar1(bits={bits})/level={level}/single_{which}"), vdaf: &vdaf, vdaf_alt_alg: None, n: 2, nonce_bound: true, late_ctx_bound: false };
                let mut honest = None;
                matrix(run, &s, &ap, &ps, &shares, &ctx, &nonce, &vk, false, &mut honest);
            }
        }
    }
}

fn main() {
    let run = Run::from_args("C18", Level::FaultEnumeration);
    run.rule("mismatch matrix: per-aggregator ctx / nonce / verify key / algorithm id / identifier / handed share, single and (thorough: all, quick: for small instances) pairwise departures from the honest configuration, in wire mode and direct-object mode, for every Prio3 type (2..4 aggregators; TurboSHAKE128 and, for four instances, the HMAC-SHA256+AES128 XOF; context departures of a different length, of the same length in the last byte and in the first byte) and Poplar1 inner and leaf levels with the on-path/sibling pair and with a single on-path or off-path candidate; plus the stated exception (nonce or key replaced consistently everywhere). distinct = distinct (instance, mismatch combination, mode); non-trivial = the report reached verify_init at every aggregator or was rejected by a decoder under the aggregator's own identifier");
    run.assume("a mismatch going undetected by chance (hash/proof collision) has probability ~2^-57 per case and is reported as a violation");
    run.assume("single-aggregator instances are excluded (nothing to bind against)");
    let q = run.quick();
    // constant tapes make the two parties' seeds coincide, which turns role swaps into no-ops: use
    // only tapes with pairwise distinct seeds here (counter + seeded)
    let tapes: Vec<(String, Tape)> = tape_alphabet(run.seed, if q { 2 } else { 8 }).into_iter().skip(2).collect();
    let pairs = true;
    let aggs: Vec<u8> = if q { vec![2, 3] } else { vec![2, 3, 4] };
    prio3_case(&run, &count_case::<Field64>(), &aggs, 1, &tapes, pairs);
    prio3_case(&run, &sum_case::<Field64>(255), &aggs, 2, &tapes, pairs);
    prio3_case(&run, &average_case::<Field128>(9), &[2], 1, &tapes, pairs);
    prio3_case(&run, &sumvec_case::<Field128>(3, 3, 2), &aggs, 1, &tapes, pairs);
    prio3_case(&run, &histogram_case::<Field128>(5, 2), &aggs, 2, &tapes, pairs);
    prio3_case(&run, &multihot_case::<Field128>(4, 2, 3), &aggs, 1, &tapes, pairs);
    prio3_case(&run, &l1_case::<Field128>(3, 2, 3), &aggs, 1, &tapes, pairs);
    // exactly one joint-randomness element (whole encoding in one chunk)
    prio3_case(&run, &histogram_case::<Field128>(4, 4), &aggs, 1, &tapes, pairs);
    prio3_case(&run, &sumvec_case::<Field128>(1, 4, 4), &[2], 2, &tapes, pairs);
    // the other XOF shipped with the library (HMAC-SHA256 + AES128)
    {
        use prio::vdaf::xof::XofHmacSha256Aes128;
        prio3_case_x::<_, XofHmacSha256Aes128>(&run, &count_case::<Field64>(), &aggs, 1, &tapes, pairs, "#hmac");
        prio3_case_x::<_, XofHmacSha256Aes128>(&run, &sum_case::<Field64>(255), &[2], 2, &tapes, pairs, "#hmac");
        prio3_case_x::<_, XofHmacSha256Aes128>(&run, &histogram_case::<Field128>(5, 2), &aggs, 2, &tapes, pairs, "#hmac");
        prio3_case_x::<_, XofHmacSha256Aes128>(&run, &sumvec_case::<Field64>(3, 3, 2), &[2], 1, &tapes, pairs, "#hmac");
    }
    for bits in if q { vec![1usize, 2, 4, 9] } else { vec![1, 2, 3, 4, 9, 33, 65] } {
        poplar_case(&run, bits, &tapes, pairs);
    }
    run.sample(json!({"instance": "Count@Field64/aggs=3", "mismatch": "[Id(0, 1)]", "mode": "direct", "meaning": "the leader's share processed under identifier 1"}));
    run.sample(json!({"instance": "Histogram(len=5,chunk=2)/aggs=3", "mismatch": "[Nonce(2), CtxAll]", "mode": "wire"}));
    run.sample(json!({"instance": "Poplar1(bits=4)/level=3", "mismatch": "[Swap(0, 1)]", "mode": "wire"}));
    run.exhaustive(true);
    run.note("exhaustive_scope", json!("all single and pairwise combinations of the listed departures per instance; values of the departing ctx/nonce/key are fixed alternatives"));
    run.finish();
}
